// C03 / C04 harness: the real Parser / EclipseState / Schedule of the working tree.
//
//   schedule corr  <seed> <tier> <outdir>   generated SCHEDULE sections over the core keyword set:
//                                           block structure (real ScheduleDeck) and the observation
//                                           record of every report step vs Model/SchedDeck+SchedCore
//   schedule prop  <seed> <tier> <outdir>   C03 on the implementation alone: Schedule(full) vs
//                                           Schedule(truncated at k) vs Schedule(pre ++ other tail),
//                                           states 0..k with ScheduleState::operator== and dumps;
//                                           generated (core + extra keywords) and shipped decks
//   schedule acorr <seed> <tier> <outdir>   C04: real Schedule::applyAction (sequences) vs the model
//   schedule aprop <seed> <tier> <outdir>   C04 on the implementation alone: applyAction vs the deck
//                                           with the substituted body inlined at the end of block n
//   schedule dump <deckfile>                debugging aid
#include "common/vh.hpp"

#include <opm/input/eclipse/Parser/Parser.hpp>
#include <opm/input/eclipse/Parser/ParseContext.hpp>
#include <opm/input/eclipse/Parser/ErrorGuard.hpp>
#include <opm/input/eclipse/Parser/InputErrorAction.hpp>
#include <opm/input/eclipse/Deck/Deck.hpp>
#include <opm/input/eclipse/Deck/DeckKeyword.hpp>
#include <opm/input/eclipse/EclipseState/EclipseState.hpp>
#include <opm/input/eclipse/Schedule/Schedule.hpp>
#include <opm/input/eclipse/Schedule/ScheduleDeck.hpp>
#include <opm/input/eclipse/Schedule/ScheduleBlock.hpp>
#include <opm/input/eclipse/Schedule/ScheduleRestartInfo.hpp>
#include <opm/input/eclipse/Schedule/ScheduleState.hpp>
#include <opm/input/eclipse/Schedule/Events.hpp>
#include <opm/input/eclipse/Schedule/Action/Actions.hpp>
#include <opm/input/eclipse/Schedule/Action/ActionX.hpp>
#include <opm/input/eclipse/Schedule/Action/SimulatorUpdate.hpp>
#include <opm/input/eclipse/Schedule/Action/ActionResult.hpp>
#include <opm/input/eclipse/Schedule/Well/Well.hpp>
#include <opm/input/eclipse/Schedule/Well/WellConnections.hpp>
#include <opm/input/eclipse/Schedule/Well/WellEconProductionLimits.hpp>
#include <opm/input/eclipse/Schedule/Well/WDFAC.hpp>
#include <opm/input/eclipse/Schedule/MSW/WellSegments.hpp>
#include <opm/input/eclipse/Schedule/MSW/Segment.hpp>
#include <opm/input/eclipse/Schedule/MSW/Valve.hpp>
#include <opm/input/eclipse/Schedule/MSW/SICD.hpp>
#include <opm/input/eclipse/Schedule/MSW/AICD.hpp>
#include <opm/input/eclipse/Schedule/MSW/icd.hpp>
#include <opm/input/eclipse/Schedule/Well/Connection.hpp>
#include <opm/input/eclipse/Schedule/Group/Group.hpp>
#include <opm/input/eclipse/Schedule/UDQ/UDQConfig.hpp>
#include <opm/input/eclipse/Schedule/GasLiftOpt.hpp>
#include <opm/input/eclipse/Schedule/Group/GConSale.hpp>
#include <opm/input/eclipse/Schedule/Group/GConSump.hpp>
#include <opm/input/eclipse/Schedule/Group/GroupEconProductionLimits.hpp>
#include <opm/input/eclipse/Schedule/Group/GuideRateConfig.hpp>
#include <opm/input/eclipse/Schedule/MessageLimits.hpp>
#include <opm/input/eclipse/Schedule/Network/Balance.hpp>
#include <opm/input/eclipse/Schedule/Network/ExtNetwork.hpp>
#include <opm/input/eclipse/Schedule/OilVaporizationProperties.hpp>
#include <opm/input/eclipse/Schedule/RFTConfig.hpp>
#include <opm/input/eclipse/Schedule/RPTConfig.hpp>
#include <opm/input/eclipse/Schedule/RSTConfig.hpp>
#include <opm/input/eclipse/Schedule/ResCoup/ReservoirCouplingInfo.hpp>
#include <opm/input/eclipse/Schedule/Source.hpp>
#include <opm/input/eclipse/Schedule/Tuning.hpp>
#include <opm/input/eclipse/Schedule/UDQ/UDQActive.hpp>
#include <opm/input/eclipse/Schedule/VFPInjTable.hpp>
#include <opm/input/eclipse/Schedule/VFPProdTable.hpp>
#include <opm/input/eclipse/Schedule/Well/PAvg.hpp>
#include <opm/input/eclipse/Schedule/Well/WellTestConfig.hpp>
#include <opm/input/eclipse/Schedule/Well/WListManager.hpp>
#include <opm/input/eclipse/Schedule/Well/NameOrder.hpp>
#include <opm/input/eclipse/Units/UnitSystem.hpp>
#include <opm/input/eclipse/Parser/ParserKeywords/W.hpp>
#include <opm/input/eclipse/Parser/ParserKeywords/F.hpp>
#include <opm/input/eclipse/Schedule/UDQ/UDQDefine.hpp>
#include <opm/input/eclipse/Schedule/UDQ/UDQInput.hpp>
#include <opm/input/eclipse/Schedule/UDQ/UDQParams.hpp>
#include <opm/input/eclipse/Schedule/Well/WList.hpp>
#include <opm/input/eclipse/Python/Python.hpp>
#include <opm/common/utility/TimeService.hpp>
#include <opm/common/OpmLog/OpmLog.hpp>
#include <opm/common/OpmLog/StreamLog.hpp>
#include <opm/common/OpmLog/LogUtil.hpp>

#include <algorithm>
#include <chrono>
#include <filesystem>
#include <functional>
#include <iostream>
#include <memory>
#include <optional>
#include <set>

using namespace Opm;
namespace fs = std::filesystem;

namespace {

// ---------------------------------------------------------------------------------------------
// schedule IR: keyword name + records of string fields (decimal numbers, names, '*' = defaulted)

struct KwIR {
    std::string name;
    std::vector<std::vector<std::string>> recs;
    std::string raw;    // extra (unmodelled) keywords: deck text verbatim
    bool isTime() const { return name == "DATES" || name == "TSTEP"; }
    int nsteps() const { return isTime() ? (int) recs.size() : 0; }
};

const char* MON[] = { "", "JAN", "FEB", "MAR", "APR", "MAY", "JUN", "JUL", "AUG", "SEP", "OCT", "NOV", "DEC" };

std::string q(const std::string& s) { return "'" + s + "'"; }
std::string dv(const std::string& s) { return s == "*" ? "1*" : s; }
std::string hv(const std::string& s) { return s == "*" ? "*" : vh::hexF64(std::strtod(s.c_str(), nullptr)); }

bool isValueField(const std::string& kw, size_t idx, size_t nfields) {
    if (kw == "WCONPROD") return idx >= 3;
    if (kw == "WCONINJE") return idx >= 4;
    if (kw == "WCONHIST") return idx >= 3;
    if (kw == "WCONINJH") return idx == 3 || idx == 4;
    if (kw == "WELTARG") return idx == 2;
    if (kw == "WEFAC" || kw == "GEFAC") return idx == 1;
    if (kw == "GCONPROD") return idx >= 2 && idx <= 5;
    if (kw == "GCONINJE") return idx >= 3 && idx <= 6;
    if (kw == "WECON") return idx == 1 || idx == 2;
    if (kw == "WTEST") return idx == 1 || idx == 4;
    if (kw == "WPIMULT") return idx == 1;
    if (kw == "NEXTSTEP") return idx == 0;
    if (kw == "WELSEGS") return nfields == 8 && idx >= 5;                       // diameter, roughness, cross-section area
    if (kw == "WSEGVALV") return (idx >= 2 && idx <= 6) || idx == 8;            // Cv, Ac, pipe D / roughness / A, max Ac
    if (kw == "WSEGSICD" || kw == "WSEGAICD") return idx == 3;                  // device length (strength: not in the record)
    (void) nfields;
    return false;
}

std::string hexOfString(const std::string& t) {
    if (t.empty()) return "-";
    std::string o; char b[4];
    for (unsigned char c : t) { std::snprintf(b, sizeof b, "%02x", c); o += b; }
    return o;
}

// deck text of one keyword
std::string deckText(const KwIR& k) {
    if (!k.raw.empty()) return k.raw;
    std::ostringstream o;
    if (k.name == "ACTIONX") {
        o << "ACTIONX\n " << q(k.recs[0][0]) << " 100 /\n WWCT 'P1' > 0.5 /\n/\n";
        return o.str();
    }
    if (k.name == "ENDACTIO") return "ENDACTIO\n";
    if (k.name == "TSTEP") {
        o << "TSTEP\n";
        for (auto& r : k.recs) {
            // r[0] = "num/den" (den a power of two), optionally negative
            long num = std::atol(r[0].substr(0, r[0].find('/')).c_str());
            long den = std::atol(r[0].substr(r[0].find('/') + 1).c_str());
            char b[64]; std::snprintf(b, sizeof b, " %.10g", (double) num / (double) den); o << b;
        }
        o << " /\n";
        return o.str();
    }
    if (k.name == "NEXTSTEP") { o << "NEXTSTEP\n " << k.recs[0][0] << " " << q(k.recs[0][1]) << " /\n"; return o.str(); }
    if (k.name == "WHISTCTL") { o << "WHISTCTL\n " << q(k.recs[0][0]) << " /\n"; return o.str(); }
    if (k.name == "WELSEGS") {
        // recs[0] = { well }, then { segment, branch, outlet, length, depth, diameter, roughness, area } (ABS, one segment per record)
        o << "WELSEGS\n " << q(k.recs[0][0]) << " 2000 5 1* 'ABS' 'HF-' 'HO' /\n";
        for (size_t i = 1; i < k.recs.size(); ++i) { const auto& r = k.recs[i]; o << " " << r[0] << " " << r[0] << " " << r[1] << " " << r[2] << " " << r[3] << " " << r[4] << " " << r[5] << " " << r[6] << " " << r[7] << " /\n"; }
        o << "/\n";
        return o.str();
    }
    if (k.name == "COMPSEGS") {
        // recs[0] = { well }, then { i, j, k, branch, start, end }
        o << "COMPSEGS\n " << q(k.recs[0][0]) << " /\n";
        for (size_t i = 1; i < k.recs.size(); ++i) { const auto& r = k.recs[i]; o << " " << r[0] << " " << r[1] << " " << r[2] << " " << r[3] << " " << r[4] << " " << r[5] << " /\n"; }
        o << "/\n";
        return o.str();
    }
    o << k.name << "\n";
    for (auto& r : k.recs) {
        o << " ";
        if (k.name == "DATES") {
            o << r[2] << " " << q(MON[std::atoi(r[1].c_str())]) << " " << r[0];
            if (r.size() > 3) { char b[32]; std::snprintf(b, sizeof b, " %02d:%02d:%02d", std::atoi(r[3].c_str()), std::atoi(r[4].c_str()), std::atoi(r[5].c_str())); o << b; }
        } else if (k.name == "WELSPECS") {
            o << q(r[0]) << " " << q(r[1]) << " " << dv(r[2]) << " " << dv(r[3]) << " 1* 'OIL'";
        } else if (k.name == "COMPDAT") {
            o << q(r[0]) << " " << r[1] << " " << r[2] << " " << r[3] << " " << r[4] << " " << q(r[5]) << " 2* 0.2";
        } else if (k.name == "WCONPROD") {
            o << q(r[0]) << " " << q(r[1]) << " " << (r[2] == "*" ? "1*" : q(r[2]));
            for (size_t i = 3; i < r.size(); ++i) o << " " << dv(r[i]);
        } else if (k.name == "WCONINJE") {
            o << q(r[0]) << " " << q(r[1]) << " " << q(r[2]) << " " << q(r[3]);
            for (size_t i = 4; i < r.size(); ++i) o << " " << dv(r[i]);
        } else if (k.name == "WELOPEN") {
            o << q(r[0]) << " " << q(r[1]);
            for (size_t i = 2; i < r.size(); ++i) o << " " << r[i];
        } else if (k.name == "WELTARG") {
            o << q(r[0]) << " " << q(r[1]) << " " << r[2];
        } else if (k.name == "WEFAC" || k.name == "GEFAC") {
            o << q(r[0]) << " " << r[1];
        } else if (k.name == "GRUPTREE") {
            o << q(r[0]) << " " << q(r[1]);
        } else if (k.name == "GCONPROD") {
            o << q(r[0]) << " " << q(r[1]) << " " << dv(r[2]) << " " << dv(r[3]) << " " << dv(r[4]) << " " << dv(r[5]) << " " << q(r[6]);
        } else if (k.name == "GCONINJE") {
            o << q(r[0]) << " " << q(r[1]) << " " << q(r[2]) << " " << dv(r[3]) << " " << dv(r[4]) << " " << dv(r[5]) << " " << dv(r[6]) << " " << q(r[7]);
        } else if (k.name == "WCONHIST") {
            o << q(r[0]) << " " << q(r[1]) << " " << (r[2] == "*" ? "1*" : q(r[2])) << " " << r[3] << " " << r[4] << " " << r[5] << " 3* " << dv(r[6]);
        } else if (k.name == "WCONINJH") {
            o << q(r[0]) << " " << q(r[1]) << " " << q(r[2]) << " " << dv(r[3]) << " " << dv(r[4]) << " 6* " << q(r[5]);
        } else if (k.name == "WECON") {
            o << q(r[0]) << " " << r[1] << " 1* " << r[2] << " 2* " << q(r[3]);
        } else if (k.name == "WTEST") {
            o << q(r[0]) << " " << r[1] << " " << (r[2] == "-" ? "1*" : r[2]) << " " << r[3] << " " << r[4];
        } else if (k.name == "WLIST") {
            o << q(r[0]) << " " << q(r[1]);
            for (size_t i = 2; i < r.size(); ++i) o << " " << q(r[i]);
        } else if (k.name == "COMPORD") {
            o << q(r[0]) << " " << r[1];
        } else if (k.name == "COMPLUMP") {
            o << q(r[0]) << " " << r[1] << " " << r[2] << " " << r[3] << " " << r[4] << " " << r[5];
        } else if (k.name == "WPIMULT") {
            o << q(r[0]) << " " << r[1];
            for (size_t i = 2; i < r.size(); ++i) o << " " << dv(r[i]);
        } else if (k.name == "UDQ") {
            o << r[0] << " " << r[1] << " " << r[2];
        } else if (k.name == "WSEGVALV") {
            // well, segment, Cv, Ac, pipe diameter, roughness, pipe area, status, max Ac   (additional length always defaulted)
            o << q(r[0]) << " " << r[1] << " " << r[2] << " " << r[3] << " 1* " << dv(r[4]) << " " << dv(r[5]) << " " << dv(r[6]) << " " << r[7] << " " << dv(r[8]);
        } else if (k.name == "WSEGSICD") {
            // well, segment, strength, length, status
            o << q(r[0]) << " " << r[1] << " " << r[1] << " " << r[2] << " " << r[3] << " 7* " << r[4];
        } else if (k.name == "WSEGAICD") {
            o << q(r[0]) << " " << r[1] << " " << r[1] << " " << r[2] << " " << r[3] << " 7* 1.0 1.0 " << r[4];
        }
        o << " /\n";
    }
    o << "/\n";
    return o.str();
}

// protocol encoding of one keyword
std::string encKw(const KwIR& k) {
    std::string s = k.name + "=";
    if (!k.raw.empty()) return s;
    if (k.name == "ACTIONX") return s + k.recs[0][0];
    for (size_t ri = 0; ri < k.recs.size(); ++ri) {
        if (ri) s += "|";
        const auto& r = k.recs[ri];
        if (k.name == "DATES") { for (size_t i = 0; i < r.size(); ++i) s += (i ? "-" : "") + r[i]; continue; }
        if (k.name == "UDQ") { s += r[0] + "," + r[1] + "," + hexOfString(r[3]); continue; }
        for (size_t i = 0; i < r.size(); ++i) s += (i ? "," : "") + (isValueField(k.name, i, r.size()) ? hv(r[i]) : r[i]);
    }
    return s;
}

std::string encSched(const std::vector<KwIR>& ks) {
    if (ks.empty()) return "-";
    std::string s;
    for (size_t i = 0; i < ks.size(); ++i) s += (i ? ";" : "") + encKw(ks[i]);
    return s;
}

const char* PREAMBLE = R"(RUNSPEC
DIMENS
 6 6 4 /
OIL
GAS
WATER
METRIC
START
 1 'JAN' 2015 /
WELLDIMS
 20 20 20 20 /
UDQDIMS
 10 10 5 5 5 5 5 5 5 5 /
ACTDIMS
 10 10 /
GRID
DX
 144*100 /
DY
 144*100 /
DZ
 144*10 /
TOPS
 36*2000 /
PORO
 144*0.3 /
PERMX
 144*100 /
PERMY
 144*100 /
PERMZ
 144*100 /
SCHEDULE
)";
const char* START_ENC = "2015-1-1";

std::string deckOf(const std::vector<KwIR>& ks) {
    std::string s = PREAMBLE;
    for (auto& k : ks) s += deckText(k);
    return s;
}

// ---------------------------------------------------------------------------------------------
// generator

struct Gen {
    vh::Rng& r;
    bool extras;           // also emit keywords outside the model (property mode)
    bool actions;          // emit ACTIONX blocks
    std::vector<std::string> wells, groups{ "FIELD" };
    std::vector<std::string> actionNames;
    std::map<std::string, std::pair<int, int>> heads;
    bool anyHeadChanged = false;          // then COMPDAT never defaults I,J (outside the model)
    std::set<std::string> connected;      // wells a COMPDAT record named explicitly (they very likely have connections)
    std::vector<std::string> lists;       // well lists created so far
    bool orders = true;                   // emit COMPORD (also in later report steps, also for wells created earlier)
    std::map<std::string, std::set<std::pair<int, int>>> cols;   // columns a COMPDAT may have connected each well in (over-approximation)
    int y = 2015, m = 1, d = 1;
    std::map<std::string, long>* stats = nullptr;
    // fourth round: state-changing keywords re-issued for the SAME object at LATER report steps
    struct Msw { std::string name; int i, j, nconn, nseg; std::vector<int> focus; };
    std::vector<Msw> msw;                  // multisegment wells M1, M2 (not in `wells`: only `*` patterns and the segment keywords reach them)
    bool mswOn = true;
    bool noStar = false;                   // COMPDAT never uses `*` (connections added to a multisegment well after COMPSEGS are outside the model)
    std::string forceWell, forceGroup;     // while set, every well / group name item is this plain name
    std::string focusWell, focusGroup;     // the well / group the re-issued keywords address
    std::vector<int> focusKinds;           // the (few) keyword kinds re-issued for them, so that the same keyword recurs for the same name
    std::map<std::string, std::string> gpar;   // parent of every non-FIELD group as far as the generator knows
    std::set<std::string> gwells;              // groups a WELSPECS record put a well in

    std::string val(bool allowDefault, double scale = 1000.0) {
        if (allowDefault && r.coin(1, 3)) return "*";
        static const char* fr[] = { "", ".5", ".25", ".125" };
        return std::to_string(1 + r.below((uint64_t) scale)) + fr[r.below(4)];
    }
    std::string wellPat(bool allowQ = false) {
        if (!forceWell.empty()) return forceWell;
        if (allowQ && r.coin(1, 2)) return "?";
        if (!allowQ && r.coin(1, 140)) return r.coin() ? "P9" : "NOPE";       // usually unknown -> input error
        int c = r.range(0, 9);
        if (c == 0 && has('P')) return "P*";
        if (c == 1 && has('I')) return "I*";
        if (c == 2 && !wells.empty() && !(noStar && !msw.empty())) return "*";
        if (c == 3 && rich2 && !lists.empty() && r.coin(2, 3)) return r.coin(1, 8) ? std::string("*L*") : r.pick(lists);
        if (c == 3 && rich2 && r.coin(1, 40)) return "*L3";
        if (wells.empty()) return "P1";
        return r.pick(wells);
    }
    bool rich2 = true;      // emit the second-round keyword set
    bool has(char c) const { for (auto& w : wells) if (w[0] == c) return true; return false; }
    std::string prodPat(bool allowQ = false) {
        if (allowQ && r.coin(1, 2)) return "?";
        if (r.coin(1, 5) && has('P')) return "P*";
        std::vector<std::string> ps; for (auto& w : wells) if (w[0] == 'P') ps.push_back(w);
        return ps.empty() ? "P1" : r.pick(ps);
    }
    std::string injPat(bool allowQ = false) {
        if (allowQ && r.coin(1, 2)) return "?";
        if (r.coin(1, 5) && has('I')) return "I*";
        std::vector<std::string> ps; for (auto& w : wells) if (w[0] == 'I') ps.push_back(w);
        return ps.empty() ? "I1" : r.pick(ps);
    }
    std::string groupPat() {
        if (!forceGroup.empty()) return forceGroup;
        if (r.coin(1, 60)) return "GX";
        int c = r.range(0, 7);
        if (c == 0 && !groups.empty() && groups.size() > 1) return "G*";
        if (c == 1) return "FIELD";
        if (c == 2) return "*";
        if (groups.size() > 1 && r.coin(9, 10)) return groups[1 + r.below(groups.size() - 1)];
        return "G" + std::to_string(r.range(1, 4));
    }
    std::string status() { int c = r.range(0, 9); return c < 5 ? "OPEN" : c < 8 ? "SHUT" : c < 9 ? "STOP" : "AUTO"; }

    KwIR welspecs() {
        KwIR k{ "WELSPECS", {}, "" };
        int n = r.range(wells.empty() ? 2 : 1, 3);
        for (int i = 0; i < n; ++i) {
            bool prod = r.coin(2, 3);
            std::string name = std::string(prod ? "P" : "I") + std::to_string(r.range(1, 5));
            if (!has('P')) name = "P" + std::to_string(r.range(1, 2));
            else if (!has('I')) name = "I" + std::to_string(r.range(1, 2));
            std::string grp = r.coin(1, 90) ? "FIELD" : "G" + std::to_string(r.range(1, 4));
            const bool existing = heads.count(name) > 0;
            if (!existing) heads[name] = { r.range(1, 6), r.range(1, 6) };
            else if (rich2 && r.coin(1, connected.count(name) ? 4 : 40)) { heads[name] = { r.range(1, 6), r.range(1, 6) }; anyHeadChanged = true; }   // head change (refused while the well has no connections)
            std::string hi = std::to_string(heads[name].first), hj = std::to_string(heads[name].second);
            if (existing && rich2 && r.coin(1, 6)) { if (r.coin()) hi = "*"; else hj = "*"; }
            k.recs.push_back({ name, grp, hi, hj });
            if (std::find(wells.begin(), wells.end(), name) == wells.end()) wells.push_back(name);
            if (std::find(groups.begin(), groups.end(), grp) == groups.end()) groups.push_back(grp);
            gwells.insert(grp);
        }
        return k;
    }
    KwIR compdat(bool allowQ = false) {
        KwIR k{ "COMPDAT", {}, "" };
        struct NoStar { bool& f; NoStar(bool& x) : f(x) { f = true; } ~NoStar() { f = false; } } guard(noStar);
        int n = r.range(1, 3);
        for (int i = 0; i < n; ++i) {
            int k1 = r.range(1, 4), k2 = r.range(k1, 4);
            bool dflt = r.coin(1, 2) && !allowQ && !anyHeadChanged;      // defaulted I,J are rejected inside ACTIONX
            k.recs.push_back({ allowQ ? wellPat(true) : wellPat(), dflt ? "0" : std::to_string(r.range(1, 6)), dflt ? "0" : std::to_string(r.range(1, 6)),
                               std::to_string(k1), std::to_string(k2), r.coin(3, 4) ? "OPEN" : (r.coin(3, 4) ? "SHUT" : "AUTO") });
            if (!allowQ) connected.insert(k.recs.back()[0]);
            noteCols(k.recs.back()[0], std::atoi(k.recs.back()[1].c_str()), std::atoi(k.recs.back()[2].c_str()));
        }
        return k;
    }
    // columns a COMPDAT record may connect: exact for plain names, every well the pattern can reach otherwise
    void noteCols(const std::string& pat, int i, int j) {
        for (auto& w : wells) {
            const bool plain = std::find(wells.begin(), wells.end(), pat) != wells.end();
            bool hit = plain ? w == pat : true;
            if (!plain && pat == "P*") hit = w[0] == 'P';
            if (!plain && pat == "I*") hit = w[0] == 'I';
            if (!hit) continue;
            if (i == 0 || j == 0) { auto h = heads.count(w) ? heads[w] : std::make_pair(1, 1); cols[w].insert({ i == 0 ? h.first : i, j == 0 ? h.second : j }); }
            else cols[w].insert({ i, j });
        }
    }
    // COMPDAT that re-specifies every connection of one well as SHUT (its handler reports no "affected well")
    KwIR plug() {
        KwIR k{ "COMPDAT", {}, "" };
        std::vector<std::string> cand; for (auto& w : wells) if (w[0] == actionRole) cand.push_back(w);
        if (cand.empty() || r.coin(1, 4)) cand = wells;
        const std::string w = cand.empty() ? std::string("P1") : r.pick(cand);
        auto cs = cols[w];
        if (cs.empty()) cs.insert(heads.count(w) ? heads[w] : std::make_pair(1, 1));
        for (auto& c : cs) k.recs.push_back({ w, std::to_string(c.first), std::to_string(c.second), "1", "4", "SHUT" });
        return k;
    }
    KwIR compord() {
        static const std::vector<std::string> os = { "INPUT", "DEPTH", "TRACK", "INPUT", "DEPTH" };
        KwIR k{ "COMPORD", {}, "" };
        int n = r.range(1, 2);
        for (int i = 0; i < n; ++i) {
            int c = r.range(0, 6);
            std::string pat = c == 0 ? "*" : c == 1 ? "P*" : c == 2 ? "I*" : std::string(r.coin(2, 3) ? "P" : "I") + std::to_string(r.range(1, 5));
            if (c >= 5 && !wells.empty()) pat = r.pick(wells);
            k.recs.push_back({ pat, r.pick(os) });
        }
        return k;
    }
    KwIR wconprod(bool allowQ = false) {
        KwIR k{ "WCONPROD", {}, "" };
        int n = r.range(1, 2);
        for (int i = 0; i < n; ++i) {
            std::vector<std::string> f = { (rich2 && !allowQ && r.coin(1, 8)) ? wellPat() : prodPat(allowQ), status(), "", val(true), val(true), val(true), val(true), val(true), val(true, 300) };
            static const char* modes[] = { "ORAT", "WRAT", "GRAT", "LRAT", "RESV" };
            std::vector<std::string> ok = { "BHP", "GRUP" };
            for (int j = 0; j < 5; ++j) if (f[3 + j] != "*") ok.push_back(modes[j]);
            f[2] = r.coin(1, 50) ? modes[r.below(5)] : r.pick(ok);          // sometimes a mode without value -> error
            if (rich2 && r.coin(1, 10)) f[2] = "*";                          // CMODE defaulted: the old control mode stays
            k.recs.push_back(f);
        }
        return k;
    }
    KwIR wconinje(bool allowQ = false) {
        KwIR k{ "WCONINJE", {}, "" };
        std::vector<std::string> f = { (rich2 && !allowQ && r.coin(1, 8)) ? wellPat() : injPat(allowQ), r.coin(2, 3) ? "WATER" : (r.coin() ? "GAS" : "OIL"), status(), "", val(true), val(true), val(true, 600) };
        std::vector<std::string> ok = { "BHP", "GRUP" };
        if (f[4] != "*") ok.push_back("RATE");
        if (f[5] != "*") ok.push_back("RESV");
        f[3] = r.coin(1, 50) ? "RATE" : r.pick(ok);
        k.recs.push_back(f);
        return k;
    }
    KwIR welopen(bool allowQ = false) {
        KwIR k{ "WELOPEN", {}, "" };
        int n = r.range(1, 2);
        for (int i = 0; i < n; ++i) {
            if (r.coin(1, 2)) k.recs.push_back({ wellPat(allowQ), status() });
            else {
                std::string st = r.coin(1, 2) ? "SHUT" : (r.coin(4, 5) ? "OPEN" : "AUTO");
                k.recs.push_back({ wellPat(allowQ), st, std::to_string(r.range(0, 3)), std::to_string(r.range(0, 3)), std::to_string(r.range(0, 4)) });
                if (st == "SHUT" && r.coin(1, 3)) { k.recs.back()[2] = "0"; k.recs.back()[3] = "0"; k.recs.back()[4] = "0"; }   // all connections: end_report shuts the well
                else if (rich2 && r.coin(1, 3)) { k.recs.back()[2] = "0"; k.recs.back()[3] = "0"; if (r.coin()) k.recs.back()[4] = "0"; k.recs.back().push_back(std::to_string(r.range(0, 3))); k.recs.back().push_back(std::to_string(r.range(0, 4))); }
            }
        }
        return k;
    }
    KwIR weltarg(bool allowQ = false) {
        static const std::vector<std::string> modes = { "ORAT", "WRAT", "GRAT", "LRAT", "RESV", "BHP", "BHP" };
        static const std::vector<std::string> imodes = { "RESV", "BHP", "BHP" };
        if (r.coin(1, 40)) return KwIR{ "WELTARG", { { wellPat(allowQ), r.pick(modes), val(false) } }, "" };
        if (allowQ && r.coin(1, 3)) return KwIR{ "WELTARG", { { "?", r.pick(imodes), val(false) } }, "" };
        if (r.coin(3, 4)) return KwIR{ "WELTARG", { { prodPat(false), r.pick(modes), val(false) } }, "" };
        return KwIR{ "WELTARG", { { injPat(false), r.coin(1, 30) ? r.pick(modes) : r.pick(imodes), val(false) } }, "" };
    }
    KwIR wefac(bool allowQ = false) { return KwIR{ "WEFAC", { { wellPat(allowQ), std::string("0") + (r.coin() ? ".5" : ".75") } }, "" }; }
    KwIR gruptree() {
        KwIR k{ "GRUPTREE", {}, "" };
        int n = r.range(1, 2);
        for (int i = 0; i < n; ++i) {
            std::string c = r.coin(2, 3) ? "G" + std::to_string(r.range(1, 5)) : "N" + std::to_string(r.range(1, 3));
            std::string p = r.coin(1, 3) ? "FIELD" : (r.coin(1, 40) ? "G" + std::to_string(r.range(1, 4)) : "N" + std::to_string(r.range(1, 3)));
            if (c != p) {
                k.recs.push_back({ c, p });
                gpar[c] = p;
                for (auto& gname : { c, p }) if (std::find(groups.begin(), groups.end(), gname) == groups.end()) groups.push_back(gname);
            }
        }
        if (k.recs.empty()) k.recs.push_back({ "G1", "FIELD" });
        return k;
    }
    KwIR gefac() { return KwIR{ "GEFAC", { { groupPat(), std::string("0") + (r.coin() ? ".5" : ".25") } }, "" }; }
    KwIR gconprod() {
        static const std::vector<std::string> modes = { "NONE", "ORAT", "WRAT", "GRAT", "LRAT", "FLD" };
        return KwIR{ "GCONPROD", { { groupPat(), r.pick(modes), val(true), val(true), val(true), val(true), r.coin() ? "NONE" : "RATE" } }, "" };
    }
    KwIR wconhist() {
        static const std::vector<std::string> modes = { "ORAT", "WRAT", "GRAT", "LRAT", "RESV", "BHP", "ORAT", "RESV" };
        KwIR k{ "WCONHIST", {}, "" };
        std::string cm = r.coin(1, 40) ? std::string(r.coin() ? "*" : "GRUP") : r.pick(modes);
        k.recs.push_back({ r.coin(1, 6) ? wellPat() : prodPat(), status(), cm, val(false), val(false), val(false), r.coin() ? val(false, 300) : std::string("*") });
        return k;
    }
    KwIR wconinjh() {
        KwIR k{ "WCONINJH", {}, "" };
        k.recs.push_back({ r.coin(1, 6) ? wellPat() : injPat(), r.coin(2, 3) ? "WATER" : (r.coin() ? "GAS" : "OIL"), status(), val(true), r.coin() ? val(false, 500) : std::string("*"),
                           r.coin(2, 3) ? "RATE" : (r.coin(2, 3) ? "BHP" : "RESV") });
        return k;
    }
    KwIR whistctl() {
        static const std::vector<std::string> modes = { "NONE", "ORAT", "RESV", "LRAT", "BHP", "GRUP", "WRAT" };
        return KwIR{ "WHISTCTL", { { r.pick(modes) } }, "" };
    }
    KwIR wecon(bool allowQ = false) {
        static const std::vector<std::string> wo = { "NONE", "CON", "WELL", "+CON" };
        return KwIR{ "WECON", { { r.coin(1, 40) ? std::string("NOPE") : wellPat(allowQ), r.coin(1, 3) ? std::string("0") : val(false, 100), std::string("0") + (r.coin() ? ".5" : ".875"), r.pick(wo) } }, "" };
    }
    KwIR wtest(bool allowQ = false) {
        static const std::vector<std::string> rs = { "P", "PE", "E", "GDC", "-", "P" };
        return KwIR{ "WTEST", { { wellPat(allowQ), val(false, 30), r.pick(rs), std::to_string(r.range(0, 3)), r.coin() ? std::string("0") : val(false, 5) } }, "" };
    }
    KwIR wlist() {
        static const std::vector<std::string> acts = { "NEW", "NEW", "ADD", "ADD", "DEL", "MOV" };
        KwIR k{ "WLIST", {}, "" };
        int n = r.range(1, 2);
        for (int i = 0; i < n; ++i) {
            std::string name = "*L" + std::to_string(r.range(1, 2));
            std::string act = r.coin(1, 60) ? std::string("XXX") : r.pick(acts);
            const bool exists = std::find(lists.begin(), lists.end(), name) != lists.end();
            if (!exists && act != "NEW" && r.coin(9, 10)) act = "NEW";
            if (r.coin(1, 80)) name = "L9";                                   // no leading '*': error
            std::vector<std::string> f = { name, act };
            int nw = r.range(0, 3);
            for (int j = 0; j < nw; ++j) {
                int c = r.range(0, 11);
                if (c == 0 && has('P')) f.push_back("P*");
                else if (c == 1 && !lists.empty()) f.push_back(r.pick(lists));
                else if (c == 2 && r.coin(1, 6)) f.push_back("NOPE");           // unknown plain name: error
                else if (c == 3) f.push_back("X*");                            // pattern without match: ignored
                else if (!wells.empty()) f.push_back(r.pick(wells));
            }
            k.recs.push_back(f);
            if (act == "NEW" && name[0] == '*' && !exists) lists.push_back(name);
        }
        return k;
    }
    KwIR gconinje() {
        static const std::vector<std::string> modes = { "NONE", "RATE", "RESV", "REIN", "VREP", "FLD" };
        return KwIR{ "GCONINJE", { { groupPat(), r.coin(2, 3) ? "WATER" : (r.coin(3, 4) ? "GAS" : "OIL"), r.pick(modes), val(true), val(true), val(true, 2), val(true, 2), r.coin(2, 3) ? "YES" : "NO" } }, "" };
    }
    KwIR nextstep() { return KwIR{ "NEXTSTEP", { { val(false, 10), r.coin(1, 3) ? "YES" : "NO" } }, "" }; }
    // UDQ records: [action, quantity, deck text of the data items, normalised payload the model stores]
    KwIR udq() {
        KwIR k{ "UDQ", {}, "" };
        int n = r.range(1, 3);
        for (int i = 0; i < n; ++i) {
            const bool wellVar = r.coin(1, 3);
            std::string qn = std::string(wellVar ? "WU" : "FU") + std::string(1, "ABC"[r.below(3)]);
            int c = r.range(0, 9);
            if (c < 4) k.recs.push_back({ "ASSIGN", qn, std::to_string(r.range(1, 9)) + (r.coin() ? ".5" : ""), "" });
            else if (c < 8) {
                static const std::vector<std::string> fe = { "FOPR * 2", "FWPR + FOPR", "( FOPR - 1 ) * 3", "( FOPR + FWPR ) / 2" };
                static const std::vector<std::string> we = { "WOPR * 2", "WWPR + WOPR", "WOPR 'P1' * 2", "SUM ( WOPR ) + WWPR" };
                k.recs.push_back({ "DEFINE", qn, wellVar ? r.pick(we) : r.pick(fe), "?" });
            } else k.recs.push_back({ "UNITS", qn, (r.coin(1, 12) ? wellVar : !wellVar) ? "'SM3/DAY'" : "'BARSA'", "" });
        }
        for (auto& rec : k.recs) {
            if (rec[0] == "DEFINE") {
                std::vector<std::string> toks; std::istringstream is(rec[2]); std::string t; while (is >> t) toks.push_back(t);
                try { rec[3] = UDQDefine(UDQParams{}, rec[1], 0, KeywordLocation{}, toks).input_string(); } catch (...) { rec[3] = "?"; }
            } else if (rec[0] == "UNITS") rec[3] = rec[2].substr(1, rec[2].size() - 2);
        }
        return k;
    }
    KwIR complump(bool allowQ = false) {
        return KwIR{ "COMPLUMP", { { wellPat(allowQ), std::to_string(r.coin(2, 3) ? 0 : r.range(1, 6)), std::to_string(r.coin(2, 3) ? 0 : r.range(1, 6)), std::to_string(r.range(0, 3)), std::to_string(r.range(0, 4)),
                                     std::to_string(r.coin(1, 50) ? 0 : r.range(1, 3)) } }, "" };
    }
    KwIR wpimult(bool allowQ = false) {
        static const std::vector<std::string> fs = { "0.5", "2", "1.5", "1", "0.75" };
        KwIR k{ "WPIMULT", {}, "" };
        if (rich2 && !wells.empty() && forceWell.empty() && r.coin(1, allowQ ? 3 : 6)) {
            // two records with all connection items defaulted that select the same well: only the last one counts
            const std::string w = r.pick(wells);
            const std::string wide = r.coin(1, 3) ? w : (r.coin() ? std::string(1, w[0]) + "*" : std::string("*"));
            const std::string f1 = r.pick(fs), f2 = r.pick(fs);
            if (r.coin(3, 4)) { k.recs.push_back({ wide, f1, "*", "*", "*", "*", "*" }); k.recs.push_back({ w, f2, "*", "*", "*", "*", "*" }); }
            else { k.recs.push_back({ w, f1, "*", "*", "*", "*", "*" }); k.recs.push_back({ wide, f2, "*", "*", "*", "*", "*" }); }
            return k;
        }
        int n = r.range(1, 2);
        for (int i = 0; i < n; ++i) {
            std::vector<std::string> f = { wellPat(allowQ), r.pick(fs), "*", "*", "*", "*", "*" };
            if (r.coin()) for (int j = 2; j < 7; ++j) if (r.coin(1, 3)) f[j] = std::to_string(j < 5 ? r.range(0, 4) : r.range(0, 3));
            k.recs.push_back(f);
        }
        return k;
    }
    // ---- fourth round -------------------------------------------------------------------------------------
    // GRUPTREE that moves an EXISTING group to another existing parent (no group is created: the old parent's Group object
    // is the one the earlier snapshots share unless another keyword of this step has replaced it already)
    KwIR reparent() {
        std::vector<std::string> cs; for (auto& g : groups) if (g != "FIELD") cs.push_back(g);
        for (int t = 0; t < 8 && !cs.empty(); ++t) {
            const std::string c = r.pick(cs);
            const std::string cur = gpar.count(c) ? gpar[c] : std::string("FIELD");
            std::vector<std::string> ps;
            for (auto& g : groups) {
                if (g == c || g == cur || gwells.count(g)) continue;
                bool below = false; std::string x = g;
                for (int dd = 0; dd < 12 && x != "FIELD"; ++dd) { x = gpar.count(x) ? gpar[x] : std::string("FIELD"); if (x == c) { below = true; break; } }
                if (!below) ps.push_back(g);
            }
            if (ps.empty()) continue;
            const std::string p = r.pick(ps);
            gpar[c] = p;
            return KwIR{ "GRUPTREE", { { c, p } }, "" };
        }
        return gruptree();
    }
    // node groups without wells, so that later re-parenting has somewhere to go
    KwIR nodes() {
        KwIR k{ "GRUPTREE", {}, "" };
        int n = r.range(1, 2);
        for (int i = 1; i <= n; ++i) {
            const std::string c = "N" + std::to_string(i), p = (i == 2 && r.coin(1, 3)) ? std::string("N1") : std::string("FIELD");
            k.recs.push_back({ c, p }); gpar[c] = p;
            if (std::find(groups.begin(), groups.end(), c) == groups.end()) groups.push_back(c);
        }
        return k;
    }
    // a state-changing keyword for the focus well / group (the same plain name at every later step it is emitted)
    KwIR reissue() {
        struct Force { Gen& g; Force(Gen& x) : g(x) { g.forceWell = g.focusWell; g.forceGroup = g.focusGroup; } ~Force() { g.forceWell.clear(); g.forceGroup.clear(); } } guard(*this);
        if (focusKinds.empty()) for (int i = 0; i < 3; ++i) focusKinds.push_back(r.range(0, extras ? 9 : 8));
        const int c = r.pick(focusKinds);
        switch (c) {
        case 0: return wecon();
        case 1: return wtest();
        case 2: return gconprod();
        case 3: return gconinje();
        case 4: return wpimult();
        case 5: return complump();
        case 6: { static const std::vector<std::string> acts = { "ADD", "DEL", "NEW", "MOV" };
                  const bool exists = std::find(lists.begin(), lists.end(), "*L1") != lists.end();
                  if (!exists) lists.push_back("*L1");
                  return KwIR{ "WLIST", { { "*L1", exists ? r.pick(acts) : std::string("NEW"), focusWell } }, "" }; }
        case 7: return gefac();
        case 8: return wefac();
        default: return KwIR{ "WELPI", {}, "WELPI\n '" + focusWell + "' " + std::to_string(r.range(5, 40)) + " /\n/\n" };
        }
    }
    // a multisegment well: WELSPECS + COMPDAT (one column, layers 1..n) + WELSEGS (main branch: one segment per layer; 0-2 stub
    // segments on branches of their own) + COMPSEGS (every connection, in sequence)
    void mswCreate(std::vector<KwIR>& out) {
        static const std::vector<std::string> ds = { "0.2", "0.15", "0.25" }, rs = { "0.0001", "0.00015" }, as = { "0.03", "0.02", "0.05" };
        Msw w{ "M" + std::to_string(msw.size() + 1), r.range(1, 6), r.range(1, 6), r.range(2, 4), 0, {} };
        const std::string grp = "G" + std::to_string(r.range(1, 4)), si = std::to_string(w.i), sj = std::to_string(w.j);
        out.push_back(KwIR{ "WELSPECS", { { w.name, grp, si, sj } }, "" });
        if (std::find(groups.begin(), groups.end(), grp) == groups.end()) groups.push_back(grp);
        gwells.insert(grp);
        out.push_back(KwIR{ "COMPDAT", { { w.name, si, sj, "1", std::to_string(w.nconn), "OPEN" } }, "" });
        KwIR ws{ "WELSEGS", { { w.name } }, "" };
        for (int sg = 2; sg <= w.nconn + 1; ++sg)
            ws.recs.push_back({ std::to_string(sg), "1", std::to_string(sg - 1), std::to_string(5 + 10 * (sg - 1)), std::to_string(2000 + 10 * (sg - 1)), r.pick(ds), r.pick(rs), r.pick(as) });
        const int nstub = r.range(0, 2);
        for (int b = 0; b < nstub; ++b) {
            const int outlet = r.range(2, w.nconn + 1);
            ws.recs.push_back({ std::to_string(w.nconn + 2 + b), std::to_string(2 + b), std::to_string(outlet), std::to_string(5 + 10 * (outlet - 1)) + ".5", std::to_string(2000 + 10 * (outlet - 1)), r.pick(ds), r.pick(rs), r.pick(as) });
        }
        w.nseg = w.nconn + 1 + nstub;
        w.focus.push_back(r.range(2, w.nseg));
        if (r.coin()) w.focus.push_back(r.range(2, w.nseg));
        out.push_back(ws);
        KwIR cs{ "COMPSEGS", { { w.name } }, "" };
        for (int kk = 1; kk <= w.nconn; ++kk) cs.recs.push_back({ si, sj, std::to_string(kk), "1", std::to_string(5 + 10 * (kk - 1)), std::to_string(5 + 10 * kk) });
        out.push_back(cs);
        msw.push_back(w);
    }
    // WSEGVALV / WSEGSICD / WSEGAICD for (mostly) the focus segments of a multisegment well: the same segment is addressed at
    // several report steps
    KwIR segKw() {
        static const std::vector<std::string> cvs = { "0.85", "0.7", "0.5" }, acs = { "0.005", "0.0001", "0.002", "0.01" }, pds = { "0.1", "0.3" }, prs = { "0.0002", "0.00005" },
                                              pas = { "0.01", "0.04" }, lens = { "12", "5", "-0.7", "0.25" }, strs = { "0.002", "0.0005", "0.01" };
        const Msw& w = r.pick(msw);
        auto seg = [&] { return std::to_string(r.coin(7, 8) ? r.pick(w.focus) : r.range(2, w.nseg + (r.coin(1, 12) ? 1 : 0))); };     // rarely a segment the well does not have
        auto st = [&] { return std::string(r.coin(3, 4) ? "OPEN" : "SHUT"); };
        const int c = r.range(0, 3);
        if (c <= 1) {
            KwIR k{ "WSEGVALV", {}, "" };
            const int n = r.coin(1, 4) ? 2 : 1;
            for (int i = 0; i < n; ++i)
                k.recs.push_back({ w.name, seg(), r.pick(cvs), r.pick(acs), r.coin(1, 4) ? r.pick(pds) : std::string("*"), r.coin(1, 4) ? r.pick(prs) : std::string("*"),
                                   r.coin(1, 4) ? r.pick(pas) : std::string("*"), st(), r.coin(1, 4) ? std::string("0.02") : std::string("*") });
            return k;
        }
        return KwIR{ c == 2 ? "WSEGSICD" : "WSEGAICD", { { w.name, seg(), r.pick(strs), r.pick(lens), st() } }, "" };
    }
    // action bodies, property mode only (the model has no WELSPECS / WLIST '?' inside action bodies): keywords whose result
    // records the ORDER in which '?' is expanded — WELSPECS '?' <group> (order of Group::wells()) and WLIST <list> NEW/ADD '?'
    // (order of the list); it must be the WELSPECS definition order of the wells, not the alphabetical order of the match set
    KwIR orderProbe() {
        if (r.coin(1, 3)) { const bool exists = std::find(lists.begin(), lists.end(), "*L2") != lists.end(); if (!exists) lists.push_back("*L2");
                            return KwIR{ "WLIST", { { "*L2", exists && r.coin() ? "ADD" : "NEW", "?" } }, "" }; }
        const std::string grp = "G" + std::to_string(r.range(1, 4));
        if (std::find(groups.begin(), groups.end(), grp) == groups.end()) groups.push_back(grp);
        gwells.insert(grp);
        return KwIR{ "WELSPECS", { { "?", grp, "*", "*" } }, "" };
    }
    KwIR extra() {
        static const std::vector<std::pair<std::string, std::string>> xs = {
            { "RPTRST", "RPTRST\n BASIC=2 /\n" }, { "RPTSCHED", "RPTSCHED\n PRES SGAS /\n" }, { "TUNING", "TUNING\n 1 10 /\n/\n/\n" },
            { "NUPCOL", "NUPCOL\n 4 /\n" }, { "DRSDT", "DRSDT\n 0.01 /\n" }, { "RPTRST", "RPTRST\n BASIC=1 /\n" } };
        auto& x = r.pick(xs);
        return KwIR{ x.first, {}, x.second };
    }
    // keywords outside the model, used by the property mode only (they act on members of
    // ScheduleState the observation record does not contain)
    KwIR rich() {
        std::string w = wells.empty() ? "P1" : r.pick(wells);
        std::vector<std::pair<std::string, std::string>> xs = {
            { "UDQ", "UDQ\n ASSIGN FUX " + std::to_string(r.range(1, 9)) + " /\n DEFINE WUY WOPR '" + w + "' * 2 /\n/\n" },
            { "WLIST", "WLIST\n '*L" + std::to_string(r.range(1, 2)) + "' " + (r.coin() ? "NEW" : "ADD") + " '" + w + "' /\n/\n" },
            { "WTEST", "WTEST\n '" + w + "' 10 P /\n/\n" },
            { "GCONINJE", "GCONINJE\n 'G" + std::to_string(r.range(1, 3)) + "' 'WATER' 'RATE' " + std::to_string(r.range(100, 900)) + " /\n/\n" },
            { "WHISTCTL", std::string("WHISTCTL\n ") + (r.coin() ? "ORAT" : "RESV") + " /\n" },
            { "WCONHIST", "WCONHIST\n '" + w + "' 'OPEN' 'ORAT' " + std::to_string(r.range(10, 900)) + " 10 100 /\n/\n" },
            { "WPIMULT", "WPIMULT\n '" + w + "' 1.5 /\n/\n" },
            { "COMPLUMP", "COMPLUMP\n '" + w + "' 0 0 1 4 " + std::to_string(r.range(1, 3)) + " /\n/\n" },
            { "WECON", "WECON\n '" + w + "' 1* 200 0.8 /\n/\n" },
            { "GLIFTOPT", "GLIFTOPT\n 'FIELD' 1000 /\n/\n" },
            { "WGRUPCON", "WGRUPCON\n '" + w + "' " + (r.coin() ? "YES" : "NO") + " /\n/\n" },
            { "WRFT", "WRFT\n '" + w + "' /\n/\n" },
            { "VAPPARS", "VAPPARS\n 2 0.1 /\n" },
            { "WELPI", "WPIMULT\n '" + w + "' 0.5 0 0 " + std::to_string(r.range(1, 4)) + " /\n/\n" },
            { "MESSAGES", "MESSAGES\n 100 /\n" },
            { "WINJTEMP", "WINJTEMP\n '" + w + "' 1* 40 /\n/\n" },
        };
        auto& x = r.pick(xs);
        return KwIR{ x.first, {}, x.second };
    }
    KwIR dates() {
        KwIR k{ "DATES", {}, "" };
        int n = r.coin(1, 4) ? 2 : 1;
        for (int i = 0; i < n; ++i) {
            if (r.coin(1, 80)) {                      // backwards date -> constructor error
                k.recs.push_back({ "2014", "12", "1" });
                continue;
            }
            m += r.range(1, 3); if (m > 12) { m -= 12; ++y; }
            d = r.range(1, 28);
            if (r.coin(1, 6)) k.recs.push_back({ std::to_string(y), std::to_string(m), std::to_string(d), std::to_string(r.range(0, 23)), std::to_string(r.range(0, 59)), std::to_string(r.range(0, 59)) });
            else k.recs.push_back({ std::to_string(y), std::to_string(m), std::to_string(d) });
        }
        return k;
    }
    KwIR tstep() {
        KwIR k{ "TSTEP", {}, "" };
        int n = r.coin(1, 3) ? r.range(2, 3) : 1;
        for (int i = 0; i < n; ++i) {
            int den = 1 << r.range(0, 3);
            long num = r.range(1, 40) * (r.coin(1, 2) ? den : 1);
            if (r.coin(1, 90)) k.recs.push_back({ "-" + std::to_string(num) + "/" + std::to_string(den) });
            else k.recs.push_back({ std::to_string(num) + "/" + std::to_string(den) });
        }
        // after a TSTEP the calendar position is unknown to the generator: move DATES far ahead
        y += 1;
        return k;
    }
    char actionRole = 'P';
    KwIR ordinary(bool inAction = false) {
        for (;;) {
            if (!inAction && orders && rich2 && r.coin(1, 11)) return compord();
            if (rich2 && r.coin(2, 5)) {
                int c = r.range(0, inAction ? 8 : 13);
                switch (c) {
                case 0: return complump(inAction);
                case 1: return wpimult(inAction);
                case 2: return wecon(inAction);
                case 3: return wtest(inAction);
                case 4: return wlist();
                case 5: return gconinje();
                case 6: return nextstep();
                case 7: return udq();
                case 8: if (inAction) return wpimult(true); return wconhist();
                case 9: return wconinjh();
                case 10: return whistctl();
                case 11: return wconhist();
                case 12: return wlist();
                default: return wpimult();
                }
            }
            int c = r.range(0, inAction ? 8 : 13);
            switch (c) {
            case 0: return welopen(inAction);
            case 1: return wconprod(inAction && actionRole == 'P');
            case 2: return weltarg(inAction);
            case 3: return wefac(inAction);
            case 4: return gconprod();
            case 5: return wconinje(inAction && actionRole == 'I');
            case 6: return welopen(inAction);
            case 7: if (inAction) { if (r.coin(1, 3)) return compdat(true); continue; } return compdat();
            case 8: if (inAction) { return extras ? orderProbe() : gruptree(); } return welspecs();
            case 9: return gruptree();
            case 10: return gefac();
            case 11: return compdat();
            case 12: if (extras && r.coin()) return rich(); return extra();
            default: return welspecs();
            }
        }
    }
    void actionBlock(std::vector<KwIR>& out) {
        actionRole = r.coin(2, 3) ? 'P' : 'I';
        std::string name = std::string("ACT") + actionRole + std::to_string(r.range(1, 2));
        out.push_back(KwIR{ "ACTIONX", { { name } }, "" });
        int n = r.range(1, 3);
        if (rich2 && !wells.empty() && r.coin(1, 4)) {
            // a body of connection keywords only (COMPDAT / COMPLUMP / WPIMULT: no handler reports an affected well), which
            // leaves every connection of one well SHUT: the end-of-step shut-in is then the action's only effect on the well status
            if (r.coin(1, 3)) out.push_back(r.coin() ? complump(false) : wpimult(false));
            out.push_back(plug());
            if (r.coin(1, 3)) out.push_back(r.coin() ? complump(false) : wpimult(false));
            n = 0;
        }
        for (int i = 0; i < n; ++i) {
            if (extras && r.coin(1, 5)) {
                const std::string w = wells.empty() ? "P1" : r.pick(wells);
                static const std::vector<std::string> tm = { "ORAT", "WRAT", "LRAT", "BHP", "RESV" };
                if (r.coin(2, 3)) out.push_back(KwIR{ "WTMULT", {}, "WTMULT\n '" + w + "' " + r.pick(tm) + " " + (r.coin() ? "0.5" : "1.25") + " /\n/\n" });
                else out.push_back(KwIR{ "WELPI", {}, "WELPI\n '" + w + "' " + std::to_string(r.range(5, 40)) + " /\n/\n" });
                continue;
            }
            if (extras && rich2 && r.coin(1, 5)) { out.push_back(orderProbe()); continue; }
            out.push_back(ordinary(true));
        }
        out.push_back(KwIR{ "ENDACTIO", {}, "" });
        if (std::find(actionNames.begin(), actionNames.end(), name) == actionNames.end()) actionNames.push_back(name);
    }
    // keywords of one report step (without the closing time keyword)
    void stepBody(std::vector<KwIR>& out, bool first) {
        if (first) {
            const int ordPos = (orders && rich2 && r.coin(3, 5)) ? r.range(0, 3) : -1;    // block.get("COMPORD") finds it wherever it stands in the block
            if (ordPos == 0) out.push_back(compord());
            out.push_back(welspecs());
            if (ordPos == 1) out.push_back(compord());
            if (r.coin(4, 5)) out.push_back(welspecs());
            if (ordPos == 2) out.push_back(compord());
            out.push_back(compdat());
            out.push_back(compdat());
            if (ordPos == 3) out.push_back(compord());
            if (r.coin(4, 5)) out.push_back(wconprod());
            if (r.coin(2, 3)) out.push_back(wconinje());
            if (rich2 && r.coin()) out.push_back(nodes());
            if (rich2 && mswOn && r.coin()) mswCreate(out);
            if (rich2 && mswOn && !msw.empty() && r.coin(1, 3)) out.push_back(segKw());
            if (!wells.empty()) focusWell = r.pick(wells);
            if (groups.size() > 1) focusGroup = groups[1 + r.below(groups.size() - 1)];
        }
        if (!first && rich2) {
            // the same group re-parented / the same well, group, segment addressed again at a later report step; the re-parenting
            // comes first so that no keyword of this step has replaced the old parent's object yet
            if (r.coin(1, 3)) out.push_back(reparent());
            if (!focusWell.empty() && !focusGroup.empty() && r.coin(2, 3)) { out.push_back(reissue()); if (r.coin(1, 3)) out.push_back(reissue()); }
            if (mswOn && msw.empty() && r.coin(1, 12)) mswCreate(out);
            if (mswOn && !msw.empty() && r.coin(1, 2)) out.push_back(segKw());
        }
        int n = r.range(0, 4);
        for (int i = 0; i < n; ++i) {
            if (actions && r.coin(1, 4)) actionBlock(out);
            else if (!first && orders && rich2 && r.coin(1, 8)) {
                // wells created in a later report step under that step's own COMPORD (before or after the WELSPECS)
                const bool before = r.coin();
                if (before) out.push_back(compord());
                out.push_back(welspecs());
                if (!before) out.push_back(compord());
                if (r.coin(2, 3)) out.push_back(compdat());
            }
            else out.push_back(ordinary());
        }
    }
    // C04 modes: `applyAction` runs with a ScheduleGrid that knows only the cells some COMPDAT of the deck (or of an ACTIONX
    // body: `prefetchPossibleFutureConnections`) has looked up while the deck was loaded; a later-step COMPDAT with defaulted
    // I,J that reaches a further well only because an action changed a well list throws there (design.d/C04.md).  The
    // never-applied action ZPRE names every cell of the generator grid, so that every cell is known at run time.
    bool prefetchAll = false;
    void prefetchAction(std::vector<KwIR>& out) {
        out.push_back(KwIR{ "ACTIONX", { { "ZPRE" } }, "" });
        KwIR k{ "COMPDAT", {}, "" };
        for (int i = 1; i <= 6; ++i) for (int j = 1; j <= 6; ++j) k.recs.push_back({ "ZPRE", std::to_string(i), std::to_string(j), "1", "4", "SHUT" });
        out.push_back(k);
        out.push_back(KwIR{ "ENDACTIO", {}, "" });
    }
    std::vector<KwIR> schedule(int nsteps) {
        std::vector<KwIR> out;
        if (prefetchAll) prefetchAction(out);
        for (int s = 0; s < nsteps; ++s) {
            stepBody(out, s == 0);
            out.push_back(r.coin(1, 2) ? dates() : tstep());
        }
        if (r.coin(1, 3)) stepBody(out, false);     // trailing keywords after the last time keyword
        return out;
    }
};

// ---------------------------------------------------------------------------------------------
// real code

struct Real {
    std::shared_ptr<Deck> deck;
    std::unique_ptr<EclipseState> es;
    std::unique_ptr<Schedule> sched;
    bool ok = false;
};

Deck parseText(const std::string& text) {
    Parser parser;
    ParseContext pc;
    ErrorGuard eg;
    auto d = parser.parseString(text, pc, eg);
    eg.clear();
    return d;
}

// Build EclipseState + Schedule from a Deck; any exception = "err" (errors are canonicalised by class only).
Real build(std::shared_ptr<Deck> deck, const EclipseState* shared_es = nullptr) {
    Real r; r.deck = deck;
    try {
        if (!shared_es) { r.es = std::make_unique<EclipseState>(*deck); shared_es = r.es.get(); }
        ParseContext pc;
        ErrorGuard eg;
        auto python = std::make_shared<Python>();
        r.sched = std::make_unique<Schedule>(*deck, *shared_es, pc, eg, python);
        eg.clear();
        r.ok = true;
    } catch (const std::exception& e) {
        if (std::getenv("SCHED_DEBUG")) std::cerr << "build threw: " << typeid(e).name() << " " << std::string(e.what()).substr(0, 300) << "\n";
        r.ok = false;
    } catch (...) {
        r.ok = false;
    }
    return r;
}

std::string uv(const UDAValue& v) { return v.is<double>() ? vh::hexF64(v.get<double>()) : std::string("-"); }

const char* workoverName(WellEconProductionLimits::EconWorkover w) {
    using W = WellEconProductionLimits::EconWorkover;
    switch (w) { case W::NONE: return "NONE"; case W::CON: return "CON"; case W::CONP: return "+CON"; case W::WELL: return "WELL"; case W::PLUG: return "PLUG"; default: return "?"; }
}

// candidate well-list names the generator uses (WListManager has no iteration interface)
const std::vector<std::string> LISTNAMES = { "*L1", "*L2", "*L3", "*M1" };

// `moved`: wells whose head a later WELSPECS changed (correspondence runs: their connection sequence is outside the model and
// printed sorted by cell, like that of DEPTH-ordered wells with more than 16 connections, where std::sort is not the stable
// insertion the model uses); nullptr (property modes, real code vs real code): always the well's own sequence
std::string dumpState(const Schedule& sched, size_t k, const std::set<std::string>* moved = nullptr) {
    std::vector<std::string> parts;
    const auto& st = sched[k];
    for (const auto& wn : sched.wellNames(k)) {
        const auto& w = sched.getWell(wn, k);
        std::ostringstream o;
        o << "W:" << wn << "," << w.groupName() << "," << static_cast<int>(w.getStatus()) << "," << (w.isProducer() ? "P" : "I") << "," << (w.predictionMode() ? 1 : 0)
          << "," << (w.getHeadI() + 1) << "." << (w.getHeadJ() + 1) << ",";
        {
            const auto& p = w.getProductionProperties();
            o << "P(" << static_cast<int>(p.controlMode) << "," << p.productionControls() << "," << (p.predictionMode ? 1 : 0) << "," << uv(p.OilRate) << "," << uv(p.WaterRate) << "," << uv(p.GasRate)
              << "," << uv(p.LiquidRate) << "," << uv(p.ResVRate) << "," << uv(p.BHPTarget) << "," << vh::hexF64(p.bhp_hist_limit) << "," << (p.bhp_hist_limit_defaulted ? 1 : 0) << ","
              << vh::hexF64(p.BHPH) << "," << static_cast<int>(p.whistctl_cmode) << "),";
        }
        {
            const auto& i = w.getInjectionProperties();
            o << "I(" << InjectorType2String(i.injectorType) << "," << static_cast<int>(i.controlMode) << "," << i.injectionControls << "," << (i.predictionMode ? 1 : 0) << "," << uv(i.surfaceInjectionRate)
              << "," << uv(i.reservoirInjectionRate) << "," << uv(i.BHPTarget) << "," << vh::hexF64(i.bhp_hist_limit) << "," << vh::hexF64(i.BHPH) << "),";
        }
        o << vh::hexF64(w.getEfficiencyFactor()) << ",";
        {
            const auto& e = w.getEconLimits();
            o << "E(" << vh::hexF64(e.minOilRate()) << "," << vh::hexF64(e.maxWaterCut()) << "," << workoverName(e.workover()) << "),";
        }
        o << Connection::Order2String(w.getConnections().ordering()) << ",";
        std::vector<std::pair<std::array<int, 5>, std::string>> cs;
        for (const auto& c : w.getConnections()) cs.push_back({ { c.getI(), c.getJ(), c.getK(), static_cast<int>(c.state()), c.complnum() }, vh::hexF64(c.wpimult()) });
        const bool seq = !moved || (!moved->count(wn) && !(w.getConnections().ordering() == Connection::Order::DEPTH && cs.size() > 16));
        if (!seq) std::sort(cs.begin(), cs.end());
        for (size_t i = 0; i < cs.size(); ++i) o << (i ? "/" : "") << cs[i].first[0] << "." << cs[i].first[1] << "." << cs[i].first[2] << "." << cs[i].first[3] << "." << cs[i].first[4] << "." << cs[i].second;
        parts.push_back(o.str());
    }
    for (const auto& gn : sched.groupNames(k)) {
        const auto& g = sched.getGroup(gn, k);
        const auto& pp = g.productionProperties();
        std::ostringstream o;
        o << "G:" << gn << "," << g.parent() << "," << vh::hexF64(g.getGroupEfficiencyFactor()) << "," << static_cast<int>(pp.cmode) << "," << (pp.production_controls & 15) << ","
          << uv(pp.oil_target) << "," << uv(pp.water_target) << "," << uv(pp.gas_target) << "," << uv(pp.liquid_target) << ",[";
        bool f = true; for (auto& c : g.groups()) { o << (f ? "" : "/") << c; f = false; }
        o << "],[";
        f = true; for (auto& c : g.wells()) { o << (f ? "" : "/") << c; f = false; }
        o << "],J(";
        f = true;
        for (const auto& ph : { std::make_pair(Phase::WATER, "WATER"), std::make_pair(Phase::GAS, "GAS"), std::make_pair(Phase::OIL, "OIL") }) {
            if (!g.hasInjectionControl(ph.first)) continue;
            const auto& ip = g.injectionProperties(ph.first);
            o << (f ? "" : "/") << ph.second << ":" << Group::InjectionCMode2String(ip.cmode) << ":" << ip.injection_controls << ":" << uv(ip.surface_max_rate) << ":" << uv(ip.resv_max_rate) << ":"
              << uv(ip.target_reinj_fraction) << ":" << uv(ip.target_void_fraction) << ":" << (ip.available_group_control ? 1 : 0);
            f = false;
        }
        o << ")";
        parts.push_back(o.str());
    }
    {
        std::ostringstream o; o << "A:";
        bool f = true;
        for (const auto& a : st.actions()) {
            o << (f ? "" : "/") << a.name() << "(";
            bool g = true; for (const auto& kw : a) { o << (g ? "" : "/") << kw.name(); g = false; }
            o << ")"; f = false;
        }
        parts.push_back(o.str());
    }
    {
        std::ostringstream o; o << "M:";
        bool f = true;
        for (const auto& wn : sched.wellNames(k))
            if (st.wellgroup_events().has(wn) && st.wellgroup_events().hasEvent(wn, ScheduleEvents::ACTIONX_WELL_EVENT)) { o << (f ? "" : "/") << wn; f = false; }
        parts.push_back(o.str());
    }
    {
        std::ostringstream o; o << "L:";
        bool f = true;
        const auto& wlm = st.wlist_manager();
        auto names = LISTNAMES; std::sort(names.begin(), names.end());
        for (const auto& ln : names) {
            if (!wlm.hasList(ln)) continue;
            o << (f ? "" : "/") << ln << "(";
            bool g = true; for (const auto& w : wlm.getList(ln).wells()) { o << (g ? "" : "/") << w; g = false; }
            o << ")"; f = false;
        }
        parts.push_back(o.str());
    }
    {
        std::ostringstream o; o << "T:";
        bool f = true;
        auto wn = sched.wellNames(k); std::sort(wn.begin(), wn.end());
        const auto& wt = st.wtest_config();
        for (const auto& w : wn) {
            if (!wt.has(w)) continue;
            const auto& t = wt.get(w);
            o << (f ? "" : "/") << w << ":" << t.reasons << ":" << vh::hexF64(t.test_interval) << ":" << t.num_test << ":" << vh::hexF64(t.startup_time) << ":" << t.begin_report_step;
            f = false;
        }
        parts.push_back(o.str());
    }
    {
        std::ostringstream o; o << "U:";
        bool f = true;
        const auto& udq = st.udq();
        for (const auto& in : udq.input()) {
            const std::string& q = in.keyword();
            o << (f ? "" : "/") << q << ":" << (in.index.action == UDQAction::DEFINE ? 1 : 0) << ":" << in.index.insert_index << ":" << in.index.typed_insert_index << ":"
              << [&]() -> std::string { try { return hexOfString(udq.define(q).input_string()); } catch (...) { return "-"; } }() << ":" << (udq.has_unit(q) ? hexOfString(udq.unit(q)) : std::string("-"));
            f = false;
        }
        parts.push_back(o.str());
    }
    {
        std::ostringstream o; o << "N:";
        if (st.next_tstep.has_value()) o << vh::hexF64(st.next_tstep->value()) << ":" << (st.next_tstep->every_report() ? 1 : 0);
        else o << "-";
        parts.push_back(o.str());
    }
    parts.push_back("H:" + std::to_string(static_cast<int>(st.whistctl())));
    {
        std::ostringstream o; o << "X:";
        bool f = true;
        for (const auto& wn : sched.wellNames(k))
            if (st.wellgroup_events().has(wn) && st.wellgroup_events().hasEvent(wn, ScheduleEvents::WELL_STATUS_CHANGE)) { o << (f ? "" : "/") << wn; f = false; }
        parts.push_back(o.str());
    }
    {
        // multisegment wells: the segment set (by segment number) with branch, outlet, type; diameter / roughness / cross-section
        // area of every segment but the top one; the valve parameters (Cv, Ac, status, pipe diameter / roughness / area, max Ac)
        // resp. the device length and status of a spiral / autonomous ICD
        std::ostringstream o; o << "S:";
        bool f = true;
        for (const auto& wn : sched.wellNames(k)) {
            const auto& w = sched.getWell(wn, k);
            if (!w.isMultiSegment()) continue;
            std::vector<std::pair<int, std::string>> segs;
            for (const auto& sg : w.getSegments()) {
                std::ostringstream q2;
                q2 << sg.segmentNumber() << "." << sg.branchNumber() << "." << sg.outletSegment() << ".";
                const auto ty = sg.segmentType();
                q2 << (ty == Segment::SegmentType::REGULAR ? "R" : ty == Segment::SegmentType::VALVE ? "V" : ty == Segment::SegmentType::SICD ? "S" : "A");
                if (sg.segmentNumber() > 1) q2 << "." << vh::hexF64(sg.internalDiameter()) << "." << vh::hexF64(sg.roughness()) << "." << vh::hexF64(sg.crossArea());
                if (ty == Segment::SegmentType::VALVE) {
                    const auto& v = sg.valve();
                    q2 << "." << vh::hexF64(v.conFlowCoefficient()) << "." << vh::hexF64(v.conCrossArea()) << "." << (v.status() == ICDStatus::OPEN ? "OPEN" : "SHUT") << "." << vh::hexF64(v.pipeDiameter())
                       << "." << vh::hexF64(v.pipeRoughness()) << "." << vh::hexF64(v.pipeCrossArea()) << "." << vh::hexF64(v.conMaxCrossArea());
                } else if (ty == Segment::SegmentType::SICD) {
                    q2 << "." << vh::hexF64(sg.spiralICD().length()) << "." << (sg.spiralICD().status() == ICDStatus::OPEN ? "OPEN" : "SHUT");
                } else if (ty == Segment::SegmentType::AICD) {
                    q2 << "." << vh::hexF64(sg.autoICD().length()) << "." << (sg.autoICD().status() == ICDStatus::OPEN ? "OPEN" : "SHUT");
                }
                segs.push_back({ sg.segmentNumber(), q2.str() });
            }
            std::sort(segs.begin(), segs.end());
            o << (f ? "" : "/") << wn << "(";
            for (size_t i = 0; i < segs.size(); ++i) o << (i ? "+" : "") << segs[i].second;
            o << ")"; f = false;
        }
        parts.push_back(o.str());
    }
    std::string s;
    for (size_t i = 0; i < parts.size(); ++i) s += (i ? ";" : "") + parts[i];
    return s;
}

// property modes (real code vs real code): everything else a later keyword could overwrite in an object the snapshots share —
// every remaining number of every segment and device, the segment each connection is attached to, the group tree walked from
// FIELD with the wells below each node
std::string dumpExtra(const Schedule& sched, size_t k) {
    std::ostringstream o;
    auto h = [](double x) { return vh::hexF64(x); };
    for (const auto& wn : sched.wellNames(k)) {
        const auto& w = sched.getWell(wn, k);
        if (!w.isMultiSegment()) continue;
        o << "MS:" << wn << "{";
        for (const auto& sg : w.getSegments()) {
            o << sg.segmentNumber() << ":" << h(sg.totalLength()) << "," << h(sg.depth()) << "," << h(sg.volume()) << "," << h(sg.perfLength()) << "," << h(sg.node_X()) << "," << h(sg.node_Y()) << ",[";
            for (int in : sg.inletSegments()) o << in << " ";
            o << "]";
            const auto ty = sg.segmentType();
            if (ty == Segment::SegmentType::VALVE) o << ",V" << h(sg.valve().pipeAdditionalLength());
            if (ty == Segment::SegmentType::SICD || ty == Segment::SegmentType::AICD) {
                const SICD& d = ty == Segment::SegmentType::SICD ? sg.spiralICD() : static_cast<const SICD&>(sg.autoICD());
                o << ",D" << h(d.strength()) << "," << h(d.densityCalibration()) << "," << h(d.viscosityCalibration()) << "," << h(d.criticalValue()) << "," << h(d.widthTransitionRegion()) << ","
                  << h(d.maxViscosityRatio()) << "," << d.methodFlowScaling() << "," << (d.maxAbsoluteRate().has_value() ? h(*d.maxAbsoluteRate()) : std::string("-")) << "," << h(d.scalingFactor());
                if (ty == Segment::SegmentType::AICD) o << "," << h(sg.autoICD().flowRateExponent()) << "," << h(sg.autoICD().viscExponent());
            }
            o << ";";
        }
        o << "}C[";
        for (const auto& c : w.getConnections()) o << c.getI() << "." << c.getJ() << "." << c.getK() << "=" << (c.attachedToSegment() ? c.segment() : 0) << " ";
        o << "]";
    }
    // the tree as the group objects of step k describe it, top down (a child its parent no longer lists is not reached)
    std::function<void(const std::string&, int)> walk = [&](const std::string& g, int depth) {
        if (depth > 20 || !sched.hasGroup(g, k)) { o << g << "?"; return; }
        const auto& grp = sched.getGroup(g, k);
        o << g << "<";
        for (const auto& c : grp.groups()) { walk(c, depth + 1); o << " "; }
        o << "|";
        for (const auto& wl : grp.wells()) o << wl << " ";
        o << ">";
    };
    o << "TREE:"; walk("FIELD", 0);
    try { o << " below-FIELD=" << sched.getChildWells2("FIELD", k).size(); } catch (...) { o << " below-FIELD=threw"; }
    return o.str();
}

// the block structure of the real ScheduleDeck
std::string dumpBlocks(const Deck& deck, std::time_t start) {
    try {
        ScheduleDeck sd(TimeService::from_time_t(start), deck, ScheduleRestartInfo{});
        std::ostringstream o;
        o << sd.size() << "|";
        for (size_t i = 0; i < sd.size(); ++i) o << (i ? "," : "") << TimeService::to_time_t(sd[i].start_time());
        for (size_t i = 0; i < sd.size(); ++i) {
            o << "|";
            for (size_t j = 0; j < sd[i].size(); ++j) o << (j ? "," : "") << sd[i][j].name();
        }
        return o.str();
    } catch (...) {
        return "err";
    }
}

// the block structure of a restarted run (types, start/end times, keyword names)
std::string dumpBlocksR(const Deck& deck, std::time_t start, const ScheduleRestartInfo& ri) {
    try {
        ScheduleDeck sd(TimeService::from_time_t(start), deck, ri);
        std::ostringstream o;
        o << sd.size() << "|";
        for (size_t i = 0; i < sd.size(); ++i) {
            const auto t = sd[i].time_type();
            o << (i ? "," : "") << (t == ScheduleTimeType::START ? "START" : t == ScheduleTimeType::DATES ? "DATES" : t == ScheduleTimeType::TSTEP ? "TSTEP" : "RESTART");
        }
        o << "|";
        for (size_t i = 0; i < sd.size(); ++i) o << (i ? "," : "") << TimeService::to_time_t(sd[i].start_time());
        o << "|";
        for (size_t i = 0; i < sd.size(); ++i) {
            o << (i ? "," : "");
            if (sd[i].end_time().has_value()) o << TimeService::to_time_t(*sd[i].end_time()); else o << "-";
        }
        for (size_t i = 0; i < sd.size(); ++i) {
            o << "|";
            for (size_t j = 0; j < sd[i].size(); ++j) o << (j ? "," : "") << sd[i][j].name();
        }
        return o.str();
    } catch (...) {
        return "err";
    }
}

// per report step: the wells whose head a WELSPECS record (outside ACTIONX blocks) has changed so far
std::vector<std::set<std::string>> movedSets(const std::vector<KwIR>& ks) {
    std::vector<std::set<std::string>> out;
    std::map<std::string, std::pair<std::string, std::string>> head;
    std::set<std::string> moved;
    bool inAct = false;
    for (const auto& k : ks) {
        if (k.name == "ACTIONX") inAct = true;
        if (k.name == "ENDACTIO") inAct = false;
        if (k.name == "WELSPECS" && !inAct) for (const auto& r : k.recs) {
            auto it = head.find(r[0]);
            if (it == head.end()) { head[r[0]] = { r[2], r[3] }; continue; }
            const std::string hi = r[2] == "*" ? it->second.first : r[2], hj = r[3] == "*" ? it->second.second : r[3];
            if (hi != it->second.first || hj != it->second.second) moved.insert(r[0]);
            it->second = { hi, hj };
        }
        for (int i = 0; i < k.nsteps(); ++i) out.push_back(moved);
    }
    out.push_back(moved);
    return out;
}

std::string constsEnc() {
    const auto us = UnitSystem::newMETRIC();
    const double bpSI = UnitSystem::newMETRIC().to_si(UnitSystem::measure::pressure, ParserKeywords::WCONPROD::BHP::defaultValue.get<double>());
    const double bp = us.from_si(UnitSystem::measure::pressure, bpSI);
    double bi = UnitSystem::newMETRIC().to_si(UnitSystem::measure::pressure, ParserKeywords::WCONINJE::BHP::defaultValue.get<double>());
    bi = us.from_si(UnitSystem::measure::pressure, bi);
    const double siP = us.parse("Pressure").getSIScaling();
    const double siL = us.getDimension(UnitSystem::measure::liquid_surface_rate).getSIScaling();
    const double siT = us.getDimension(UnitSystem::measure::time).getSIScaling();
    const double bhSI = UnitSystem::newMETRIC().to_si(UnitSystem::measure::pressure, ParserKeywords::FBHPDEF::TARGET_BHP::defaultValue);
    const double bihSI = UnitSystem::newMETRIC().to_si(UnitSystem::measure::pressure, 6891.2);
    return vh::hexF64(1.0) + ",-," + vh::hexF64(bp) + "," + vh::hexF64(bi) + "," + vh::hexF64(0.0) + "," + vh::hexF64(siP) + "," + vh::hexF64(siL) + "," + vh::hexF64(siT) + ","
        + vh::hexF64(bpSI) + "," + vh::hexF64(bhSI) + "," + vh::hexF64(bihSI);
}

int tierN(const std::string& tier, int quick, int thorough) { return tier == "thorough" ? thorough : quick; }

// what the fourth-round generator is for: how often a later report step addresses an object an earlier step has set
template <class Count> void reissueStats(const std::vector<KwIR>& ks, Count count) {
    std::map<std::string, size_t> firstSeg, firstObj; std::set<std::string> groupsSeen{ "FIELD" };
    size_t step = 0; bool inAct = false;
    for (const auto& k : ks) {
        if (k.name == "ACTIONX") inAct = true;
        if (k.name == "ENDACTIO") inAct = false;
        if (!inAct && k.raw.empty()) {
            if (k.name == "WSEGVALV" || k.name == "WSEGSICD" || k.name == "WSEGAICD") for (const auto& r : k.recs) {
                const std::string key = r[0] + "#" + r[1];
                if (firstSeg.count(key) && firstSeg[key] < step) count("reissue.segment-device-at-later-step." + k.name);
                firstSeg.emplace(key, step);
            }
            if (k.name == "WELSEGS") count(step == 0 ? "msw-well.step0" : "msw-well.later-step");
            if (k.name == "GRUPTREE") for (const auto& r : k.recs) {
                if (groupsSeen.count(r[0]) && groupsSeen.count(r[1])) count(step == 0 ? "gruptree.existing-child-and-parent.step0" : "gruptree.existing-child-and-parent.later-step");
                groupsSeen.insert(r[0]); groupsSeen.insert(r[1]);
            }
            if (k.name == "WELSPECS") for (const auto& r : k.recs) groupsSeen.insert(r[1]);
            for (const char* n : { "WECON", "WTEST", "WLIST", "GCONPROD", "GCONINJE", "WPIMULT", "COMPLUMP", "GEFAC", "WEFAC" }) if (k.name == n) for (const auto& r : k.recs) {
                const std::string key = k.name + "#" + (k.name == "WLIST" ? (r.size() > 2 ? r[2] : std::string("-")) : r[0]);
                if (firstObj.count(key) && firstObj[key] < step) count("reissue.same-name-at-later-step." + k.name);
                firstObj.emplace(key, step);
            }
        }
        step += k.nsteps();
    }
}

// ---------------------------------------------------------------------------------------------
// correspondence: C03

int corr(uint64_t seed, const std::string& tier, const std::string& outdir) {
    vh::Sink sink(outdir);
    vh::Rng rng(seed);
    const std::string consts = constsEnc();
    const int N = tierN(tier, 360, 8000);
    for (int it = 0; it < N; ++it) {
        Gen g{ rng, false, it % 4 == 3 };
        auto ks = g.schedule(rng.range(1, it % 10 == 0 ? 12 : 6));
        const std::string enc = encSched(ks);
        Deck deck;
        try { deck = parseText(deckOf(ks)); } catch (...) { sink.count("parse-failed"); continue; }
        auto dp = std::make_shared<Deck>(deck);
        if (const char* dd = std::getenv("SCHED_DECKDIR")) { vh::spit(std::string(dd) + "/" + std::to_string(it) + ".DATA", "-- " + enc + "\n" + deckOf(ks)); std::cerr << "it=" << it << "\n"; }
        const std::string bl = dumpBlocks(deck, 1420070400);
        sink.emit("sched.blocks " + std::string(START_ENC) + " " + enc, bl);
        sink.count(bl == "err" ? "blocks-err" : "blocks-ok");
        if (bl != "err") {
            // restarted runs: restart at the start of a block of the full deck (sometimes off by a second), with and without SKIPREST;
            // without SKIPREST the deck is (usually) only the part after the restart date
            ScheduleDeck full(TimeService::from_time_t(1420070400), deck, ScheduleRestartInfo{});
            for (int rr = 0; rr < 2 && full.size() > 1; ++rr) {
                const size_t rs = 1 + rng.below(full.size() - 1);
                ScheduleRestartInfo ri;
                ri.report_step = rs;
                ri.time = TimeService::to_time_t(full[rs].start_time()) + (rng.coin(1, 8) ? (rng.coin() ? 1 : -86400) : 0);
                ri.skiprest = rr == 0 ? true : rng.coin(1, 3);
                std::vector<KwIR> part = ks;
                if (!ri.skiprest && rng.coin(4, 5)) {
                    size_t steps = 0, i = 0;
                    for (; i < ks.size() && steps < rs; ++i) steps += ks[i].nsteps();
                    if (steps == rs) part.assign(ks.begin() + i, ks.end());
                }
                Deck pd;
                try { pd = parseText(deckOf(part)); } catch (...) { continue; }
                const std::string rb = dumpBlocksR(pd, 1420070400, ri);
                sink.emit("sched.rblocks " + std::string(START_ENC) + " " + std::to_string(ri.report_step) + " " + std::to_string((long) ri.time) + " " + (ri.skiprest ? "1" : "0") + " " + encSched(part), rb);
                sink.count(rb == "err" ? "rblocks-err" : (ri.skiprest ? "rblocks-skiprest-ok" : "rblocks-ok"));
            }
        }
        Real r = build(dp);
        sink.count(r.ok ? "schedule-ok" : "schedule-err");
        if (!r.ok && std::getenv("SCHED_ERRSTAT")) {        // debugging aid: which keyword makes the schedule fail first
            for (size_t cut = 1; cut <= ks.size(); ++cut) {
                std::vector<KwIR> pre(ks.begin(), ks.begin() + cut);
                bool inAct = false; for (auto& k : pre) { if (k.name == "ACTIONX") inAct = true; if (k.name == "ENDACTIO") inAct = false; }
                if (inAct) continue;
                Real pr; try { pr = build(std::make_shared<Deck>(parseText(deckOf(pre)))); } catch (...) {}
                if (!pr.ok) { sink.count("err-at." + ks[cut - 1].name); break; }
            }
        }
        size_t n = 1; for (auto& k : ks) n += k.nsteps();
        if (r.ok) {
            n = r.sched->size(); sink.count("steps", (long) n);
            // what the accepted schedules exercise
            for (size_t k = 1; k < n; ++k) for (const auto& wn : r.sched->wellNames(k - 1)) {
                const auto& w0 = r.sched->getWell(wn, k - 1); const auto& w1 = r.sched->getWell(wn, k);
                if (w0.isProducer() != w1.isProducer()) sink.count(w1.isProducer() ? "switch-injector-to-producer" : "switch-producer-to-injector");
                if (w0.getHeadI() != w1.getHeadI() || w0.getHeadJ() != w1.getHeadJ()) sink.count("head-changed");
                if (w0.getStatus() != Well::Status::SHUT && w1.getStatus() == Well::Status::SHUT && w1.getConnections().allConnectionsShut()) sink.count("auto-shut-in");
            }
        }
        for (auto& k : ks) sink.count("kw." + k.name);
        reissueStats(ks, [&](const std::string& key) { sink.count(key); });
        const auto moved = movedSets(ks);
        if (r.ok) for (size_t k = 0; k < n; ++k) for (const auto& wn : r.sched->wellNames(k)) {
            const auto& w = r.sched->getWell(wn, k);
            if (k == w.firstTimeStep()) sink.count(std::string("new-well-order.") + Connection::Order2String(w.getConnections().ordering()) + (k > 0 ? ".later-step" : ".step0"));
            if (k + 1 == n && !moved[k].count(wn) && w.getConnections().size() > 1) sink.count(std::string("sequence-observed.") + Connection::Order2String(w.getConnections().ordering()));
        }
        for (size_t k = 0; k < n; ++k)
            sink.emit("sched.obs " + std::to_string(k) + " " + consts + " " + START_ENC + " " + enc, r.ok ? dumpState(*r.sched, k, &moved[std::min(k, moved.size() - 1)]) : "err");
        if (r.ok) sink.emit("sched.obs " + std::to_string(n) + " " + consts + " " + START_ENC + " " + enc, "none");
    }
    sink.writeStats(outdir + "/stats.json");
    return 0;
}

// ---------------------------------------------------------------------------------------------
// property mode: C03 on the implementation alone

// index (in the deck) of each SCHEDULE-section time keyword and the number of report steps closed up to and including it
struct Cut { size_t deckIndexAfter; size_t stepsClosed; };

std::vector<Cut> cutsOf(const Deck& deck) {
    std::vector<Cut> cs;
    bool inSched = false; size_t steps = 0;
    for (size_t i = 0; i < deck.size(); ++i) {
        const auto& kw = deck[i];
        if (kw.name() == "SCHEDULE") { inSched = true; continue; }
        if (!inSched) continue;
        if (kw.name() == "DATES") { steps += kw.size(); cs.push_back({ i + 1, steps }); }
        else if (kw.name() == "TSTEP") { steps += kw.getRecord(0).getItem(0).data_size(); cs.push_back({ i + 1, steps }); }
    }
    return cs;
}

std::string firstDiff(const std::string& a, const std::string& b) {
    size_t i = 0; while (i < a.size() && i < b.size() && a[i] == b[i]) ++i;
    size_t s = i > 30 ? i - 30 : 0;
    return "at " + std::to_string(i) + ": [" + a.substr(s, 80) + "] vs [" + b.substr(s, 80) + "]";
}

// which public members of two states differ (member-wise dump for the report)
std::string diffMembers(const ScheduleState& a, const ScheduleState& b) {
    std::string d;
#define CMPM(m) if (!(a.m() == b.m())) d += std::string(#m) + " ";
#define CMPP(m) if (!(a.m.get() == b.m.get())) d += std::string(#m) + " ";
    CMPP(gconsale) CMPP(gconsump) CMPP(gecon) CMPP(guide_rate) CMPP(wlist_manager) CMPP(well_order) CMPP(group_order) CMPP(actions) CMPP(udq)
    CMPP(udq_active) CMPP(pavg) CMPP(wtest_config) CMPP(glo) CMPP(network) CMPP(network_balance) CMPP(rescoup) CMPP(rpt_config) CMPP(rft_config)
    CMPP(rst_config) CMPP(bhp_defaults) CMPP(source)
    if (!(a.vfpprod == b.vfpprod)) d += "vfpprod ";
    if (!(a.vfpinj == b.vfpinj)) d += "vfpinj ";
    if (!(a.groups == b.groups)) d += "groups ";
    if (!(a.wells == b.wells)) d += "wells ";
    if (!(a.target_wellpi == b.target_wellpi)) d += "target_wellpi ";
    if (!(a.next_tstep == b.next_tstep)) d += "next_tstep ";
    if (a.start_time() != b.start_time()) d += "start_time ";
    if (a.end_time() != b.end_time()) d += "end_time ";
    CMPM(tuning) CMPM(events) CMPM(wellgroup_events) CMPM(message_limits) CMPM(oilvap)
    if (a.nupcol() != b.nupcol()) d += "nupcol ";
    if (a.sim_step() != b.sim_step() || a.month_num() != b.month_num() || a.year_num() != b.year_num()) d += "counters ";
    if (a.save() != b.save()) d += "save ";
#undef CMPM
#undef CMPP
    return d.empty() ? "(no public member differs)" : d;
}

// Well/Group equality without the UnitSystem member: UnitSystem::operator== compares the lazily
// filled dimension cache (m_dimensions), which grows with every keyword the *deck* contains, so two
// independently parsed decks of different length never compare equal there.
bool wellsGroupsEquivalent(const Schedule& A, const Schedule& B, size_t k) {
    if (A.wellNames(k) != B.wellNames(k) || A.groupNames(k) != B.groupNames(k)) return false;
    for (const auto& wn : A.wellNames(k)) {
        const auto& a = A.getWell(wn, k); const auto& b = B.getWell(wn, k);
        if (!(a.getProductionProperties() == b.getProductionProperties()) || !(a.getInjectionProperties() == b.getInjectionProperties()) ||
            !(a.getConnections() == b.getConnections()) || !(a.getEconLimits() == b.getEconLimits()) || !(a.getGuideRate() == b.getGuideRate()) ||
            !(a.getWDFAC() == b.getWDFAC()) || a.getStatus() != b.getStatus() || a.groupName() != b.groupName() || a.isProducer() != b.isProducer() ||
            a.getEfficiencyFactor() != b.getEfficiencyFactor() || a.hasProduced() != b.hasProduced() || a.hasInjected() != b.hasInjected() ||
            a.predictionMode() != b.predictionMode() || a.pvt_table_number() != b.pvt_table_number() || a.getHeadI() != b.getHeadI() || a.getHeadJ() != b.getHeadJ() ||
            a.seqIndex() != b.seqIndex() || a.firstTimeStep() != b.firstTimeStep() || a.isMultiSegment() != b.isMultiSegment() ||
            a.getAllowCrossFlow() != b.getAllowCrossFlow() || a.getAutomaticShutIn() != b.getAutomaticShutIn() || a.isAvailableForGroupControl() != b.isAvailableForGroupControl())
            return false;
        if (a.isMultiSegment() && !(a.getSegments() == b.getSegments())) return false;
    }
    for (const auto& gn : A.groupNames(k)) {
        const auto& a = A.getGroup(gn, k); const auto& b = B.getGroup(gn, k);
        if (!(a.productionProperties() == b.productionProperties()) || a.parent() != b.parent() || a.wells() != b.wells() || a.groups() != b.groups() ||
            a.getGroupEfficiencyFactor() != b.getGroupEfficiencyFactor() || a.insert_index() != b.insert_index() || a.getGroupType() != b.getGroupType())
            return false;
        for (const auto ph : { Phase::WATER, Phase::GAS, Phase::OIL }) {
            if (a.hasInjectionControl(ph) != b.hasInjectionControl(ph)) return false;
            if (a.hasInjectionControl(ph) && !(a.injectionProperties(ph) == b.injectionProperties(ph))) return false;
        }
    }
    return true;
}

// compare states 0..upto of two schedules
void compareStates(vh::PropLog& log, const std::string& key, const Schedule& a, const Schedule& b, size_t upto, bool sameDeckObject = true) {
    for (size_t k = 0; k <= upto; ++k) {
        if (k >= a.size() || k >= b.size()) { log.fail(key, "state " + std::to_string(k) + " missing: sizes " + std::to_string(a.size()) + " / " + std::to_string(b.size())); return; }
        bool eq = a[k] == b[k];
        if (!eq && !sameDeckObject) {
            const std::string dm = diffMembers(a[k], b[k]);
            if ((dm == "groups wells " || dm == "groups " || dm == "wells ") && wellsGroupsEquivalent(a, b, k)) eq = true;
        }
        std::string da, db;
        try { da = dumpState(a, k) + " ## " + dumpExtra(a, k); db = dumpState(b, k) + " ## " + dumpExtra(b, k); } catch (...) { da = "dump-threw"; db = "dump-threw"; }
        if (!eq || da != db) {
            log.fail(key, "state " + std::to_string(k) + (eq ? " operator== true" : " operator== false") + " dump " + (da == db ? std::string("equal") : firstDiff(da, db)) + " members: " + diffMembers(a[k], b[k]));
            return;
        }
        log.ok();
    }
}

// all shipped decks (*.DATA below the repository), sorted
std::vector<std::string> shippedDecks(const std::string& root) {
    std::vector<std::string> out;
    for (const char* sub : { "tests", "python" }) {
        std::error_code ec;
        for (fs::recursive_directory_iterator it(root + "/" + sub, ec), end; !ec && it != end; it.increment(ec))
            if (it->is_regular_file() && it->path().extension() == ".DATA") out.push_back(fs::relative(it->path(), root).string());
    }
    std::sort(out.begin(), out.end());
    return out;
}

std::shared_ptr<Deck> parseShipped(const std::string& path) {
    Parser parser; ParseContext pc; ErrorGuard eg;
    pc.update(InputErrorAction::IGNORE);
    auto deck = std::make_shared<Deck>(parser.parseFile(path, pc, eg));
    eg.clear();
    return deck;
}

double secondsSince(const std::chrono::steady_clock::time_point& t0) { return std::chrono::duration<double>(std::chrono::steady_clock::now() - t0).count(); }

// truncation at (up to maxCuts, chosen by rng when there are more) cut points; with otherTail also one "other tail" per deck:
// the keywords after a cut with a random half of the non-time keywords removed
void propDeck(vh::PropLog& log, const std::string& label, std::shared_ptr<Deck> deck, std::map<std::string, long>& stats, size_t maxCuts,
              vh::Rng* rng = nullptr, bool otherTail = false) {
    Real full;
    std::unique_ptr<EclipseState> es;
    try { es = std::make_unique<EclipseState>(*deck); } catch (...) { stats["eclipsestate-failed"]++; return; }
    full = build(deck, es.get());
    stats[full.ok ? "full-ok" : "full-err"]++;
    auto cuts = cutsOf(*deck);
    std::vector<size_t> chosen;
    if (rng && cuts.size() > maxCuts) {
        std::set<size_t> pick;
        while (pick.size() < maxCuts) pick.insert(rng->below(cuts.size()));
        chosen.assign(pick.begin(), pick.end());
    } else {
        size_t stride = cuts.size() > maxCuts ? (cuts.size() + maxCuts - 1) / maxCuts : 1;
        for (size_t ci = 0; ci < cuts.size(); ci += stride) chosen.push_back(ci);
    }
    for (size_t ci : chosen) {
        auto td = std::make_shared<Deck>(*deck);
        if (cuts[ci].deckIndexAfter < td->size()) td->remove_keywords((int) cuts[ci].deckIndexAfter, (int) td->size());
        Real tr = build(td, es.get());
        stats["cuts"]++;
        const std::string key = label + "#cut" + std::to_string(cuts[ci].stepsClosed);
        if (full.ok && !tr.ok) { log.fail(key, "truncated schedule throws although the full schedule is accepted"); continue; }
        if (!full.ok) { stats[tr.ok ? "full-err-trunc-ok" : "full-err-trunc-err"]++; log.ok(); continue; }
        compareStates(log, key, *full.sched, *tr.sched, cuts[ci].stepsClosed - 1);
    }
    if (otherTail && rng && full.ok && !cuts.empty()) {
        const size_t ci = rng->below(cuts.size());
        auto od = std::make_shared<Deck>(*deck);
        // walk the tail backwards so that indices stay valid
        for (size_t i = od->size(); i-- > cuts[ci].deckIndexAfter; ) {
            const std::string& n = (*od)[i].name();
            if (n == "DATES" || n == "TSTEP" || n == "END") continue;
            if (rng->coin()) od->remove_keywords((int) i, (int) i + 1);
        }
        Real orr = build(od, es.get());
        stats[orr.ok ? "shipped-other-tail" : "shipped-other-tail-err"]++;
        if (orr.ok) compareStates(log, label + "#tail" + std::to_string(cuts[ci].stepsClosed), *full.sched, *orr.sched, cuts[ci].stepsClosed - 1);
    }
}

int prop(uint64_t seed, const std::string& tier, const std::string& outdir) {
    vh::PropLog log(outdir + "/prop.txt");
    std::map<std::string, long> stats;
    vh::Rng rng(seed * 7919 + 17);
    const int N = tierN(tier, 150, 3000);
    for (int it = 0; it < N; ++it) {
        Gen g{ rng, true, it % 3 == 0 };
        int nsteps = rng.range(2, it % 10 == 0 ? 10 : 5);
        auto ks = g.schedule(nsteps);
        std::shared_ptr<Deck> deck;
        try { deck = std::make_shared<Deck>(parseText(deckOf(ks))); } catch (...) { stats["parse-failed"]++; continue; }
        const std::string label = "gen" + std::to_string(seed) + "." + std::to_string(it);
        reissueStats(ks, [&](const std::string& key) { stats[key]++; });
        propDeck(log, label, deck, stats, 64);
        // different tail: keep the keywords up to a random time keyword, append a fresh tail
        std::vector<size_t> tpos; for (size_t i = 0; i < ks.size(); ++i) if (ks[i].isTime()) tpos.push_back(i);
        if (!tpos.empty()) {
            size_t cut = tpos[rng.below(tpos.size())];
            size_t stepsClosed = 0; for (size_t i = 0; i <= cut; ++i) stepsClosed += ks[i].nsteps();
            std::vector<KwIR> alt(ks.begin(), ks.begin() + cut + 1);
            Gen g2{ rng, true, true }; g2.wells = g.wells; g2.y = 2040;
            // what the kept prefix has created: groups, node groups, multisegment wells, the focus objects
            for (const auto& kw : alt) {
                if (kw.name == "WELSPECS") for (const auto& rc : kw.recs) { if (std::find(g2.groups.begin(), g2.groups.end(), rc[1]) == g2.groups.end()) g2.groups.push_back(rc[1]); g2.gwells.insert(rc[1]); }
                if (kw.name == "GRUPTREE") for (const auto& rc : kw.recs) { for (const auto& gn : { rc[0], rc[1] }) if (std::find(g2.groups.begin(), g2.groups.end(), gn) == g2.groups.end()) g2.groups.push_back(gn); g2.gpar[rc[0]] = rc[1]; }
                if (kw.name == "WELSEGS") for (const auto& mw : g.msw) if (mw.name == kw.recs[0][0]) g2.msw.push_back(mw);
            }
            g2.focusWell = g.focusWell;
            if (std::find(g2.groups.begin(), g2.groups.end(), g.focusGroup) != g2.groups.end()) g2.focusGroup = g.focusGroup;
            for (int s = 0; s < rng.range(1, 3); ++s) { g2.stepBody(alt, false); alt.push_back(rng.coin() ? g2.dates() : g2.tstep()); }
            std::shared_ptr<Deck> d2;
            try { d2 = std::make_shared<Deck>(parseText(deckOf(alt))); } catch (...) { stats["parse-failed"]++; continue; }
            Real a = build(deck), b = build(d2);
            stats["other-tail"]++;
            const long before = log.failed;
            if (a.ok && b.ok) compareStates(log, label + "#tail" + std::to_string(stepsClosed), *a.sched, *b.sched, stepsClosed - 1, false);
            else stats["other-tail-err"]++;
            if (log.failed != before && std::getenv("SCHED_DEBUG")) { vh::spit("/tmp/sched_fail_a.DATA", deckOf(ks)); vh::spit("/tmp/sched_fail_b.DATA", deckOf(alt)); }
        }
    }
    // shipped decks: every *.DATA of the repository that loads offline, in a seed-dependent order, within a time box
    const char* repo = std::getenv("VERIF_REPO");
    const std::string root = repo ? repo : "/repo";
    auto shipped = shippedDecks(root);
    for (size_t i = shipped.size(); i > 1; --i) std::swap(shipped[i - 1], shipped[rng.below(i)]);
    const double budget = tier == "thorough" ? 420.0 : 55.0;
    const auto t0 = std::chrono::steady_clock::now();
    for (auto& rel : shipped) {
        if (secondsSince(t0) > budget) { stats["shipped-skipped-time-box"]++; continue; }
        std::shared_ptr<Deck> deck;
        try { deck = parseShipped(root + "/" + rel); } catch (...) { stats["shipped-parse-failed"]++; continue; }
        stats["shipped"]++;
        propDeck(log, rel, deck, stats, tier == "thorough" ? 40 : 6, &rng, true);
    }
    stats["shipped-seconds"] = (long) secondsSince(t0);
    std::ofstream f(outdir + "/prop_stats.json");
    f << "{\n  \"checked\": " << log.checked << ",\n  \"failed\": " << log.failed;
    for (auto& kv : stats) f << ",\n  \"" << kv.first << "\": " << kv.second;
    f << "\n}\n";
    return 0;
}

// ---------------------------------------------------------------------------------------------
// C04

struct App { size_t n; std::string action; std::vector<std::string> wells; };

// the observation record without its marker part (M:...) — the action event marker is the allowed difference at step n
std::string stripMarker(const std::string& x) {
    const auto p = x.rfind(";M:");
    if (p == std::string::npos) return x;
    const auto q2 = x.find(";L:", p);
    return x.substr(0, p) + (q2 == std::string::npos ? std::string() : x.substr(q2));
}

// the events of state k: report-step mask, then the mask of every well and group that has an entry; the action event marker
// (ACTIONX_WELL_EVENT) is left out when `dropMarker` (the allowed difference at an action step)
std::string dumpEvents(const Schedule& sched, size_t k, bool dropMarker) {
    const auto& st = sched[k];
    auto fin = [&](uint64_t m) { if (dropMarker) m &= ~static_cast<uint64_t>(ScheduleEvents::ACTIONX_WELL_EVENT); char b[32]; std::snprintf(b, sizeof b, "%llx", (unsigned long long) m); return std::string(b); };
    uint64_t m = 0;
    for (int b = 0; b < 40; ++b) if (st.events().hasEvent(uint64_t(1) << b)) m |= uint64_t(1) << b;
    std::string o = "EV:" + fin(m);
    auto one = [&](const std::string& n) {
        if (!st.wellgroup_events().has(n)) { o += ";" + n + "=-"; return; }
        uint64_t x = 0;
        for (int b = 0; b < 40; ++b) if (st.wellgroup_events().hasEvent(n, uint64_t(1) << b)) x |= uint64_t(1) << b;
        o += ";" + n + "=" + fin(x);
    };
    for (const auto& w : sched.wellNames(k)) one(w);
    for (const auto& g : sched.groupNames(k)) one(g);
    return o;
}

// "closing step n changed nothing": the keywords of block n (outside ACTIONX blocks) contain no WPIMULT record with all connection
// items defaulted (nothing was deferred to the end of the step) and no well of state n has all its connections shut (the automatic
// shut-in did not act).  Then the property's per-step exception is void and bodies with COMPDAT / WELOPEN on connections / WPIMULT
// must equal their inlining in full.
bool closingVoid(const std::vector<KwIR>& cur, size_t n, const Schedule& now) {
    size_t step = 0; bool inAct = false;
    for (const auto& k : cur) {
        if (k.name == "ACTIONX") inAct = true;
        if (k.name == "ENDACTIO") inAct = false;
        if (step == n && !inAct && k.name == "WPIMULT") {
            if (!k.raw.empty()) return false;
            for (const auto& r : k.recs) { bool all = true; for (size_t i = 2; i < r.size(); ++i) if (r[i] != "*") all = false; if (all) return false; }
        }
        step += k.nsteps();
        if (step > n) break;
    }
    if (n >= now.size()) return false;
    for (const auto& w : now.wellNames(n)) if (now.getWell(w, n).getConnections().allConnectionsShut()) return false;
    return true;
}

std::string encApps(const std::vector<App>& apps) {
    std::string s;
    for (size_t i = 0; i < apps.size(); ++i) {
        s += (i ? "," : "") + std::to_string(apps[i].n) + ":" + apps[i].action + ":";
        if (apps[i].wells.empty()) s += "-";
        for (size_t j = 0; j < apps[i].wells.size(); ++j) s += (j ? "/" : "") + apps[i].wells[j];
    }
    return s;
}

// choose a sequence of applications with non-decreasing steps on a built schedule
std::vector<App> chooseApps(vh::Rng& rng, const Schedule& sched, int maxApps, bool nonDecreasing = true) {
    std::vector<App> apps;
    size_t lo = 0;
    int want = rng.range(1, maxApps);
    for (int a = 0; a < want; ++a) {
        std::vector<std::pair<size_t, std::string>> cands;
        for (size_t n = nonDecreasing ? lo : 0; n < sched.size(); ++n)
            for (const auto& act : sched[n].actions()) if (act.name() != "ZPRE") cands.push_back({ n, act.name() });
        if (cands.empty()) break;
        auto c = cands[rng.below(cands.size())];
        App app{ c.first, c.second, {} };
        for (const auto& w : sched.wellNames(c.first)) if (w[0] == c.second[3] && rng.coin(2, 3)) app.wells.push_back(w);
        if (rng.coin(1, 3)) std::reverse(app.wells.begin(), app.wells.end());
        apps.push_back(app);
        lo = c.first;
    }
    return apps;
}

bool applyReal(Schedule& s, const std::vector<App>& apps) {
    try {
        for (auto& a : apps) {
            const Action::ActionX act = s[a.n].actions()[a.action];      // copy: the snapshots are resized
            const auto res = Action::Result{ true }.wells(a.wells);
            std::unordered_map<std::string, double> wellpi;            // the simulator's current PI of every well (needed by WELPI bodies only)
            for (const auto& w : s.wellNames(a.n)) wellpi[w] = 1.0;
            s.applyAction(a.n, act, res.matches(), wellpi);
        }
        return true;
    } catch (...) { return false; }
}

int acorr(uint64_t seed, const std::string& tier, const std::string& outdir) {
    vh::Sink sink(outdir);
    vh::Rng rng(seed * 31 + 5);
    const std::string consts = constsEnc();
    const int N = tierN(tier, 420, 8000);
    for (int it = 0; it < N; ++it) {
        Gen g{ rng, false, true };
        g.prefetchAll = true;
        auto ks = g.schedule(rng.range(2, 6));
        std::shared_ptr<Deck> deck;
        try { deck = std::make_shared<Deck>(parseText(deckOf(ks))); } catch (...) { sink.count("parse-failed"); continue; }
        Real r = build(deck);
        if (!r.ok) { sink.count("schedule-err"); continue; }
        auto apps = chooseApps(rng, *r.sched, 3, it % 7 != 6);
        if (apps.empty()) { sink.count("no-action"); continue; }
        bool nondecr = true; for (size_t i = 1; i < apps.size(); ++i) if (apps[i].n < apps[i - 1].n) nondecr = false;
        sink.count(nondecr ? "seq-nondecreasing" : "seq-with-decrease");
        sink.count("apps", (long) apps.size());
        for (auto& a : apps) {       // applications at a step that end_report closed with an automatic shut-in (the case the first round excluded)
            bool any = false;
            for (const auto& wn : r.sched->wellNames(a.n)) { const auto& w = r.sched->getWell(wn, a.n); if (w.getConnections().allConnectionsShut() && !w.getConnections().empty()) any = true; }
            if (any) sink.count("apps-at-step-with-auto-shut-in");
        }
        for (auto& a : apps) for (size_t i = 0; i < ks.size(); ++i) if (ks[i].name == "ACTIONX" && ks[i].recs[0][0] == a.action)
            for (size_t j = i + 1; j < ks.size() && ks[j].name != "ENDACTIO"; ++j) sink.count("body." + ks[j].name);
        const bool ok = applyReal(*r.sched, apps);
        sink.count(ok ? "apply-ok" : "apply-err");
        const std::string enc = encSched(ks), ea = encApps(apps);
        size_t n = 1; for (auto& k : ks) n += k.nsteps();
        const auto moved = movedSets(ks);
        for (size_t k = 0; k < n; ++k)
            sink.emit("sched.apply " + std::to_string(k) + " " + consts + " " + START_ENC + " " + enc + " " + ea, ok ? dumpState(*r.sched, k, &moved[std::min(k, moved.size() - 1)]) : "err");
    }
    sink.writeStats(outdir + "/stats.json");
    return 0;
}

// the body of an action as IR keywords with '?' substituted (one record per well, well order)
std::vector<KwIR> substBody(const std::vector<KwIR>& body, const std::vector<std::string>& sortedWells) {
    std::vector<KwIR> out;
    for (auto k : body) {
        const bool wellKw = k.name == "WELOPEN" || k.name == "WCONPROD" || k.name == "WCONINJE" || k.name == "WELTARG" || k.name == "WEFAC" || k.name == "COMPDAT" || k.name == "WELSPECS" ||
                            k.name == "WECON" || k.name == "WTEST" || k.name == "COMPLUMP" || k.name == "WPIMULT";
        if (k.name == "WLIST") {
            // '?' among the well arguments: the matching wells, in the order '?' is expanded in
            for (auto& r : k.recs) {
                std::vector<std::string> f(r.begin(), r.begin() + std::min<size_t>(2, r.size()));
                for (size_t i = 2; i < r.size(); ++i) { if (r[i] == "?") f.insert(f.end(), sortedWells.begin(), sortedWells.end()); else f.push_back(r[i]); }
                r = f;
            }
        }
        if (wellKw) {
            std::vector<std::vector<std::string>> recs;
            for (auto& r : k.recs) {
                if (r[0] == "?") for (auto& w : sortedWells) { auto r2 = r; r2[0] = w; recs.push_back(r2); }
                else recs.push_back(r);
            }
            k.recs = recs;
        }
        out.push_back(k);
    }
    return out;
}

int aprop(uint64_t seed, const std::string& tier, const std::string& outdir) {
    vh::PropLog log(outdir + "/prop.txt");
    std::map<std::string, long> stats;
    vh::Rng rng(seed * 131 + 3);
    const int N = tierN(tier, 320, 6000);
    for (int it = 0; it < N; ++it) {
        Gen g{ rng, it % 2 == 0, true };
        g.prefetchAll = true;
        auto ks = g.schedule(rng.range(2, 6));
        std::shared_ptr<Deck> deck;
        try { deck = std::make_shared<Deck>(parseText(deckOf(ks))); } catch (...) { stats["parse-failed"]++; continue; }
        Real base = build(deck);
        if (!base.ok) { stats["schedule-err"]++; continue; }
        Real applied = build(deck);
        auto apps = chooseApps(rng, *base.sched, 3);
        if (apps.empty()) { stats["no-action"]++; continue; }
        {
            // WELSPECS '?' applied with an EMPTY match set creates a well literally named '?' in the real code (the pattern is
            // taken for the name of a new well), which no inlined deck can express: not generated (design.d/C04.md)
            bool skip = false;
            for (auto& a : apps) if (a.wells.empty()) for (size_t i = 0; i < ks.size(); ++i) if (ks[i].name == "ACTIONX" && ks[i].recs[0][0] == a.action)
                for (size_t j = i + 1; j < ks.size() && ks[j].name != "ENDACTIO"; ++j) {
                    if (ks[j].name == "WELSPECS") for (auto& rc : ks[j].recs) if (rc[0] == "?") skip = true;
                    // WLIST ... '?' with an empty match set throws (no well matches '?') where the inlined record without wells is accepted
                    if (ks[j].name == "WLIST") for (auto& rc : ks[j].recs) for (size_t q3 = 2; q3 < rc.size(); ++q3) if (rc[q3] == "?") skip = true;
                }
            if (skip) { stats["order-probe-with-empty-match-set-not-applied"]++; continue; }
        }
        // inline: after each application the deck is rebuilt with the substituted body before the time keyword closing block n
        std::vector<KwIR> cur = ks;
        bool inlineOk = true, perStep = false, connFull = false;
        std::unique_ptr<Schedule> inl;
        for (auto& a : apps) {
            Real now = build(std::make_shared<Deck>(parseText(deckOf(cur))));
            if (!now.ok) { inlineOk = false; break; }
            // body of the action as registered at step n: the last ACTIONX block of that name at or before block n
            size_t step = 0; long bodyStart = -1, bodyEnd = -1, insertAt = -1;
            for (size_t i = 0; i < cur.size(); ++i) {
                if (cur[i].name == "ACTIONX" && cur[i].recs[0][0] == a.action && step <= a.n) {
                    bodyStart = (long) i + 1; bodyEnd = bodyStart;
                    while (bodyEnd < (long) cur.size() && cur[bodyEnd].name != "ENDACTIO") ++bodyEnd;
                }
                if (cur[i].isTime()) {
                    if (step <= a.n && a.n < step + cur[i].nsteps()) { insertAt = (a.n == step) ? (long) i : -2; }
                    step += cur[i].nsteps();
                }
            }
            if (insertAt == -1 && a.n == step) insertAt = (long) cur.size();
            if (bodyStart < 0 || insertAt < 0) { inlineOk = false; stats["inline-not-expressible"]++; break; }   // step inside a multi-record time keyword
            std::vector<std::string> sorted;
            for (const auto& w : now.sched->wellNames(a.n)) if (std::find(a.wells.begin(), a.wells.end(), w) != a.wells.end()) sorted.push_back(w);
            std::vector<KwIR> body(cur.begin() + bodyStart, cur.begin() + bodyEnd);
            // the property's per-step exception: keywords that shut/open connections (automatic shut-in) and WPIMULT (accumulation)
            // see step n as already closed — which makes a difference only when closing step n did something; WELPI needs the
            // simulator's run-time PI and is compared in the past only
            const bool voidClose = closingVoid(cur, a.n, *now.sched);
            for (auto& b : body) {
                const bool connKw = b.name == "COMPDAT" || b.name == "WPIMULT" || (b.name == "WELOPEN" && [&] { for (auto& r : b.recs) if (r.size() > 2) return true; return false; }());
                if (b.name == "WELPI" || (connKw && !voidClose)) perStep = true;
                else if (connKw) { connFull = true; stats["conn-body-at-void-closing." + b.name]++; }
            }
            auto sb = substBody(body, sorted);
            cur.insert(cur.begin() + insertAt, sb.begin(), sb.end());
        }
        if (!inlineOk) { stats["inline-skipped"]++; continue; }
        const bool okA = applyReal(*applied.sched, apps);
        Real inlined = build(std::make_shared<Deck>(parseText(deckOf(cur))));
        stats[okA ? "apply-ok" : "apply-err"]++;
        stats[perStep ? "with-connection-keywords" : (connFull ? "connection-body-compared-in-full" : "admissible-body")]++;
        for (auto& a : apps) for (size_t i = 0; i < ks.size(); ++i) if (ks[i].name == "ACTIONX" && ks[i].recs[0][0] == a.action)
            for (size_t j = i + 1; j < ks.size() && ks[j].name != "ENDACTIO"; ++j) stats["body." + ks[j].name]++;
        const std::string key = "act" + std::to_string(seed) + "." + std::to_string(it);
        if (okA != inlined.ok) {
            if (perStep) { stats["perstep-outcome-differs"]++; continue; }
            log.fail(key, std::string("applyAction ") + (okA ? "succeeds" : "throws") + " but the inlined deck " + (inlined.ok ? "is accepted" : "throws") + " apps=" + encApps(apps));
            continue;
        }
        if (!okA) { log.ok(); continue; }
        const Schedule& A = *applied.sched; const Schedule& B = *inlined.sched;
        if (A.size() != B.size()) { log.fail(key, "sizes differ"); continue; }
        std::set<size_t> appSteps; for (auto& a : apps) appSteps.insert(a.n);
        size_t first = apps.front().n;
        for (size_t k = 0; k < A.size(); ++k) {
            std::string da = dumpState(A, k), db = dumpState(B, k);
            // strip the marker line (M:...) — the action event marker is the allowed difference
            auto strip = stripMarker;
            if (k < first) {
                // the past: untouched, compared against the schedule before any application
                std::string d0 = dumpState(*base.sched, k);
                if (!(A[k] == (*base.sched)[k]) || da != d0) { log.fail(key, "state " + std::to_string(k) + " before the action step changed: " + firstDiff(da, d0)); break; }
                log.ok();
                continue;
            }
            if (perStep) {
                if (strip(da) != strip(db)) stats["perstep-state-differs"]++;
                continue;
            }
            if (strip(da) != strip(db)) { log.fail(key, "state " + std::to_string(k) + " differs from inlined deck: " + firstDiff(strip(da), strip(db)) + " apps=" + encApps(apps)); break; }
            if (!wellsGroupsEquivalent(A, B, k)) { log.fail(key, "state " + std::to_string(k) + ": wells/groups differ member-wise from the inlined deck (record equal) apps=" + encApps(apps)); break; }
            {
                const bool atApp = appSteps.count(k) > 0;
                const std::string ea = dumpEvents(A, k, atApp), eb = dumpEvents(B, k, atApp);
                if (ea != eb) { log.fail(key, "state " + std::to_string(k) + " events differ from inlined deck: " + firstDiff(ea, eb) + " apps=" + encApps(apps)); break; }
            }
            log.ok();
        }
    }
    // shipped decks with ACTIONX: real applyAction vs the Deck with the action's keywords inserted verbatim at the end of block n
    {
        const char* repo = std::getenv("VERIF_REPO");
        const std::string root = repo ? repo : "/repo";
        auto shipped = shippedDecks(root);
        for (size_t i = shipped.size(); i > 1; --i) std::swap(shipped[i - 1], shipped[rng.below(i)]);
        const double budget = tier == "thorough" ? 300.0 : 45.0;
        const auto t0 = std::chrono::steady_clock::now();
        static const std::set<std::string> comparable = { "WELOPEN", "WCONPROD", "WCONINJE", "WELTARG", "WEFAC", "GCONPROD", "GCONINJE", "GRUPTREE", "WTMULT", "WECON", "WTEST",
                                                          "WLIST", "NEXTSTEP", "NEXT", "UDQ", "COMPLUMP", "GLIFTOPT", "WGRUPCON", "GRUPTARG", "GCONSUMP" };
        for (auto& rel : shipped) {
            if (secondsSince(t0) > budget) { stats["shipped-skipped-time-box"]++; continue; }
            std::shared_ptr<Deck> deck;
            std::unique_ptr<EclipseState> es;
            try { deck = parseShipped(root + "/" + rel); es = std::make_unique<EclipseState>(*deck); } catch (...) { continue; }
            Real base = build(deck, es.get());
            if (!base.ok) continue;
            std::vector<std::pair<size_t, std::string>> cands;
            for (size_t n = 0; n < base.sched->size(); ++n) for (const auto& act : (*base.sched)[n].actions()) cands.push_back({ n, act.name() });
            if (cands.empty()) continue;
            stats["shipped-with-actions"]++;
            const auto cuts = cutsOf(*deck);
            const int tries = tier == "thorough" ? 12 : 4;
            for (int t = 0; t < tries; ++t) {
                const auto c = cands[rng.below(cands.size())];
                const size_t n = c.first;
                const Action::ActionX act = (*base.sched)[n].actions()[c.second];
                // position of the end of block n in the deck
                long insertAt = -1; size_t before = 0;
                for (auto& cu : cuts) { if (before == n) { insertAt = (long) cu.deckIndexAfter - 1; break; } if (cu.stepsClosed > n) break; before = cu.stepsClosed; }
                if (insertAt < 0 && before == n) insertAt = (long) deck->size();
                if (insertAt < 0) { stats["shipped-inline-not-expressible"]++; continue; }
                bool hasQ = false, perStep = false;
                for (const auto& kw : act) {
                    if (!comparable.count(kw.name())) perStep = true;
                    for (const auto& rec : kw) {
                        if (rec.size() > 0 && rec.getItem(0).getType() == type_tag::string && rec.getItem(0).hasValue(0) && rec.getItem(0).getTrimmedString(0) == "?") hasQ = true;
                        if (kw.name() == "WELOPEN") for (size_t i = 2; i < rec.size(); ++i) if (!rec.getItem(i).defaultApplied(0)) perStep = true;
                    }
                }
                App app{ n, c.second, {} };
                if (!hasQ) for (const auto& w : base.sched->wellNames(n)) if (rng.coin(1, 3)) app.wells.push_back(w);   // '?' bodies: no matching wells, so verbatim inlining is exact
                Real applied = build(deck, es.get());
                const bool okA = applyReal(*applied.sched, { app });
                auto id = std::make_shared<Deck>(*deck);
                if ((size_t) insertAt < id->size()) id->remove_keywords((int) insertAt, (int) id->size());
                for (const auto& kw : act) id->addKeyword(kw);
                for (size_t i = (size_t) insertAt; i < deck->size(); ++i) id->addKeyword((*deck)[i]);
                Real inlined = build(id, es.get());
                stats[okA ? "shipped-apply-ok" : "shipped-apply-err"]++;
                stats[perStep ? "shipped-per-step-body" : "shipped-admissible-body"]++;
                const std::string key = rel + "#" + c.second + "@" + std::to_string(n);
                if (okA != inlined.ok) {
                    if (perStep) { stats["shipped-perstep-outcome-differs"]++; continue; }
                    log.fail(key, std::string("applyAction ") + (okA ? "succeeds" : "throws") + " but the inlined deck " + (inlined.ok ? "is accepted" : "throws"));
                    continue;
                }
                if (!okA) { log.ok(); continue; }
                const Schedule& A = *applied.sched; const Schedule& B = *inlined.sched;
                if (A.size() != B.size()) { log.fail(key, "sizes differ"); continue; }
                auto strip = stripMarker;
                for (size_t k = 0; k < A.size(); ++k) {
                    const std::string da = dumpState(A, k), db = dumpState(B, k);
                    if (k < n) {
                        if (!(A[k] == (*base.sched)[k]) || da != dumpState(*base.sched, k)) { log.fail(key, "state " + std::to_string(k) + " before the action step changed"); break; }
                        log.ok(); continue;
                    }
                    if (perStep) { if (strip(da) != strip(db)) stats["shipped-perstep-state-differs"]++; continue; }
                    if (strip(da) != strip(db) || !wellsGroupsEquivalent(A, B, k)) { log.fail(key, "state " + std::to_string(k) + " differs from inlined deck: " + firstDiff(strip(da), strip(db))); break; }
                    log.ok();
                }
            }
        }
        stats["shipped-seconds"] = (long) secondsSince(t0);
    }
    // ACTIONX with WELPI (run-time productivity-index scaling): states before the action step must stay
    {
        std::vector<KwIR> ks;
        ks.push_back(KwIR{ "WELSPECS", { { "P1", "G1", "2", "2" } }, "" });
        ks.push_back(KwIR{ "COMPDAT", { { "P1", "0", "0", "1", "2", "OPEN" } }, "" });
        ks.push_back(KwIR{ "WCONPROD", { { "P1", "OPEN", "ORAT", "1000", "*", "*", "*", "*", "50" } }, "" });
        ks.push_back(KwIR{ "ACTIONX", { { "ACTP1" } }, "" });
        ks.push_back(KwIR{ "WELPI", {}, "WELPI\n 'P1' 10 /\n/\n" });
        ks.push_back(KwIR{ "ENDACTIO", {}, "" });
        ks.push_back(KwIR{ "TSTEP", { { "10/1" }, { "10/1" }, { "10/1" } }, "" });
        auto deck = std::make_shared<Deck>(parseText(deckOf(ks)));
        Real ref = build(deck), app = build(deck);
        if (ref.ok && app.ok) {
            bool ok = true;
            try {
                const Action::ActionX act = (*app.sched)[2].actions()["ACTP1"];
                const auto res = Action::Result{ true }.wells({ "P1" });
                app.sched->applyAction(2, act, res.matches(), std::unordered_map<std::string, double>{ { "P1", 1.0 } });
            } catch (...) { ok = false; }
            if (ok) {
                std::string changed;
                for (size_t k = 0; k < 2; ++k) if (!((*app.sched)[k] == (*ref.sched)[k])) changed += std::to_string(k) + " ";
                double cf0 = 0, cf1 = 0;
                for (const auto& c : ref.sched->getWell("P1", 0).getConnections()) { cf0 = c.CF(); break; }
                for (const auto& c : app.sched->getWell("P1", 0).getConnections()) { cf1 = c.CF(); break; }
                if (!changed.empty()) {
                    char b[200]; std::snprintf(b, sizeof b, "connection factor of P1 at step 0: %.6g before, %.6g after", cf0, cf1);
                    log.fail("actionx-welpi-rescales-past", "ACTIONX{WELPI P1 10} applied at step 2 changed snapshots " + changed + "(" + b + ")");
                } else log.ok();
            } else stats["welpi-apply-threw"]++;
        } else stats["welpi-deck-failed"]++;
    }
    // fixed probe (known finding act.runtime-cell-unknown): an action widens a well list, a LATER-step COMPDAT with defaulted
    // I,J then reaches a well whose head cell in that layer nobody looked up while the deck was loaded
    {
        auto mk = [&](bool inlined) {
            std::string t = PREAMBLE;
            t += "WELSPECS\n 'I1' 'G1' 6 2 1* 'OIL' /\n 'P3' 'G1' 4 1 1* 'OIL' /\n/\n";
            t += "COMPDAT\n 'I1' 0 0 1 1 'OPEN' 2* 0.2 /\n 'P3' 0 0 1 1 'OPEN' 2* 0.2 /\n/\n";
            t += "WLIST\n '*L1' 'NEW' 'I1' /\n/\n";
            t += "ACTIONX\n 'ACTP1' 100 /\n WWCT 'I1' > 0.5 /\n/\nWLIST\n '*L1' 'NEW' '*L1' 'P3' /\n/\nENDACTIO\n";
            t += "TSTEP\n 10 /\n";
            if (inlined) t += "WLIST\n '*L1' 'NEW' '*L1' 'P3' /\n/\n";
            t += "TSTEP\n 10 /\n";
            t += "COMPDAT\n '*L1' 0 0 2 2 'OPEN' 2* 0.2 /\n/\n";
            t += "TSTEP\n 10 /\n";
            return t;
        };
        auto deckA = std::make_shared<Deck>(parseText(mk(false)));
        auto deckB = std::make_shared<Deck>(parseText(mk(true)));
        Real app = build(deckA), inl = build(deckB);
        if (app.ok && inl.ok) {
            bool okA = true;
            try {
                const Action::ActionX act = (*app.sched)[1].actions()["ACTP1"];
                const auto res = Action::Result{ true }.wells({ "I1" });
                app.sched->applyAction(1, act, res.matches(), std::unordered_map<std::string, double>{});
            } catch (const std::exception&) { okA = false; }
            if (!okA) log.fail("act.runtime-cell-unknown", "ACTIONX{WLIST '*L1' NEW '*L1' 'P3'} applied at step 1 throws (a later COMPDAT '*L1' 0 0 2 2 reaches P3, whose cell (4,1,2) is unknown to the run-time grid) although the deck with the WLIST inlined at the end of step 1 loads");
            else if (stripMarker(dumpState(*app.sched, 2)) != stripMarker(dumpState(*inl.sched, 2))) log.fail("act.runtime-cell-differs", "state 2 differs from the inlined deck");
            else log.ok();
        } else stats["runtime-cell-deck-failed"]++;
    }
    std::ofstream f(outdir + "/prop_stats.json");
    f << "{\n  \"checked\": " << log.checked << ",\n  \"failed\": " << log.failed;
    for (auto& kv : stats) f << ",\n  \"" << kv.first << "\": " << kv.second;
    f << "\n}\n";
    return 0;
}

} // namespace

int main(int argc, char** argv) {
    OpmLog::removeAllBackends();
    if (std::getenv("SCHED_DEBUG")) { auto lg = std::make_shared<StreamLog>(std::cerr, Log::MessageType::Error); OpmLog::addBackend("E", lg); }
    if (argc >= 3 && std::string(argv[1]) == "dump") {
        auto deck = std::make_shared<Deck>(parseText(vh::slurp(argv[2])));
        Real r = build(deck);
        std::cout << dumpBlocks(*deck, 1420070400) << "\n";
        if (!r.ok) { std::cout << "err\n"; return 0; }
        for (size_t k = 0; k < r.sched->size(); ++k) std::cout << k << " " << dumpState(*r.sched, k) << "\n";
        return 0;
    }
    if (argc >= 3 && std::string(argv[1]) == "probe") {     // load time / size of a shipped deck
        for (int i = 2; i < argc; ++i) {
            const auto t0 = std::chrono::steady_clock::now();
            std::string res = "parse-failed"; size_t steps = 0, nact = 0;
            try {
                Parser parser; ParseContext pc; ErrorGuard eg;
                pc.update(InputErrorAction::IGNORE);
                auto deck = std::make_shared<Deck>(parser.parseFile(argv[i], pc, eg));
                eg.clear();
                res = "es-failed";
                EclipseState es(*deck);
                res = "sched-failed";
                Real r = build(deck, &es);
                if (r.ok) { res = "ok"; steps = r.sched->size(); for (size_t k = 0; k < steps; ++k) nact = std::max(nact, (*r.sched)[k].actions().ecl_size()); }
            } catch (...) {}
            const double dt = std::chrono::duration<double>(std::chrono::steady_clock::now() - t0).count();
            std::cout << argv[i] << " " << res << " steps=" << steps << " actions=" << nact << " t=" << dt << "\n";
        }
        return 0;
    }
    if (argc >= 3 && std::string(argv[1]) == "gen") {       // print a generated deck + encoding
        vh::Rng rng(std::strtoull(argv[2], nullptr, 10));
        Gen g{ rng, false, argc > 3 };
        auto ks = g.schedule(rng.range(1, 6));
        std::cout << deckOf(ks) << "\n-- " << encSched(ks) << "\n";
        return 0;
    }
    if (argc < 5) { std::cerr << "usage: schedule corr|prop|acorr|aprop <seed> <tier> <outdir>\n"; return 2; }
    const std::string mode = argv[1], tier = argv[3], outdir = argv[4];
    const uint64_t seed = std::strtoull(argv[2], nullptr, 10);
    fs::create_directories(outdir);
    if (mode == "corr") return corr(seed, tier, outdir);
    if (mode == "prop") return prop(seed, tier, outdir);
    if (mode == "acorr") return acorr(seed, tier, outdir);
    if (mode == "aprop") return aprop(seed, tier, outdir);
    return 2;
}
