// C02 — HAND-WRITTEN keyword item -> physical quantity knowledge (round 5).
//
// Nothing in this file is derived from the keyword JSON or from Units.hpp.  It is written from the
// ECLIPSE reference manual's description of each item ("item 4: oil rate, SM3/DAY (METRIC), STB/DAY
// (FIELD), SCC/HR (LAB), SM3/DAY (PVT-M)").  Three tables:
//
//   QUANTITIES       physical quantity -> SI value of its unit in METRIC / FIELD / LAB / PVT-M (decimal
//                    numbers from the SI definitions of the customary units)
//   ITEM_QUANTITIES  "KEYWORD.record.ITEM" -> quantity of each column.  translate/units.py copies this
//                    table verbatim into Gen/UnitsQuant.lean, where `item_quantities_match` compares it
//                    with the dimension list regenerated from the keyword JSON (kernel-checked).
//   TEMPLATES        the keyword as a user writes it, items in the manual's ORDER; <Quantity> tokens are
//                    replaced by numbers.  Property mode writes each template in the four unit systems,
//                    parses it with the real parser and compares getSIDouble / UDAValue::getSI of every
//                    given value with  value x (independent factor);  it also checks that the item the
//                    real parser put the value into is listed in ITEM_QUANTITIES with the same quantity
//                    (so the positional and the named table cannot drift apart).
//
// The line format of ITEM_QUANTITIES and QUANTITY names is read by the translator: keep one entry per line.
#include "units_quantities.hpp"

namespace uq {

namespace {
// SI definitions of the customary units (international inch/pound 1959, standard gravity, standard atmosphere)
constexpr double IN = 0.0254, FT = 0.3048, LB = 0.45359237, G0 = 9.80665, PSI = LB * G0 / (IN * IN), ATM = 101325.0, BAR = 1e5,
                 STB = 42.0 * 231.0 * IN * IN * IN, MSCF = 1000.0 * FT * FT * FT, FT3 = FT * FT * FT, DAY = 86400.0, HOUR = 3600.0,
                 MD = 1e-3 * 1e-7 / 101325.0, CP = 1e-3, CM = 0.01, CC = 1e-6, KELVIN0C = 273.15, DEGF = 5.0 / 9.0;
}

// BEGIN QUANTITIES
const std::vector<Quantity> QUANTITIES = {
    //                     METRIC                FIELD                    LAB                       PVT-M
    { "Dimensionless",   { 1.0,                  1.0,                     1.0,                      1.0 },                {0, 0, 0, 0} },
    { "Length",          { 1.0,                  FT,                      CM,                       1.0 },                {0, 0, 0, 0} },   // m, ft, cm, m
    { "Pressure",        { BAR,                  PSI,                     ATM,                      ATM },                {0, 0, 0, 0} },   // barsa, psia, atma, atma
    { "Temperature",     { 1.0,                  DEGF,                    1.0,                      1.0 },                {KELVIN0C, 459.67 * DEGF, KELVIN0C, KELVIN0C} },   // degC, degF, degC, degC
    { "Time",            { DAY,                  DAY,                     HOUR,                     DAY },                {0, 0, 0, 0} },   // day, day, hr, day
    { "Density",         { 1.0,                  LB / FT3,                1e-3 / CC,                1.0 },                {0, 0, 0, 0} },   // kg/m3, lb/ft3, g/cc, kg/m3
    { "Viscosity",       { CP,                   CP,                      CP,                       CP },                 {0, 0, 0, 0} },   // cP
    { "Permeability",    { MD,                   MD,                      MD,                       MD },                 {0, 0, 0, 0} },   // mD
    { "Compressibility", { 1.0 / BAR,            1.0 / PSI,               1.0 / ATM,                1.0 / ATM },          {0, 0, 0, 0} },   // 1/bar, 1/psi, 1/atm, 1/atm
    { "GasOilRatio",     { 1.0,                  MSCF / STB,              1.0,                      1.0 },                {0, 0, 0, 0} },   // sm3/sm3, Mscf/stb, scc/scc, sm3/sm3
    { "OilGasRatio",     { 1.0,                  STB / MSCF,              1.0,                      1.0 },                {0, 0, 0, 0} },   // sm3/sm3, stb/Mscf, scc/scc, sm3/sm3
    { "LiquidFVF",       { 1.0,                  1.0,                     1.0,                      1.0 },                {0, 0, 0, 0} },   // rm3/sm3, rb/stb, rcc/scc, rm3/sm3
    { "GasFVF",          { 1.0,                  STB / MSCF,              1.0,                      1.0 },                {0, 0, 0, 0} },   // rm3/sm3, rb/Mscf, rcc/scc, rm3/sm3
    { "LiquidRate",      { 1.0 / DAY,            STB / DAY,               CC / HOUR,                1.0 / DAY },          {0, 0, 0, 0} },   // sm3/day, stb/day, scc/hr, sm3/day
    { "GasRate",         { 1.0 / DAY,            MSCF / DAY,              CC / HOUR,                1.0 / DAY },          {0, 0, 0, 0} },   // sm3/day, Mscf/day, scc/hr, sm3/day
    { "ReservoirRate",   { 1.0 / DAY,            STB / DAY,               CC / HOUR,                1.0 / DAY },          {0, 0, 0, 0} },   // rm3/day, rb/day, rcc/hr, rm3/day
    { "Transmissibility",{ CP / (DAY * BAR),     CP * STB / (DAY * PSI),  CP * CC / (HOUR * ATM),   CP / (DAY * ATM) },   {0, 0, 0, 0} },   // cP.rm3/day/bars, cP.rb/day/psi, cP.rcc/hr/atm, cP.rm3/day/atm
    { "PermThickness",   { MD,                   MD * FT,                 MD * CM,                  MD },                 {0, 0, 0, 0} },   // mD.m, mD.ft, mD.cm, mD.m
    { "DFactor",         { DAY,                  DAY / MSCF,              HOUR / CC,                DAY },                {0, 0, 0, 0} },   // day/sm3, day/Mscf, hr/scc, day/sm3
    { "LiquidVolume",    { 1.0,                  STB,                     CC,                       1.0 },                {0, 0, 0, 0} },   // sm3, stb, scc, sm3
    { "ReservoirVolume", { 1.0,                  STB,                     CC,                       1.0 },                {0, 0, 0, 0} },   // rm3, rb, rcc, rm3
    { "LiquidPI",        { 1.0 / (DAY * BAR),    STB / (DAY * PSI),       CC / (HOUR * ATM),        1.0 / (DAY * ATM) },  {0, 0, 0, 0} },   // sm3/day/bars, stb/day/psi, scc/hr/atm, sm3/day/atm
    { "Salinity",        { 1.0,                  LB / STB,                1e-3 / CC,                1.0 },                {0, 0, 0, 0} },   // kg/sm3, lb/stb, g/scc, kg/sm3
};
// END QUANTITIES

// BEGIN ITEM_QUANTITIES
const std::vector<ItemQ> ITEM_QUANTITIES = {
    // PROPS: PVT tables
    { "PVTO.0.RS", { "GasOilRatio" } },
    { "PVTO.0.DATA", { "Pressure", "LiquidFVF", "Viscosity" } },
    { "PVTG.0.GAS_PRESSURE", { "Pressure" } },
    { "PVTG.0.DATA", { "OilGasRatio", "GasFVF", "Viscosity" } },
    { "PVDO.0.DATA", { "Pressure", "LiquidFVF", "Viscosity" } },
    { "PVDG.0.DATA", { "Pressure", "GasFVF", "Viscosity" } },
    { "PVTW.0.P_REF", { "Pressure" } },
    { "PVTW.0.WATER_VOL_FACTOR", { "LiquidFVF" } },
    { "PVTW.0.WATER_COMPRESSIBILITY", { "Compressibility" } },
    { "PVTW.0.WATER_VISCOSITY", { "Viscosity" } },
    { "PVTW.0.WATER_VISCOSIBILITY", { "Compressibility" } },
    { "PVCDO.0.P_REF", { "Pressure" } },
    { "PVCDO.0.OIL_VOL_FACTOR", { "LiquidFVF" } },
    { "PVCDO.0.OIL_COMPRESSIBILITY", { "Compressibility" } },
    { "PVCDO.0.OIL_VISCOSITY", { "Viscosity" } },
    { "PVCDO.0.OIL_VISCOSIBILITY", { "Compressibility" } },
    { "ROCK.0.PREF", { "Pressure" } },
    { "ROCK.0.COMPRESSIBILITY", { "Compressibility" } },
    { "DENSITY.0.OIL", { "Density" } },
    { "DENSITY.0.WATER", { "Density" } },
    { "DENSITY.0.GAS", { "Density" } },
    // PROPS: saturation functions
    { "SWOF.0.DATA", { "Dimensionless", "Dimensionless", "Dimensionless", "Pressure" } },
    { "SGOF.0.DATA", { "Dimensionless", "Dimensionless", "Dimensionless", "Pressure" } },
    { "SWFN.0.DATA", { "Dimensionless", "Dimensionless", "Pressure" } },
    { "SGFN.0.DATA", { "Dimensionless", "Dimensionless", "Pressure" } },
    { "SOF3.0.DATA", { "Dimensionless", "Dimensionless", "Dimensionless" } },
    // SOLUTION
    { "EQUIL.0.DATUM_DEPTH", { "Length" } },
    { "EQUIL.0.DATUM_PRESSURE", { "Pressure" } },
    { "EQUIL.0.OWC", { "Length" } },
    { "EQUIL.0.PC_OWC", { "Pressure" } },
    { "EQUIL.0.GOC", { "Length" } },
    { "EQUIL.0.PC_GOC", { "Pressure" } },
    { "RSVD.0.DATA", { "Length", "GasOilRatio" } },
    { "RVVD.0.DATA", { "Length", "OilGasRatio" } },
    { "PBVD.0.DATA", { "Length", "Pressure" } },
    { "PDVD.0.DATA", { "Length", "Pressure" } },
    { "RTEMPVD.0.DATA", { "Length", "Temperature" } },
    { "PRESSURE.0.data", { "Pressure" } },
    { "SWAT.0.data", { "Dimensionless" } },
    { "SGAS.0.data", { "Dimensionless" } },
    { "RS.0.data", { "GasOilRatio" } },
    { "RV.0.data", { "OilGasRatio" } },
    { "TEMPI.0.data", { "Temperature" } },
    // aquifers
    { "AQUCT.0.DAT_DEPTH", { "Length" } },
    { "AQUCT.0.P_INI", { "Pressure" } },
    { "AQUCT.0.PERM_AQ", { "Permeability" } },
    { "AQUCT.0.PORO_AQ", { "Dimensionless" } },
    { "AQUCT.0.C_T", { "Compressibility" } },
    { "AQUCT.0.RAD", { "Length" } },
    { "AQUCT.0.THICKNESS_AQ", { "Length" } },
    { "AQUCT.0.INFLUENCE_ANGLE", { "Dimensionless" } },
    { "AQUCT.0.INI_SALT", { "Salinity" } },
    { "AQUCT.0.TEMP_AQUIFER", { "Temperature" } },
    { "AQUFETP.0.DAT_DEPTH", { "Length" } },
    { "AQUFETP.0.P0", { "Pressure" } },
    { "AQUFETP.0.V0", { "LiquidVolume" } },
    { "AQUFETP.0.C_T", { "Compressibility" } },
    { "AQUFETP.0.PI", { "LiquidPI" } },
    { "AQUFETP.0.SALINITY", { "Salinity" } },
    { "AQUFETP.0.TEMP", { "Temperature" } },
    // GRID / EDIT arrays
    { "DX.0.data", { "Length" } },
    { "DY.0.data", { "Length" } },
    { "DZ.0.data", { "Length" } },
    { "TOPS.0.data", { "Length" } },
    { "COORD.0.data", { "Length" } },
    { "ZCORN.0.data", { "Length" } },
    { "PERMX.0.data", { "Permeability" } },
    { "PERMY.0.data", { "Permeability" } },
    { "PERMZ.0.data", { "Permeability" } },
    { "PORO.0.data", { "Dimensionless" } },
    { "NTG.0.data", { "Dimensionless" } },
    { "PORV.0.data", { "ReservoirVolume" } },
    { "TRANX.0.data", { "Transmissibility" } },
    { "TRANY.0.data", { "Transmissibility" } },
    { "TRANZ.0.data", { "Transmissibility" } },
    // SCHEDULE: wells
    { "WELSPECS.0.REF_DEPTH", { "Length" } },
    { "WELSPECS.0.D_RADIUS", { "Length" } },
    { "COMPDAT.0.CONNECTION_TRANSMISSIBILITY_FACTOR", { "Transmissibility" } },
    { "COMPDAT.0.DIAMETER", { "Length" } },
    { "COMPDAT.0.Kh", { "PermThickness" } },
    { "COMPDAT.0.SKIN", { "Dimensionless" } },
    { "COMPDAT.0.D_FACTOR", { "DFactor" } },
    { "COMPDAT.0.PR", { "Length" } },
    { "WCONPROD.0.ORAT", { "LiquidRate" } },
    { "WCONPROD.0.WRAT", { "LiquidRate" } },
    { "WCONPROD.0.GRAT", { "GasRate" } },
    { "WCONPROD.0.LRAT", { "LiquidRate" } },
    { "WCONPROD.0.RESV", { "ReservoirRate" } },
    { "WCONPROD.0.BHP", { "Pressure" } },
    { "WCONPROD.0.THP", { "Pressure" } },
    { "WCONINJE.0.RESV", { "ReservoirRate" } },
    { "WCONINJE.0.BHP", { "Pressure" } },
    { "WCONINJE.0.THP", { "Pressure" } },
    { "WCONINJE.0.VAPOIL_C", { "OilGasRatio" } },
    { "WCONHIST.0.ORAT", { "LiquidRate" } },
    { "WCONHIST.0.WRAT", { "LiquidRate" } },
    { "WCONHIST.0.GRAT", { "GasRate" } },
    { "WCONHIST.0.THP", { "Pressure" } },
    { "WCONHIST.0.BHP", { "Pressure" } },
    { "WCONHIST.0.WGASRAT_HIS", { "GasRate" } },
    { "WCONHIST.0.NGLRAT_HIS", { "LiquidRate" } },
    { "WCONINJH.0.RATE", { "ContextDependent" } },
    { "WCONINJH.0.BHP", { "Pressure" } },
    { "WCONINJH.0.THP", { "Pressure" } },
    { "WCONINJH.0.VAPOIL_C", { "OilGasRatio" } },
    // SCHEDULE: groups
    { "GCONPROD.0.OIL_TARGET", { "LiquidRate" } },
    { "GCONPROD.0.WATER_TARGET", { "LiquidRate" } },
    { "GCONPROD.0.GAS_TARGET", { "GasRate" } },
    { "GCONPROD.0.LIQUID_TARGET", { "LiquidRate" } },
    { "GCONPROD.0.RESERVOIR_FLUID_TARGET", { "ReservoirRate" } },
    { "GCONPROD.0.RESERVOIR_VOLUME_BALANCE", { "Dimensionless" } },
    { "GCONINJE.0.RESV_TARGET", { "ReservoirRate" } },
    { "GCONINJE.0.REINJ_TARGET", { "Dimensionless" } },
    { "GCONINJE.0.VOIDAGE_TARGET", { "Dimensionless" } },
    { "GCONINJE.0.WETGAS_TARGET", { "GasRate" } },
    // SCHEDULE: time stepping, VFP
    { "TUNING.0.TSINIT", { "Time" } },
    { "TUNING.0.TSMAXZ", { "Time" } },
    { "TUNING.0.TSMINZ", { "Time" } },
    { "TUNING.0.TSMCHP", { "Time" } },
    { "TUNING.0.TMAXWC", { "Time" } },
    { "TUNING.2.DDPLIM", { "Pressure" } },
    { "TUNING.2.TRGDPR", { "Pressure" } },
    { "TUNING.2.XXXDPR", { "Pressure" } },
    { "TSTEP.0.step_list", { "Time" } },
    { "VFPPROD.0.DATUM_DEPTH", { "Length" } },
    { "VFPINJ.0.DATUM_DEPTH", { "Length" } },
};
// END ITEM_QUANTITIES

const std::vector<Template> TEMPLATES = {
    // ---- GRID (four cells each; the parser does not look at DIMENS)
    { "DX", "GRID", "DX\n <Length> <Length> <Length> <Length> /\n" },
    { "DY", "GRID", "DY\n <Length> <Length> <Length> <Length> /\n" },
    { "DZ", "GRID", "DZ\n <Length> <Length> <Length> <Length> /\n" },
    { "TOPS", "GRID", "TOPS\n <Length> <Length> /\n" },
    { "COORD", "GRID", "COORD\n <Length> <Length> <Length> <Length> <Length> <Length> /\n" },
    { "ZCORN", "GRID", "ZCORN\n <Length> <Length> <Length> <Length> /\n" },
    { "PERMX", "GRID", "PERMX\n <Permeability> <Permeability> <Permeability> /\n" },
    { "PERMY", "GRID", "PERMY\n <Permeability> <Permeability> /\n" },
    { "PERMZ", "GRID", "PERMZ\n <Permeability> <Permeability> /\n" },
    { "PORO", "GRID", "PORO\n <Dimensionless> <Dimensionless> /\n" },
    { "NTG", "GRID", "NTG\n <Dimensionless> <Dimensionless> /\n" },
    { "AQUCT", "GRID",       // 1 id, 2 datum depth, 3 initial pressure, 4 permeability, 5 porosity, 6 total compressibility, 7 inner radius,
                             // 8 thickness, 9 angle of influence (degrees), 10-11 table numbers, 12 salt concentration, 13 temperature
      "AQUCT\n 1 <Length> <Pressure> <Permeability> <Dimensionless> <Compressibility> <Length> <Length> <Dimensionless> 1 1 <Salinity> <Temperature> /\n/\n" },
    { "PORV", "EDIT", "PORV\n <ReservoirVolume> <ReservoirVolume> /\n" },
    { "TRANX", "EDIT", "TRANX\n <Transmissibility> <Transmissibility> /\n" },
    { "TRANY", "EDIT", "TRANY\n <Transmissibility> <Transmissibility> /\n" },
    { "TRANZ", "EDIT", "TRANZ\n <Transmissibility> <Transmissibility> /\n" },
    // ---- PROPS
    { "PVTO", "PROPS",       // Rs, then rows of (bubble point / oil pressure, Bo, viscosity)
      "PVTO\n <GasOilRatio> <Pressure> <LiquidFVF> <Viscosity>\n               <Pressure> <LiquidFVF> <Viscosity> /\n <GasOilRatio> <Pressure> <LiquidFVF> <Viscosity> /\n/\n" },
    { "PVTG", "PROPS",       // gas pressure, then rows of (Rv, Bg, viscosity)
      "PVTG\n <Pressure> <OilGasRatio> <GasFVF> <Viscosity>\n            <OilGasRatio> <GasFVF> <Viscosity> /\n <Pressure> <OilGasRatio> <GasFVF> <Viscosity> /\n/\n" },
    { "PVDO", "PROPS", "PVDO\n <Pressure> <LiquidFVF> <Viscosity>\n <Pressure> <LiquidFVF> <Viscosity> /\n" },
    { "PVDG", "PROPS", "PVDG\n <Pressure> <GasFVF> <Viscosity>\n <Pressure> <GasFVF> <Viscosity> /\n" },
    { "PVTW", "PROPS", "PVTW\n <Pressure> <LiquidFVF> <Compressibility> <Viscosity> <Compressibility> /\n" },
    { "PVCDO", "PROPS", "PVCDO\n <Pressure> <LiquidFVF> <Compressibility> <Viscosity> <Compressibility> /\n" },
    { "ROCK", "PROPS", "ROCK\n <Pressure> <Compressibility> /\n" },
    { "DENSITY", "PROPS", "DENSITY\n <Density> <Density> <Density> /\n" },
    { "SWOF", "PROPS", "SWOF\n <Dimensionless> <Dimensionless> <Dimensionless> <Pressure>\n <Dimensionless> <Dimensionless> <Dimensionless> <Pressure> /\n" },
    { "SGOF", "PROPS", "SGOF\n <Dimensionless> <Dimensionless> <Dimensionless> <Pressure>\n <Dimensionless> <Dimensionless> <Dimensionless> <Pressure> /\n" },
    { "SWFN", "PROPS", "SWFN\n <Dimensionless> <Dimensionless> <Pressure>\n <Dimensionless> <Dimensionless> <Pressure> /\n" },
    { "SGFN", "PROPS", "SGFN\n <Dimensionless> <Dimensionless> <Pressure>\n <Dimensionless> <Dimensionless> <Pressure> /\n" },
    { "SOF3", "PROPS", "SOF3\n <Dimensionless> <Dimensionless> <Dimensionless>\n <Dimensionless> <Dimensionless> <Dimensionless> /\n" },
    // ---- SOLUTION
    { "EQUIL", "SOLUTION",   // 1 datum depth, 2 pressure at datum, 3 OWC depth, 4 Pcow at OWC, 5 GOC depth, 6 Pcog at GOC
      "EQUIL\n <Length> <Pressure> <Length> <Pressure> <Length> <Pressure> 1* 1* 0 /\n" },
    { "RSVD", "SOLUTION", "RSVD\n <Length> <GasOilRatio>\n <Length> <GasOilRatio> /\n" },
    { "RVVD", "SOLUTION", "RVVD\n <Length> <OilGasRatio>\n <Length> <OilGasRatio> /\n" },
    { "PBVD", "SOLUTION", "PBVD\n <Length> <Pressure>\n <Length> <Pressure> /\n" },
    { "PDVD", "SOLUTION", "PDVD\n <Length> <Pressure>\n <Length> <Pressure> /\n" },
    { "RTEMPVD", "SOLUTION", "RTEMPVD\n <Length> <Temperature>\n <Length> <Temperature> /\n" },
    { "PRESSURE", "SOLUTION", "PRESSURE\n <Pressure> <Pressure> /\n" },
    { "SWAT", "SOLUTION", "SWAT\n <Dimensionless> <Dimensionless> /\n" },
    { "SGAS", "SOLUTION", "SGAS\n <Dimensionless> <Dimensionless> /\n" },
    { "RS", "SOLUTION", "RS\n <GasOilRatio> <GasOilRatio> /\n" },
    { "RV", "SOLUTION", "RV\n <OilGasRatio> <OilGasRatio> /\n" },
    { "TEMPI", "SOLUTION", "TEMPI\n <Temperature> <Temperature> /\n" },
    { "AQUFETP", "SOLUTION", // 1 id, 2 datum depth, 3 initial pressure, 4 initial water volume, 5 total compressibility, 6 productivity index,
                             // 7 table number, 8 salt concentration, 9 temperature
      "AQUFETP\n 1 <Length> <Pressure> <LiquidVolume> <Compressibility> <LiquidPI> 1 <Salinity> <Temperature> /\n/\n" },
    // ---- SCHEDULE
    { "WELSPECS", "SCHEDULE",   // 5 reference depth for BHP, 7 drainage radius
      "WELSPECS\n 'P1' 'G' 1 1 <Length> 'OIL' <Length> /\n 'I1' 'G' 2 2 <Length> 'GAS' /\n/\n" },
    { "COMPDAT", "SCHEDULE",    // 8 connection transmissibility factor, 9 wellbore diameter, 10 Kh, 11 skin, 12 D-factor, 13 direction, 14 r0
      "COMPDAT\n 'P1' 1 1 1 2 'OPEN' 1* <Transmissibility> <Length> <PermThickness> <Dimensionless> <DFactor> 'Z' <Length> /\n"
      " 'I1' 2 2 1 1 'OPEN' 1* 1* <Length> <PermThickness> /\n/\n" },
    { "WCONPROD", "SCHEDULE",   // 4 oil, 5 water, 6 gas, 7 liquid, 8 reservoir fluid volume rate, 9 BHP, 10 THP
      "WCONPROD\n 'P1' 'OPEN' 'ORAT' <LiquidRate> <LiquidRate> <GasRate> <LiquidRate> <ReservoirRate> <Pressure> <Pressure> /\n/\n" },
    { "WCONHIST", "SCHEDULE",   // 4 oil, 5 water, 6 gas, 7 VFP table, 8 ALQ, 9 THP, 10 BHP, 11 wet gas rate, 12 NGL rate
      "WCONHIST\n 'P1' 'OPEN' 'ORAT' <LiquidRate> <LiquidRate> <GasRate> 1* 1* <Pressure> <Pressure> <GasRate> <LiquidRate> /\n/\n" },
    { "WCONINJE", "SCHEDULE",   // 5 surface rate (phase dependent: not given), 6 reservoir rate, 7 BHP, 8 THP, 9 VFP, 10 vaporised oil in injected gas
      "WCONINJE\n 'I1' 'GAS' 'OPEN' 'RESV' 1* <ReservoirRate> <Pressure> <Pressure> 1* <OilGasRatio> /\n/\n" },
    { "WCONINJH", "SCHEDULE",   // 4 observed rate (phase dependent: not given), 5 BHP, 6 THP, 7 VFP, 8 vaporised oil in injected gas
      "WCONINJH\n 'I1' 'GAS' 'OPEN' 1* <Pressure> <Pressure> 1* <OilGasRatio> /\n/\n" },
    { "GCONPROD", "SCHEDULE",   // 3 oil, 4 water, 5 gas, 6 liquid target, 14 reservoir volume rate target, 15 reservoir volume balance fraction
      "GCONPROD\n 'G' 'ORAT' <LiquidRate> <LiquidRate> <GasRate> <LiquidRate> 'RATE' 'YES' 1* 1* 'NONE' 'NONE' 'NONE' <ReservoirRate> <Dimensionless> /\n/\n" },
    { "GCONINJE", "SCHEDULE",   // 4 surface rate (phase dependent: not given), 5 reservoir rate, 6 re-injection fraction, 7 voidage fraction, 13 wet gas rate
      "GCONINJE\n 'G' 'GAS' 'RESV' 1* <ReservoirRate> <Dimensionless> <Dimensionless> 'YES' 1* 1* 1* 1* <GasRate> /\n/\n" },
    { "TUNING", "SCHEDULE",     // record 1: 1 TSINIT 2 TSMAXZ 3 TSMINZ 4 TSMCHP ... 10 TMAXWC (times); record 3: 7 DDPLIM 9 TRGDPR 10 XXXDPR (pressures)
      "TUNING\n <Time> <Time> <Time> <Time> 1* 1* 1* 1* 1* <Time> /\n /\n 1* 1* 1* 1* 1* 1* <Pressure> 1* <Pressure> <Pressure> /\n" },
    { "VFPPROD", "SCHEDULE",    // record 1: 1 table, 2 datum depth
      "VFPPROD\n 1 <Length> 'OIL' 'WCT' 'GOR' 'THP' ' ' 'METRIC' 'BHP' /\n 1 2 /\n 10 /\n 0 /\n 100 /\n 0 /\n 1 1 1 1 5 6 /\n" },
    { "VFPINJ", "SCHEDULE",     // record 1: 1 table, 2 datum depth
      "VFPINJ\n 2 <Length> 'WAT' 'THP' 'METRIC' 'BHP' /\n 1 2 /\n 10 /\n 1 5 6 /\n" },
    { "TSTEP", "SCHEDULE", "TSTEP\n <Time> <Time> /\n" },
};

}
