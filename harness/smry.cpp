// C10 harness: summary files written by the writer's file layer (SummarySpecification,
// createSummaryFile + SEQHDR/MINISTEP/PARAMS exactly as SummaryImplementation::write does)
// and read by ESmry (whole-array and per-element paths), ExtESmry after make_esmry_file.
//
//   smry corr <seed> <tier> <outdir>   layout of the real PARAMS records vs the model's
//                                      per-element offsets (binary and formatted)
//   smry prop <seed> <tier> <outdir>   every (vector, ministep) value read back by all readers,
//                                      time axis, units, start date, report-step positions,
//                                      base-run chaining
#include "common/vh.hpp"

#include <opm/io/eclipse/EclFile.hpp>
#include <opm/io/eclipse/EclOutput.hpp>
#include <opm/io/eclipse/ESmry.hpp>
#include <opm/io/eclipse/EclUtil.hpp>
#include <opm/io/eclipse/ExtESmry.hpp>
#include <opm/io/eclipse/OutputStream.hpp>
#include <opm/io/eclipse/ExtSmryOutput.hpp>
#include <opm/input/eclipse/Parser/Parser.hpp>
#include <opm/input/eclipse/Deck/Deck.hpp>
#include <opm/input/eclipse/EclipseState/EclipseState.hpp>
#include <opm/common/utility/TimeService.hpp>

#include <algorithm>
#include <cmath>
#include <filesystem>
#include <iostream>
#include <set>

using namespace Opm::EclIO;
namespace fs = std::filesystem;
using SMSpec = OutputStream::SummarySpecification;

namespace {

struct Mini { int seq; int id; std::vector<float> params; };

std::string keyOf(int i) { char b[16]; std::snprintf(b, sizeof b, "W%05d", i); return b; }

SMSpec::Parameters makeParams(int nvec) {
    SMSpec::Parameters prm;
    prm.add("TIME", ":+:+:+:+", 0, "DAYS");
    for (int i = 1; i < nvec; ++i) prm.add("WBHP", keyOf(i), 0, "BARSA");
    return prm;
}

Opm::time_point startDate() { return Opm::TimeService::from_time_t(Opm::asTimeT(Opm::TimeStampUTC(Opm::TimeStampUTC::YMD{ 2019, 10, 1 }).hour(12).minutes(34).seconds(56))); }

std::vector<Mini> makeSteps(vh::Rng& r, int nvec, int nrep, int firstSeq, double t0) {
    std::vector<Mini> ms; int id = 0; double t = t0;
    for (int s = 0; s < nrep; ++s) {
        int nmini = r.range(1, 3);
        for (int k = 0; k < nmini; ++k) {
            Mini m; m.seq = firstSeq + s; m.id = id++;
            t += 0.5 + r.unit() * 30.0;
            m.params.resize(nvec);
            m.params[0] = (float) t;
            for (int i = 1; i < nvec; ++i) m.params[i] = (float) ((r.unit() - 0.3) * std::pow(10.0, r.range(-3, 6)));
            ms.push_back(m);
        }
    }
    return ms;
}

// Exactly what SummaryImplementation::write(const MiniStep&) + createSmryStreamIfNecessary do.
void writeData(const OutputStream::ResultSet& rs, bool fmt, bool unif, const std::vector<Mini>& ms) {
    std::unique_ptr<EclOutput> stream; int prevCreate = -1, prevRep = -1;
    for (auto& m : ms) {
        bool create = !stream || (!unif && prevCreate < m.seq);
        if (create) { stream = OutputStream::createSummaryFile(rs, m.seq, OutputStream::Formatted{ fmt }, OutputStream::Unified{ unif }); prevCreate = m.seq; }
        if (prevRep < m.seq) { stream->write("SEQHDR", std::vector<int>{ m.seq }); prevRep = m.seq; }
        stream->write("MINISTEP", std::vector<int>{ m.id });
        stream->write("PARAMS", m.params);
    }
}

void writeRunP(const OutputStream::ResultSet& rs, bool fmt, bool unif, const SMSpec::Parameters& prm, const std::array<int,3>& dims,
               const std::vector<Mini>& ms, const SMSpec::RestartSpecification& restart) {
    {
        SMSpec smspec(rs, OutputStream::Formatted{ fmt }, SMSpec::UnitConvention::Metric, dims, restart, startDate());
        smspec.write(prm);
    }
    writeData(rs, fmt, unif, ms);
}

void writeRun(const OutputStream::ResultSet& rs, bool fmt, bool unif, int nvec, const std::vector<Mini>& ms,
              const SMSpec::RestartSpecification& restart) {
    writeRunP(rs, fmt, unif, makeParams(nvec), { 10, 10, 3 }, ms, restart);
}

void cleanDir(const std::string& d) { for (auto& e : fs::directory_iterator(d)) fs::remove_all(e.path()); }

std::vector<int> vectorCounts(const std::string& tier, vh::Rng& r) {
    std::vector<int> ns = { 1, 2, 3, 4, 5, 999, 1000, 1001, 1002, 1999, 2000, 2001, 2002, 3999, 4000, 4001, 4002, 4500 };
    if (tier == "thorough") { for (int b : { 1000, 2000, 3000, 4000 }) for (int d = -5; d <= 5; ++d) ns.push_back(b + d); for (int i = 0; i < 10; ++i) ns.push_back(r.range(6, 4499)); ns.push_back(8001); }
    std::sort(ns.begin(), ns.end()); ns.erase(std::unique(ns.begin(), ns.end()), ns.end());
    return ns;
}

std::vector<int> probePositions(int nvec, vh::Rng& r) {
    std::vector<int> ps = { 0, 1, 2, 3, 4, 5, 998, 999, 1000, 1001, 1999, 2000, 2001, 3998, 3999, 4000, 4001, 4002, nvec - 2, nvec - 1 };
    for (int i = 0; i < 6; ++i) ps.push_back(r.range(0, std::max(0, nvec - 1)));
    std::vector<int> out; for (int p : ps) if (p >= 0 && p < nvec) out.push_back(p);
    std::sort(out.begin(), out.end()); out.erase(std::unique(out.begin(), out.end()), out.end());
    return out;
}

std::string esKey(int p) { return p == 0 ? std::string("TIME") : "WBHP:" + keyOf(p); }

bool feq(float a, float b, bool fmt) {
    if (!fmt) return std::memcmp(&a, &b, 4) == 0;
    if (a == b) return true;
    return std::fabs((double) a - (double) b) <= 1.5e-7 * std::fabs((double) a);   // 8 significant digits printed
}

} // namespace

int main(int argc, char** argv) {
    if (argc < 5) { std::cerr << "usage: smry corr|prop <seed> <tier> <outdir>\n"; return 2; }
    const std::string mode = argv[1];
    const uint64_t seed = std::strtoull(argv[2], nullptr, 10);
    const std::string tier = argv[3];
    const std::string outdir = argv[4];
    const std::string tmp = outdir + "/tmp";
    fs::create_directories(tmp);
    vh::Rng rng(seed);
    OutputStream::ResultSet rs{ tmp, "CASE" };

    if (mode == "corr") {
        vh::Sink sink(outdir);
        for (int nvec : vectorCounts(tier, rng)) {
            std::vector<float> params(nvec);
            for (auto& v : params) v = (float) ((rng.unit() - 0.3) * std::pow(10.0, rng.range(-3, 6)));
            // unformatted PARAMS record written by the real EclOutput
            std::string pb = tmp + "/P.UNSMRY", pf = tmp + "/P.FUNSMRY";
            { EclOutput out(pb, false, std::ios::out); out.write("PARAMS", params); }
            { EclOutput out(pf, true, std::ios::out); out.write("PARAMS", params); }
            std::string bin = vh::slurp(pb).substr(24);          // data part after the 24-byte header
            std::string txt = vh::slurp(pf).substr(31);          // data part after the 31-byte header line
            for (int p : probePositions(nvec, rng)) {
                uint32_t u; std::memcpy(&u, &params[p], 4);
                unsigned char be[4] = { (unsigned char)(u >> 24), (unsigned char)(u >> 16), (unsigned char)(u >> 8), (unsigned char) u };
                sink.emit("smry.elembin " + std::to_string(p) + " " + vh::hex(bin), vh::hex(be, 4));
                sink.count("elembin");
                // formatted: the p-th blank-separated token of the real text, right-aligned in 17 columns
                size_t pos = 0; std::string tok;
                for (int k = 0; k <= p; ++k) { pos = txt.find_first_not_of(" \n", pos); size_t e = txt.find_first_of(" \n", pos); tok = txt.substr(pos, e - pos); pos = e; }
                std::string field = std::string(17 - tok.size(), ' ') + tok;
                sink.emit("smry.elemfmt " + std::to_string(p) + " " + vh::hex(txt), vh::hex(field));
                sink.count("elemfmt");
            }
            sink.count(nvec > 4000 ? "nvec.gt4000" : nvec > 1000 ? "nvec.gt1000" : "nvec.le1000");
        }

        // formatted unified summary data file written by the real stream sequence against
        // Model/SmryFmt.lean (SEQHDR / MINISTEP / PARAMS through the formatted writer model);
        // the 17-character fields are rendered by the real EclOutput in a scratch file
        {
            int nruns = tier == "thorough" ? 40 : 8;
            for (int k = 0; k < nruns; ++k) {
                int nvec = rng.pick(std::vector<int>{ 1, 3, 4, 5, 17, 999, 1000, 1001, 2003 });
                if (nvec > 900 && tier != "thorough" && k > 2) nvec = rng.range(1, 40);
                int nsteps = rng.range(1, 6);
                std::vector<Mini> ms; int seq = rng.range(0, 2), id = 0;
                std::string op = "smryfmt.file -1 ";
                for (int i = 0; i < nsteps; ++i) {
                    if (i && rng.coin(1, 2)) seq += rng.range(1, 3);
                    Mini m; m.seq = seq; m.id = id++; m.params.resize(nvec);
                    for (auto& v : m.params) v = (float) ((rng.unit() - 0.3) * std::pow(10.0, rng.range(-5, 8)));
                    ms.push_back(m);
                    std::string pf = tmp + "/S.FUNSMRY";
                    { EclOutput out(pf, true, std::ios::out); out.write("PARAMS", m.params); }
                    std::string txt = vh::slurp(pf).substr(31), fields;
                    for (char c : txt) if (c != '\n') fields += c;
                    fs::remove(pf);
                    if (i) op += "|";
                    op += std::to_string(m.seq) + "," + std::to_string(m.id) + "," + vh::hex(fields);
                }
                cleanDir(tmp);
                writeData(rs, true, true, ms);
                sink.emit(op, vh::hex(vh::slurp(tmp + "/CASE.FUNSMRY")));
                sink.count("fmtfile");
                cleanDir(tmp);
            }
        }

        // ESMRY container: where the headers of RSTEP and of every V<k> really are in the files
        // written by ExtSmryOutput::write and by ESmry::make_esmry_file, against the position
        // arithmetic of ExtESmry::load_esmry (Gen/ExtESmrySeek.lean)
        {
            auto walk = [&](const std::string& bytes, std::map<std::string, size_t>& hdr, std::map<std::string, long>& cnt) {
                size_t p = 0;
                while (p + 24 <= bytes.size()) {
                    std::string name = bytes.substr(p + 4, 8);
                    uint32_t n = ((unsigned char) bytes[p + 12] << 24) | ((unsigned char) bytes[p + 13] << 16) | ((unsigned char) bytes[p + 14] << 8) | (unsigned char) bytes[p + 15];
                    std::string ty = bytes.substr(p + 16, 4);
                    eclArrType t = ty == "INTE" ? INTE : ty == "REAL" ? REAL : ty == "DOUB" ? DOUB : ty == "LOGI" ? LOGI : ty == "CHAR" ? CHAR : ty == "MESS" ? MESS : C0NN;
                    int esz = t == C0NN ? std::atoi(ty.substr(1).c_str()) : (t == DOUB || t == CHAR ? 8 : 4);
                    while (!name.empty() && name.back() == ' ') name.pop_back();
                    hdr[name] = p; cnt[name] = n;
                    p += 24 + sizeOnDiskBinary((int64_t) n, t, esz);
                }
            };
            auto emitFile = [&](const std::string& path, const std::string& kind) {
                std::string bytes = vh::slurp(path);
                std::map<std::string, size_t> hdr; std::map<std::string, long> cnt;
                walk(bytes, hdr, cnt);
                if (!hdr.count("RSTEP")) { sink.emit("extesmry.vpos 0 0 0", "no-RSTEP-in-" + kind); return; }
                for (int k = 0; hdr.count("V" + std::to_string(k)); ++k) {
                    if (k > 12 && k % 97 && hdr.count("V" + std::to_string(k + 1))) continue;
                    sink.emit("extesmry.vpos " + std::to_string(hdr["RSTEP"]) + " " + std::to_string(cnt["RSTEP"]) + " " + std::to_string(k), std::to_string(hdr["V" + std::to_string(k)]));
                    sink.count("extesmry.vpos." + kind);
                }
            };
            int nruns = tier == "thorough" ? 12 : 4;
            for (int r = 0; r < nruns; ++r) {
                int nvec = rng.pick(std::vector<int>{ 2, 5, 40, 300 });
                int nsteps = rng.pick(std::vector<int>{ 1, 3, 999, 1000, 1001, 2500 });
                if (tier != "thorough" && r > 1) nsteps = rng.range(1, 30);
                // (a) ExtSmryOutput::write
                cleanDir(tmp);
                {
                    std::string deckPath = tmp + "/MINI.DATA";
                    vh::spit(deckPath, "RUNSPEC\nDIMENS\n 2 2 1 /\nOIL\nWATER\nSTART\n 1 JAN 2020 /\nGRID\nDX\n 4*10 /\nDY\n 4*10 /\nDZ\n 4*10 /\nTOPS\n 4*1000 /\nPORO\n 4*0.3 /\nPERMX\n 4*100 /\nPROPS\nSCHEDULE\n");
                    Opm::Parser parser; auto deck = parser.parseFile(deckPath);
                    Opm::EclipseState es(deck);
                    std::vector<std::string> keys = { "TIME" }, units = { "DAYS" };
                    for (int k = 1; k < nvec; ++k) { keys.push_back("WBHP:" + keyOf(k)); units.push_back("BARSA"); }
                    ExtSmryOutput out(keys, units, es, 1577836800);
                    std::vector<float> row(nvec);
                    for (int st = 0; st < nsteps; ++st) { for (auto& v : row) v = (float) rng.unit(); row[0] = (float) st; out.write(row, st / 3, st + 1 == nsteps); }
                }
                if (fs::exists(tmp + "/MINI.ESMRY")) emitFile(tmp + "/MINI.ESMRY", "extsmryoutput");
                else { sink.emit("extesmry.vpos 0 0 0", "no-file-written"); }
                // (b) ESmry::make_esmry_file from SMSPEC/UNSMRY
                cleanDir(tmp);
                {
                    std::vector<Mini> ms; for (int st = 0; st < std::min(nsteps, 40); ++st) { Mini m; m.seq = st / 3; m.id = st; m.params.resize(nvec); for (auto& v : m.params) v = (float) rng.unit(); m.params[0] = (float) st; ms.push_back(m); }
                    writeRun(rs, false, true, nvec, ms, SMSpec::RestartSpecification{});
                    { ESmry es(tmp + "/CASE.SMSPEC"); es.make_esmry_file(); }
                    emitFile(tmp + "/CASE.ESMRY", "make_esmry_file");
                }
                cleanDir(tmp);
            }
        }
        // combine / split of summary numbers through the real functions
        for (int i = 0; i < 200; ++i) {
            int n1 = rng.range(0, 32767), n2 = rng.range(-10, 60000);
            int c = combineSummaryNumbers(n1, n2);
            auto [a, b] = splitSummaryNumber(c);
            sink.emit("smry.combine " + std::to_string(n1) + " " + std::to_string(n2), std::to_string(c) + " " + std::to_string(a) + " " + std::to_string(b));
            sink.count("combine");
        }
        sink.writeStats(outdir + "/stats.json");
        return 0;
    }

    if (mode == "prop") {
        vh::PropLog log(outdir + "/prop.txt");
        long nfiles = 0;
        auto counts = vectorCounts(tier, rng);
        for (int fmti = 0; fmti < 2; ++fmti) for (int unifi = 0; unifi < 2; ++unifi) {
            bool fmt = fmti, unif = unifi;
            for (int nvec : counts) {
                if (!unif && nvec > 1002 && tier != "thorough" && nvec != 4001) continue;   // separate files: fewer big cases in quick
                cleanDir(tmp);
                auto ms = makeSteps(rng, nvec, rng.range(2, 4), 1, 0.0);
                std::string key = std::string(fmt ? "fmt" : "bin") + (unif ? ".unif" : ".sep") + ".nvec" + std::to_string(nvec);
                try {
                    writeRun(rs, fmt, unif, nvec, ms, { "", -1 });
                    std::string spec = tmp + "/CASE." + (fmt ? "FSMSPEC" : "SMSPEC");
                    auto probes = probePositions(nvec, rng);
                    bool good = true;
                    // (i) whole-array path: every vector, every ministep
                    {
                        ESmry es(spec); es.loadData();
                        if ((int) es.numberOfTimeSteps() != (int) ms.size()) { log.fail(key, "ESmry: " + std::to_string(es.numberOfTimeSteps()) + " ministeps, wrote " + std::to_string(ms.size())); good = false; }
                        for (int p = 0; good && p < nvec; ++p) {
                            auto& v = es.get(esKey(p));
                            for (size_t t = 0; t < ms.size(); ++t) if (!feq(ms[t].params[p], v[t], fmt)) { log.fail(key, "ESmry whole-array: vector " + std::to_string(p) + " ministep " + std::to_string(t) + " read " + vh::hexF32(v[t]) + " wrote " + vh::hexF32(ms[t].params[p])); good = false; break; }
                        }
                        if (good) {
                            if (es.get_unit(esKey(std::min(1, nvec - 1))) != (nvec > 1 ? "BARSA" : "DAYS")) { log.fail(key, "unit"); good = false; }
                            if (es.startdate() != startDate()) { log.fail(key, "start date"); good = false; }
                            // report-step positions: last ministep of each report step
                            auto atr = es.get_at_rstep("TIME");
                            std::vector<float> want; for (size_t t = 0; t < ms.size(); ++t) if (t + 1 == ms.size() || ms[t + 1].seq != ms[t].seq) want.push_back(ms[t].params[0]);
                            if (atr.size() != want.size()) { log.fail(key, "report-step positions: " + std::to_string(atr.size()) + " vs " + std::to_string(want.size())); good = false; }
                            else for (size_t k = 0; k < want.size(); ++k) if (!feq(want[k], atr[k], fmt)) { log.fail(key, "report-step position " + std::to_string(k)); good = false; break; }
                        }
                    }
                    // (ii) per-element seek path on a fresh reader
                    if (good) {
                        ESmry es(spec);
                        std::vector<std::string> keys; for (int p : probes) keys.push_back(esKey(p));
                        es.loadData(keys);
                        for (int p : probes) { auto& v = es.get(esKey(p));
                            for (size_t t = 0; t < ms.size(); ++t) if (!feq(ms[t].params[p], v[t], fmt)) { log.fail(key, "ESmry per-element seek: vector " + std::to_string(p) + " ministep " + std::to_string(t) + " read " + vh::hexF32(v[t]) + " wrote " + vh::hexF32(ms[t].params[p])); good = false; break; }
                            if (!good) break; }
                    }
                    // (iii) SMSPEC -> ESMRY conversion and the ESMRY reader
                    if (good) {
                        { ESmry es(spec); es.make_esmry_file(); }
                        ExtESmry ex(tmp + "/CASE.ESMRY"); ex.loadData();
                        for (int p : probes) { auto& v = ex.get(esKey(p));
                            if (v.size() != ms.size()) { log.fail(key, "ExtESmry: series length"); good = false; break; }
                            for (size_t t = 0; t < ms.size(); ++t) if (!feq(ms[t].params[p], v[t], fmt)) { log.fail(key, "ExtESmry: vector " + std::to_string(p) + " ministep " + std::to_string(t)); good = false; break; }
                            if (!good) break; }
                        if (good && ex.startdate() != startDate()) { log.fail(key, "ExtESmry start date"); good = false; }
                    }
                    // (iv) load *sequences* on one reader object: partial loads followed by wider ones must not
                    //      disturb what is returned (stale per-object state)
                    if (good && nvec >= 3) {
                        auto cmp = [&](auto& rd, int p, const char* what) {
                            auto& v = rd.get(esKey(p));
                            if (v.size() != ms.size()) { log.fail(key, std::string(what) + ": series length of vector " + std::to_string(p)); return false; }
                            for (size_t t = 0; t < ms.size(); ++t) if (!feq(ms[t].params[p], v[t], fmt)) { log.fail(key, std::string(what) + ": vector " + std::to_string(p) + " ministep " + std::to_string(t) + " read " + vh::hexF32(v[t]) + " wrote " + vh::hexF32(ms[t].params[p])); return false; }
                            return true; };
                        std::vector<int> some; for (int p : probes) if (rng.coin()) some.push_back(p);
                        if (some.empty()) some.push_back(probes.back());
                        std::vector<std::string> someKeys, allKeys; for (int p : some) someKeys.push_back(esKey(p)); for (int p : probes) allKeys.push_back(esKey(p));
                        {   // ExtESmry: get(TIME) then loadData(); loadData(subset) then loadData(superset, with repeats)
                            ExtESmry a(tmp + "/CASE.ESMRY"); (void) a.get("TIME"); a.loadData();
                            for (int p : probes) if (!(good = cmp(a, p, "ExtESmry get(TIME);loadData()"))) break;
                            if (good) { ExtESmry b(tmp + "/CASE.ESMRY"); b.loadData(someKeys); auto wide = allKeys; wide.insert(wide.end(), someKeys.begin(), someKeys.end()); b.loadData(wide);
                                for (int p : probes) if (!(good = cmp(b, p, "ExtESmry loadData(subset);loadData(superset)"))) break; }
                            if (good) { ExtESmry c(tmp + "/CASE.ESMRY"); (void) c.dates(); for (int p : some) (void) c.get(esKey(p)); c.loadData(allKeys);
                                for (int p : probes) if (!(good = cmp(c, p, "ExtESmry dates();get(..);loadData(list)"))) break; }
                        }
                        if (good) { // ESmry: same shapes
                            ESmry a(spec); (void) a.get("TIME"); a.loadData();
                            for (int p : probes) if (!(good = cmp(a, p, "ESmry get(TIME);loadData()"))) break;
                            if (good) { ESmry b(spec); b.loadData(someKeys); auto wide = allKeys; wide.insert(wide.end(), someKeys.begin(), someKeys.end()); b.loadData(wide);
                                for (int p : probes) if (!(good = cmp(b, p, "ESmry loadData(subset);loadData(superset)"))) break; }
                        }
                    }
                    if (good) log.ok();
                } catch (const std::exception& e) { log.fail(key, std::string("threw: ") + e.what()); }
                ++nfiles;
            }
        }
        // block and connection vectors on non-square grids: the key carries (i,j,k) decoded from NUMS
        for (int fmti = 0; fmti < 2; ++fmti) for (int g = 0; g < (tier == "thorough" ? 6 : 3); ++g) {
            bool fmt = fmti;
            cleanDir(tmp);
            std::array<int,3> dims = g == 0 ? std::array<int,3>{ 13, 22, 11 } : std::array<int,3>{ rng.range(2, 30), rng.range(2, 30), rng.range(1, 12) };
            std::string key = std::string(fmt ? "fmt" : "bin") + ".blockkeys.grid" + std::to_string(dims[0]) + "x" + std::to_string(dims[1]) + "x" + std::to_string(dims[2]);
            try {
                struct BC { std::string kw, wg; int i, j, k; };
                std::vector<BC> bcs = { { "BPR", ":+:+:+:+", 1, 1, 1 }, { "BPR", ":+:+:+:+", dims[0], 1, 1 }, { "BPR", ":+:+:+:+", 1, 2, 1 }, { "BPR", ":+:+:+:+", dims[0], dims[1], dims[2] },
                                        { "BSWAT", ":+:+:+:+", 1, dims[1], 1 }, { "COFR", "W1", 1, dims[1], dims[2] }, { "COFR", "W1", dims[0], 2, 1 } };
                for (int x = 0; x < 5; ++x) bcs.push_back({ x % 2 ? "CWFR" : "BPR", x % 2 ? "W2" : ":+:+:+:+", rng.range(1, dims[0]), rng.range(1, dims[1]), rng.range(1, dims[2]) });
                SMSpec::Parameters prm; prm.add("TIME", ":+:+:+:+", 0, "DAYS");
                std::vector<std::string> want; std::set<std::string> seen;
                std::vector<BC> used;
                for (auto& b : bcs) {
                    std::string k = b.kw[0] == 'B' ? b.kw + ":" + std::to_string(b.i) + "," + std::to_string(b.j) + "," + std::to_string(b.k)
                                                   : b.kw + ":" + b.wg + ":" + std::to_string(b.i) + "," + std::to_string(b.j) + "," + std::to_string(b.k);
                    if (!seen.insert(k).second) continue;
                    int num = b.i + dims[0] * ((b.j - 1) + dims[1] * (b.k - 1));
                    prm.add(b.kw, b.wg, num, b.kw[0] == 'B' ? "BARSA" : "SM3/DAY"); want.push_back(k); used.push_back(b);
                }
                int nvec = 1 + (int) want.size();
                auto ms = makeSteps(rng, nvec, 3, 1, 0.0);
                writeRunP(rs, fmt, true, prm, dims, ms, { "", -1 });
                std::string spec = tmp + "/CASE." + (fmt ? "FSMSPEC" : "SMSPEC");
                bool good = true;
                { ESmry es(spec); es.loadData();
                  for (size_t q = 0; good && q < want.size(); ++q) {
                      if (!es.hasKey(want[q])) { log.fail(key, "ESmry has no key " + want[q]); good = false; break; }
                      auto& v = es.get(want[q]);
                      for (size_t t = 0; t < ms.size(); ++t) if (!feq(ms[t].params[q + 1], v[t], fmt)) { log.fail(key, "ESmry " + want[q] + " returns another vector's series"); good = false; break; } } }
                if (good) { { ESmry es(spec); es.make_esmry_file(); }
                  ExtESmry ex(tmp + "/CASE.ESMRY"); ex.loadData();
                  for (size_t q = 0; good && q < want.size(); ++q) {
                      if (!ex.hasKey(want[q])) { log.fail(key, "ExtESmry has no key " + want[q]); good = false; break; }
                      auto& v = ex.get(want[q]);
                      for (size_t t = 0; t < ms.size(); ++t) if (!feq(ms[t].params[q + 1], v[t], fmt)) { log.fail(key, "ExtESmry " + want[q] + " returns another vector's series"); good = false; break; } } }
                if (good) log.ok();
            } catch (const std::exception& e) { log.fail(key, std::string("threw: ") + e.what()); }
            ++nfiles;
        }
        // base-run chaining: BASE writes report steps 1..4, RST restarts from step 2 and writes 3..5
        for (int fmti = 0; fmti < 2; ++fmti) for (int nvec : { 3, 1001 }) {
            bool fmt = fmti;
            cleanDir(tmp);
            std::string key = std::string(fmt ? "fmt" : "bin") + ".baserun.nvec" + std::to_string(nvec);
            try {
                OutputStream::ResultSet base{ tmp, "BASE" }, rst{ tmp, "RST" };
                auto msb = makeSteps(rng, nvec, 4, 1, 0.0);
                int restartStep = 2;
                double tRestart = 0; for (auto& m : msb) if (m.seq <= restartStep) tRestart = m.params[0];
                auto msr = makeSteps(rng, nvec, 3, restartStep + 1, tRestart);
                writeRun(base, fmt, true, nvec, msb, { "", -1 });
                writeRun(rst, fmt, true, nvec, msr, { "BASE", restartStep });
                ESmry es(tmp + "/RST." + (fmt ? "FSMSPEC" : "SMSPEC"), true);
                es.loadData();
                std::vector<float> want; for (auto& m : msb) if (m.seq <= restartStep) want.push_back(m.params[nvec - 1]);
                for (auto& m : msr) want.push_back(m.params[nvec - 1]);
                auto& v = es.get(esKey(nvec - 1));
                if (v.size() != want.size()) log.fail(key, "series length " + std::to_string(v.size()) + " expected " + std::to_string(want.size()));
                else { bool good = true; for (size_t t = 0; t < want.size(); ++t) if (!feq(want[t], v[t], fmt)) { log.fail(key, "ministep " + std::to_string(t)); good = false; break; } if (good) log.ok(); }
            } catch (const std::exception& e) { log.fail(key, std::string("threw: ") + e.what()); }
            ++nfiles;
        }

        // base-run chaining in general: random restart step, several ministeps per report step, a
        // chain of two restarts (C restarts from B, which restarted from A), read by the legacy reader
        // (SMSPEC) and by the ESMRY reader from ESMRY files written the way the simulator writes them
        {
            int nchains = tier == "thorough" ? 30 : 6;
            for (int c = 0; c < nchains; ++c) {
                cleanDir(tmp);
                const int nvec = rng.pick(std::vector<int>{ 2, 5, 1001 });
                const bool nested = c % 2 == 1;
                std::string key = std::string("bin.chain.") + (nested ? "nested" : "single") + ".nvec" + std::to_string(nvec);
                try {
                    OutputStream::ResultSet A{ tmp, "RUNA" }, B{ tmp, "RUNB" }, C{ tmp, "RUNC" };
                    int nA = rng.range(3, 6), rAB = rng.range(1, nA - 1);
                    auto msA = makeSteps(rng, nvec, nA, 1, 0.0);
                    double tAB = 0; for (auto& m : msA) if (m.seq <= rAB) tAB = m.params[0];
                    int nB = rng.range(2, 5);
                    auto msB = makeSteps(rng, nvec, nB, rAB + 1, tAB);
                    writeRun(A, false, true, nvec, msA, { "", -1 });
                    // every other chain: run B lists its well vectors in reverse order (column p of B
                    // holds well nvec-p); the series of one well must still be A's history followed by B's
                    const bool permuted = !nested && nvec > 2 && (c % 4 == 0);
                    if (permuted) {
                        SMSpec::Parameters prm; prm.add("TIME", ":+:+:+:+", 0, "DAYS");
                        for (int i = 1; i < nvec; ++i) prm.add("WBHP", keyOf(nvec - i), 0, "BARSA");
                        writeRunP(B, false, true, prm, { 10, 10, 3 }, msB, { "RUNA", rAB });
                    } else
                    writeRun(B, false, true, nvec, msB, { "RUNA", rAB });
                    std::vector<float> want; for (auto& m : msA) if (m.seq <= rAB) want.push_back(m.params[0]);
                    std::vector<float> wantW; if (permuted) { for (auto& m : msA) if (m.seq <= rAB) wantW.push_back(m.params[1]); for (auto& m : msB) wantW.push_back(m.params[nvec - 1]); }
                    std::string last = "RUNB";
                    std::vector<Mini> msC; int rBC = 0;
                    if (nested) {
                        rBC = rng.range(rAB + 1, rAB + nB - 1);
                        double tBC = 0; for (auto& m : msB) if (m.seq <= rBC) { want.push_back(m.params[0]); tBC = m.params[0]; }
                        msC = makeSteps(rng, nvec, rng.range(1, 3), rBC + 1, tBC);
                        writeRun(C, false, true, nvec, msC, { "RUNB", rBC });
                        for (auto& m : msC) want.push_back(m.params[0]);
                        last = "RUNC";
                    } else for (auto& m : msB) want.push_back(m.params[0]);
                    const std::string info = " (A: " + std::to_string(nA) + " report steps, B restarts at " + std::to_string(rAB) + " with " + std::to_string(nB) + " steps" + (nested ? ", C restarts at " + std::to_string(rBC) : std::string()) + ")";
                    auto cmp = [&](const std::vector<float>& v, const std::string& reader) {
                        if (v.size() != want.size()) { log.fail(key + "." + reader, "TIME series length " + std::to_string(v.size()) + " expected " + std::to_string(want.size()) + info); return; }
                        for (size_t t = 0; t < want.size(); ++t) if (std::memcmp(&want[t], &v[t], 4) != 0) { log.fail(key + "." + reader, "ministep " + std::to_string(t) + " TIME " + std::to_string(v[t]) + " expected " + std::to_string(want[t]) + info); return; }
                        log.ok();
                    };
                    { ESmry es(tmp + "/" + last + ".SMSPEC", true); es.loadData(); cmp(es.get("TIME"), "esmry"); }
                    // a vector list naming the same vector twice
                    { ESmry es(tmp + "/" + last + ".SMSPEC", true); es.loadData({ "TIME", "TIME" }); cmp(es.get("TIME"), "esmry.duplicate-name"); }
                    if (permuted) {
                        auto cmpW = [&](const std::vector<float>& v, const std::string& reader) {
                            if (v.size() != wantW.size()) { log.fail(key + ".permuted." + reader, "series length " + std::to_string(v.size()) + " expected " + std::to_string(wantW.size()) + info); return; }
                            for (size_t t = 0; t < wantW.size(); ++t) if (std::memcmp(&wantW[t], &v[t], 4) != 0) { log.fail(key + ".permuted." + reader, "WBHP:" + keyOf(1) + " ministep " + std::to_string(t) + " is " + std::to_string(v[t]) + " expected " + std::to_string(wantW[t]) + info); return; }
                            log.ok();
                        };
                        { ESmry es(tmp + "/RUNB.SMSPEC", true); es.loadData(); cmpW(es.get("WBHP:" + keyOf(1)), "esmry.whole"); }
                        { ESmry es(tmp + "/RUNB.SMSPEC", true); cmpW(es.get("WBHP:" + keyOf(1)), "esmry.vector"); }
                    }
                    // ESMRY files as the simulator writes them (ExtSmryOutput: RESTART / RSTNUM from the deck's
                    // RESTART keyword; RSTEP = 1 on the ministep that completes a report step)
                    auto writeEsmry = [&](const std::string& name, const std::vector<Mini>& ms, const std::string& base, int step) {
                        std::string deckPath = tmp + "/" + name + ".DATA";
                        if (!base.empty()) { EclOutput rf(tmp + "/" + base + ".UNRST", false, std::ios::out); rf.write("SEQNUM", std::vector<int>{ step }); }
                        vh::spit(deckPath, "RUNSPEC\nDIMENS\n 2 2 1 /\nOIL\nWATER\nUNIFIN\nUNIFOUT\nSTART\n 1 JAN 2020 /\nGRID\nDX\n 4*10 /\nDY\n 4*10 /\nDZ\n 4*10 /\nTOPS\n 4*1000 /\nPORO\n 4*0.3 /\nPERMX\n 4*100 /\nPROPS\nSOLUTION\n"
                                 + (base.empty() ? std::string() : "RESTART\n '" + base + "' " + std::to_string(step) + " /\n") + "SCHEDULE\n");
                        Opm::Parser parser; auto deck = parser.parseFile(deckPath);
                        Opm::EclipseState es(deck);
                        std::vector<std::string> keys = { "TIME" }, units = { "DAYS" };
                        for (int k = 1; k < nvec; ++k) { keys.push_back("WBHP:" + keyOf(k)); units.push_back("BARSA"); }
                        ExtSmryOutput out(keys, units, es, 1577836800);
                        for (size_t i = 0; i < ms.size(); ++i) out.write(ms[i].params, (i + 1 == ms.size() || ms[i + 1].seq != ms[i].seq) ? 1 : 0, i + 1 == ms.size());
                    };
                    writeEsmry("RUNA", msA, "", 0);
                    writeEsmry("RUNB", msB, "RUNA", rAB);
                    if (nested) writeEsmry("RUNC", msC, "RUNB", rBC);
                    { ExtESmry ex(tmp + "/" + last + ".ESMRY", true); ex.loadData(); cmp(ex.get("TIME"), "extesmry"); }
                } catch (const std::exception& e) { log.fail(key, std::string("threw: ") + e.what()); }
                ++nfiles;
            }
        }
        std::ofstream st(outdir + "/prop_stats.json");
        st << "{\n  \"checked\": " << log.checked << ",\n  \"failed\": " << log.failed << ",\n  \"runs\": " << nfiles << "\n}\n";
        return 0;
    }
    return 2;
}
