// Correspondence harness for the deck text models (C01, C19, lexer part of C20).
//
//   deck corr <seed> <tier> <outdir>      ops.txt / impl.txt / stats.json
//   deck corrlex <seed> <tier> <outdir>   the lexical part only (function level on arbitrary
//                                         bytes + keyword assembly), for the C20 check, which
//                                         runs it against the UBSan / bounds-checked build
//   deck canon <model.txt> <out.txt>      rewrites `t<hex>` double tokens of the model's
//                                         answers into bit patterns with the real
//                                         readValueToken<double>
//
// (i)   function level, through the OPM_COMMON_VERIF hook at the end of Parser.cpp
//       (Opm::verif::lex_*), RawRecord, isStarToken/StarToken, readValueToken<T>:
//       random byte lines (quotes, --, /, tabs, commas, CR, 8-bit bytes, empty);
// (ii)  record level: the schema of real keywords is dumped from the Parser
//       (ParserKeyword/ParserRecord/ParserItem), random records in random layouts are
//       parsed by the real RawRecord + ParserRecord::parse and by the model;
// (iii) writer: the DeckRecords obtained in (ii) are written by the real
//       DeckOutput/DeckRecord::write (with and without line splitting) and by the
//       model, byte for byte; the written bytes are re-parsed by both.
#include "common/vh.hpp"

#include <opm/input/eclipse/Parser/Parser.hpp>
#include <opm/input/eclipse/Parser/ParserKeyword.hpp>
#include <opm/input/eclipse/Parser/ParserRecord.hpp>
#include <opm/input/eclipse/Parser/ParserItem.hpp>
#include <opm/input/eclipse/Parser/ParseContext.hpp>
#include <opm/input/eclipse/Parser/InputErrorAction.hpp>
#include <opm/input/eclipse/Parser/ErrorGuard.hpp>
#include <opm/input/eclipse/Deck/Deck.hpp>
#include <opm/input/eclipse/Deck/DeckKeyword.hpp>
#include <opm/input/eclipse/Deck/DeckRecord.hpp>
#include <opm/input/eclipse/Deck/DeckItem.hpp>
#include <opm/input/eclipse/Deck/DeckOutput.hpp>
#include <opm/input/eclipse/Deck/UDAValue.hpp>
#include <opm/input/eclipse/Units/UnitSystem.hpp>
#include <opm/input/eclipse/Utility/Typetools.hpp>
#include <opm/common/OpmLog/KeywordLocation.hpp>
#include "opm/input/eclipse/Parser/raw/RawRecord.hpp"
#include "opm/input/eclipse/Parser/raw/StarToken.hpp"

#include <algorithm>
#include <cstdlib>
#include <filesystem>
#include <iostream>
#include <sstream>

#include <sys/resource.h>
#include <sys/wait.h>
#include <unistd.h>

namespace Opm { namespace verif {
    std::string lex_strip_comments(const std::string&);
    std::string lex_trim(const std::string&);
    std::string lex_fast_clean(const std::string&);
    std::string lex_clean(const std::vector<std::pair<std::string, std::string>>&, const std::string&);
    std::string lex_del_after_first_slash(const std::string&);
    std::string lex_del_after_last_slash(const std::string&, std::size_t, std::size_t);
    std::string lex_make_deck_name(const std::string&);
    bool lex_isTerminator(const std::string&);
    bool lex_isTerminatedRecordString(const std::string&);
    bool lex_getline(const std::string&, std::size_t, std::string&, std::size_t&);
}}

using vh::hex;

static std::string unhex(const std::string& h) {
    if (h == "-") return "";
    std::string out;
    auto val = [](char c) { return c <= '9' ? c - '0' : c - 'a' + 10; };
    for (size_t i = 0; i + 1 < h.size(); i += 2) out.push_back(static_cast<char>(val(h[i]) * 16 + val(h[i + 1])));
    return out;
}

// ---------------------------------------------------------------- generators

// set by `corrlex` (the C20 stage): every third line is made of uniformly random bytes
static bool g_wild = false;

static std::string randLine(vh::Rng& r, int maxLen, bool newlines) {
    static const std::string common = "ABCabc019 \t ,'\"--//**.+-eEdD\r_";
    int n = r.coin(1, 12) ? 0 : r.range(1, maxLen);
    std::string s;
    if (g_wild && r.coin(1, 3)) {
        for (int i = 0; i < n; ++i) {
            char c = static_cast<char>(r.range(0, 255));
            if (c == '\n' && !newlines) c = '/';
            s.push_back(c);
        }
        return s;
    }
    for (int i = 0; i < n; ++i) {
        int k = r.range(0, 99);
        if (k < 70) s.push_back(common[r.below(common.size())]);
        else if (k < 76) s.push_back('\'');
        else if (k < 80) s.push_back('-');
        else if (k < 84) s.push_back('/');
        else if (k < 88) s.push_back(' ');
        else if (k < 91) s.push_back(static_cast<char>(r.range(128, 255)));
        else if (k < 93) s.push_back(static_cast<char>(r.range(1, 31)));
        else if (k < 95 && newlines) s.push_back('\n');
        else if (k < 96) s.push_back('\0');
        else s.push_back(static_cast<char>(r.range(32, 126)));
    }
    return s;
}

static std::string randIntTok(vh::Rng& r) {
    switch (r.range(0, 9)) {
    case 0: return "0";
    case 1: return "-" + std::to_string(r.range(0, 100000));
    case 2: return "+" + std::to_string(r.range(0, 100));
    case 3: return "2147483647";
    case 4: return "-2147483648";
    case 5: return r.coin() ? "2147483648" : "99999999999";
    case 6: return "007";
    default: return std::to_string(r.range(0, 5000));
    }
}

static std::string randDblTok(vh::Rng& r) {
    static const std::vector<std::string> fixed = {
        "1", "1.0", ".5", "5.", "1e3", "1.5E-3", "1.0D+2", "2.5d-1", "-0.0", "1e300", "1e-300", "+3.25",
        "0", "-7", "100000", "1234.5678", "0.1", "3.141592653589793", "1E5", "6.02e23", "1e-5", "nan", "inf", "-inf",
        "1e400", "4.9e-324", "123456789012", "0.30000000000000004", "1e+2"};
    if (r.coin(1, 2)) return fixed[r.below(fixed.size())];
    std::ostringstream os;
    if (r.coin(1, 4)) os << '-';
    os << r.range(0, 9999);
    if (r.coin()) os << '.' << r.range(0, 999);
    if (r.coin(1, 3)) os << "eEdD"[r.below(4)] << (r.coin() ? "-" : "") << r.range(0, 30);
    return os.str();
}

static std::string randWord(vh::Rng& r) {
    static const std::vector<std::string> w = {"OPEN", "SHUT", "W1", "PROD-1", "G_1", "FIELD", "ORAT", "abc", "WU_X", "FUOPR", "SUMMARY", "GUX", "X", "P*", "*", "YES", "NO", "1A", "A.B"};
    return w[r.below(w.size())];
}

static std::string randStrTok(vh::Rng& r) {
    switch (r.range(0, 9)) {
    case 0: return "'" + randWord(r) + " " + randWord(r) + "'";
    case 1: return "'" + randWord(r) + "'";
    case 2: return "'A/B'";
    case 3: return "'P*'";
    case 4: return "''";
    case 5: return "' X '";
    case 6: return "'--x'";
    default: return randWord(r);
    }
}

// ---------------------------------------------------------------- schema

struct ItemS { char ty; bool all; bool hasDef; std::string def; };

static bool dumpItem(const Opm::ParserItem& it, ItemS& s) {
    using Opm::type_tag;
    s.all = it.sizeType() == Opm::ParserItem::item_size::ALL;
    s.hasDef = it.hasDefault();
    switch (it.dataType()) {
    case type_tag::integer: s.ty = 'i'; if (s.hasDef) s.def = std::to_string(it.getDefault<int>()); break;
    case type_tag::fdouble: s.ty = 'd'; if (s.hasDef) s.def = vh::hexF64(it.getDefault<double>()); break;
    case type_tag::string: s.ty = 's'; if (s.hasDef) s.def = hex(it.getDefault<std::string>()); break;
    case type_tag::raw_string: s.ty = 'r'; if (s.hasDef) return false; break;
    case type_tag::uda: s.ty = 'u';
        if (s.hasDef) {
            const auto& u = it.getDefault<Opm::UDAValue>();
            if (!u.is<double>()) return false;
            s.def = vh::hexF64(u.get<double>());
        }
        break;
    default: return false;
    }
    return true;
}

static std::string schemaString(const std::vector<ItemS>& sch) {
    if (sch.empty()) return "-";
    std::string out;
    for (size_t i = 0; i < sch.size(); ++i) {
        if (i) out += ";";
        out.push_back(sch[i].ty);
        out.push_back(sch[i].all ? 'A' : 'S');
        if (sch[i].hasDef) out += ":" + sch[i].def;
    }
    return out;
}

// canonical dump of a DeckRecord, same syntax as the model's showRecord.
// dblTok: print doubles as `t<hex of the token the writer prints>` instead of bits.
static std::string fmtDouble10(double d) {
    std::ostringstream os; os.precision(10); os << d; return os.str();
}

static std::string dumpRecord(const Opm::DeckRecord& rec, bool dblTok) {
    if (rec.size() == 0) return "-";
    std::string out;
    for (size_t k = 0; k < rec.size(); ++k) {
        if (k) out += ";";
        const auto& item = rec.getItem(k);
        const auto& st = item.getValueStatus();
        if (st.empty()) { out += "-"; continue; }
        for (size_t i = 0; i < st.size(); ++i) {
            if (i) out += ",";
            char sc = st[i] == Opm::value::status::deck_value ? 'D' : st[i] == Opm::value::status::valid_default ? 'F' : 'E';
            out.push_back(sc);
            if (sc == 'E') { out += "x"; continue; }
            switch (item.getType()) {
            case Opm::type_tag::integer: out += "i" + std::to_string(item.getData<int>()[i]); break;
            case Opm::type_tag::fdouble: {
                double d = item.getData<double>()[i];
                out += "d" + (dblTok && sc == 'D' ? "t" + hex(fmtDouble10(d)) : vh::hexF64(d));
                break; }
            case Opm::type_tag::string: out += "s" + hex(item.getData<std::string>()[i]); break;
            case Opm::type_tag::raw_string: out += "r" + hex(static_cast<const std::string&>(item.getData<Opm::RawString>()[i])); break;
            case Opm::type_tag::uda: {
                const auto& u = item.getData<Opm::UDAValue>()[i];
                if (u.is<double>()) { double d = u.get<double>(); out += "n" + (dblTok && sc == 'D' ? "t" + hex(fmtDouble10(d)) : vh::hexF64(d)); }
                else out += "q" + hex(u.get<std::string>());
                break; }
            default: out += "?";
            }
        }
    }
    return out;
}

struct RealParse {
    Opm::ParseContext ctx;
    Opm::UnitSystem active{Opm::UnitSystem::UnitType::UNIT_TYPE_METRIC};
    Opm::UnitSystem deflt{Opm::UnitSystem::UnitType::UNIT_TYPE_METRIC};
    Opm::KeywordLocation loc{"KW", "file", 1};

    // record text + the byte behind it live in one buffer, as in the parser
    bool parse(const Opm::ParserRecord& pr, const std::string& text, char next, Opm::DeckRecord& out) {
        std::string buf = text; buf.push_back(next); buf.push_back('\n');
        Opm::ErrorGuard errors;
        try {
            Opm::RawRecord raw(std::string_view(buf.data(), text.size()), loc);
            out = pr.parse(ctx, errors, raw, active, deflt, loc);
            errors.clear();
            return true;
        } catch (const std::exception&) { errors.clear(); return false; }
        catch (...) { errors.clear(); return false; }
    }
};

static std::string joinTokens(vh::Rng& r, const std::vector<std::string>& toks, int style) {
    // style 0: single blanks; 1: random separator runs incl. tab, comma, CR, LF
    auto sep = [&]() -> std::string {
        if (style == 0) return " ";
        static const std::string seps = " \t,\r\n  ";
        int n = r.range(1, 3); std::string s;
        for (int i = 0; i < n; ++i) s.push_back(seps[r.below(seps.size())]);
        return s;
    };
    std::string out;
    if (style == 1 && r.coin()) out += sep();
    for (size_t i = 0; i < toks.size(); ++i) { if (i) out += sep(); out += toks[i]; }
    if (r.coin()) out += sep();
    return out;
}

static std::string valueToken(vh::Rng& r, char ty) {
    if (r.coin(1, 40)) return randLine(r, 6, false);        // garbage
    switch (ty) {
    case 'i': return r.coin(1, 25) ? randDblTok(r) : randIntTok(r);
    case 'd': return r.coin(1, 25) ? randWord(r) : randDblTok(r);
    case 's': return randStrTok(r);
    case 'r': return r.coin() ? randStrTok(r) : (r.coin() ? randDblTok(r) : "3*X");
    default: return r.coin() ? randDblTok(r) : randStrTok(r);
    }
}

static std::vector<std::string> randRecordTokens(vh::Rng& r, const std::vector<ItemS>& sch, vh::Sink& sink) {
    std::vector<std::string> toks;
    size_t i = 0;
    while (i < sch.size()) {
        const auto& it = sch[i];
        if (it.all) {
            int n = r.range(0, 12);
            for (int k = 0; k < n; ++k) {
                int c = r.range(0, 9);
                if (c == 0) { toks.push_back(std::to_string(r.range(1, 4)) + "*"); sink.count("tok.nstar"); }
                else if (c == 1) { toks.push_back(std::to_string(r.range(1, 4)) + "*" + valueToken(r, it.ty)); sink.count("tok.nstarv"); }
                else toks.push_back(valueToken(r, it.ty));
            }
            ++i;
            continue;
        }
        int c = r.range(0, 19);
        if (c == 0) { sink.count("rec.early_end"); break; }
        else if (c <= 2) { toks.push_back("1*"); ++i; sink.count("tok.1star"); }
        else if (c == 3) { int n = r.range(1, 4); toks.push_back(std::to_string(n) + "*"); i += n; sink.count("tok.nstar"); }
        else if (c == 4) { int n = r.range(1, 3); toks.push_back(std::to_string(n) + "*" + valueToken(r, it.ty)); i += n; sink.count("tok.nstarv"); }
        else if (c == 5 && r.coin(1, 4)) { toks.push_back(r.coin() ? "*" : (r.coin() ? "0*" : "*5")); ++i; sink.count("tok.oddstar"); }
        else { toks.push_back(valueToken(r, it.ty)); ++i; }
    }
    if (r.coin(1, 30)) { toks.push_back("77"); sink.count("rec.extra_token"); }
    return toks;
}

// ---------------------------------------------------------------- corr

static const char* KEYWORDS[] = {
    "TABDIMS", "DIMENS", "EQLDIMS", "WELLDIMS", "REGDIMS", "WELSPECS", "COMPDAT", "WCONPROD", "WCONINJE",
    "GRUPTREE", "EQUIL", "PVTW", "DENSITY", "ROCK", "PVTO", "PVDG", "SWOF", "PORO", "PERMX", "SATNUM", "ACTNUM",
    "DX", "TSTEP", "UDQ", "WCONHIST", "WELTARG", "GCONPROD", "START", "TITLE", "MULTIPLY", "EQUALS", "COPY",
    "WSEGVALV", "COMPSEGS", "WELSEGS", "VFPPROD", "TUNING", "ENDSCALE", "GRIDOPTS", "RPTRST", "ACTIONX", "WLIST",
    "UDQDIMS", "NETBALAN", "BRANPROP", "NODEPROP", "WTEST", "GLIFTOPT", "WLIFTOPT", "AQUCT", "AQUANCON", "INCLUDE"};

// lexOnly (mode `corrlex`, used by the C20 check): function level on arbitrary bytes and the
// keyword assembly level only, twice as many lines, wild byte distribution.
static int corr(uint64_t seed, const std::string& tier, const std::string& outdir, bool lexOnly) {
    vh::Rng r(seed);
    vh::Sink sink(outdir);
    const bool thorough = tier == "thorough";
    g_wild = lexOnly;
    const int nLines = (thorough ? 300000 : 30000) * (lexOnly ? 2 : 1);
    const int nRecords = lexOnly ? 0 : (thorough ? 200000 : 20000);

    Opm::Parser parser;
    const auto codeKws = parser.codeKeywords();
    std::string codeArg = "-";
    {
        std::string s;
        for (size_t i = 0; i < codeKws.size(); ++i) { if (i) s += ","; s += hex(codeKws[i].first) + ":" + hex(codeKws[i].second); }
        if (!s.empty()) codeArg = s;
    }

    {
        std::vector<std::string> l;
        for (const auto& kw : codeKws) l.push_back(hex(kw.first) + ":" + hex(kw.second));
        std::sort(l.begin(), l.end());
        std::string a;
        for (size_t i = 0; i < l.size(); ++i) { if (i) a += ","; a += l[i]; }
        sink.emit("deck.codekws x", a);
    }

    // (i) function level
    for (int n = 0; n < nLines; ++n) {
        int which = r.range(0, 17);
        std::string l = randLine(r, r.coin(1, 8) ? 80 : 24, false);
        switch (which) {
        case 0: sink.emit("deck.strip " + hex(l), hex(Opm::verif::lex_strip_comments(l))); break;
        case 1: sink.emit("deck.stripm " + hex(l), hex(Opm::verif::lex_strip_comments(l))); break;
        case 2: sink.emit("deck.strip " + hex(l), hex(Opm::Parser::stripComments(l))); break;
        case 3: sink.emit("deck.trim " + hex(l), hex(Opm::verif::lex_trim(l))); break;
        case 4: sink.emit("deck.first " + hex(l), hex(Opm::verif::lex_del_after_first_slash(l))); break;
        case 5: sink.emit("deck.firstm " + hex(l), hex(Opm::verif::lex_del_after_first_slash(l))); break;
        case 6: {
            size_t off = r.below(l.size() + 1), len = r.below(l.size() - off + 1);
            sink.emit("deck.last " + hex(l) + " " + std::to_string(off) + " " + std::to_string(len),
                      hex(Opm::verif::lex_del_after_last_slash(l, off, len)));
            break; }
        case 7: sink.emit("deck.name " + hex(l), hex(Opm::verif::lex_make_deck_name(l))); break;
        case 8: {
            if (r.coin(1, 3)) l = "/";
            sink.emit("deck.isterm " + hex(l), Opm::verif::lex_isTerminator(l) ? "1" : "0"); break; }
        case 9: {
            if (l.empty()) l = "/";
            if (r.coin(1, 3)) l += "/";
            sink.emit("deck.isrec " + hex(l), Opm::verif::lex_isTerminatedRecordString(l) ? "1" : "0"); break; }
        case 10: {
            std::string t = randLine(r, 120, true) + "\n";
            sink.emit("deck.fclean " + hex(t), hex(Opm::verif::lex_fast_clean(t))); break; }
        case 11: {
            std::string t = randLine(r, 60, true);
            if (!codeKws.empty() && r.coin(2, 3)) {
                const auto& kw = codeKws[r.below(codeKws.size())];
                t += (r.coin() ? "\n" : " ") + kw.first + randLine(r, 30, true);
                if (r.coin(2, 3)) t += kw.second + (r.coin() ? "\n" : " x\n") + randLine(r, 20, true);
            }
            t += "\n";
            sink.emit("deck.clean " + codeArg + " " + hex(t), hex(Opm::verif::lex_clean(codeKws, t)));
            sink.count("fn.clean");
            break; }
        case 12: {
            std::string t = randLine(r, 40, true) + "\n";
            std::string line; size_t rest = 0;
            bool ok = Opm::verif::lex_getline(t, 0, line, rest);
            sink.emit("deck.getline " + hex(t), ok ? hex(line) + " " + hex(t.substr(rest)) : "none"); break; }
        case 13: {
            // record text followed by the byte the parser has behind the view
            std::string rec = r.coin() ? randLine(r, 30, true) : joinTokens(r, {randStrTok(r), randDblTok(r), randStrTok(r), randIntTok(r)}, 1);
            if (r.coin(1, 3)) {
                // n*'quoted value with separators', closed / unterminated / closed before the first separator
                std::string sq = std::to_string(r.range(0, 12)) + "*'" + randWord(r);
                switch (r.range(0, 4)) {
                case 0: sq += " " + randWord(r) + "'"; break;
                case 1: sq += ",\t" + randWord(r) + "\n x'" + randWord(r); break;
                case 2: sq += " " + randWord(r); break;                 // no closing quote
                case 3: sq += "'" + randWord(r) + " y'"; break;         // closes before the separator
                default: sq += "' '" + randWord(r) + " z"; break;       // second quoted token left open
                }
                rec = (r.coin() ? randIntTok(r) + " " : std::string()) + sq + (r.coin() ? " " + randStrTok(r) : std::string());
                sink.count("fn.split.starquote");
            }
            char next = r.coin(3, 4) ? '/' : '\n';
            std::string buf = rec; buf.push_back(next); buf.push_back('\n');
            Opm::KeywordLocation loc("K", "f", 1);
            std::string ans;
            try {
                Opm::RawRecord raw(std::string_view(buf.data(), rec.size()), loc);
                if (raw.size() == 0) ans = "none";
                for (size_t i = 0; i < raw.size(); ++i) { if (i) ans += ","; ans += hex(std::string(raw.getItem(i))); }
                sink.count("fn.split.ok");
            } catch (const std::exception&) { ans = "err"; sink.count("fn.split.err"); }
            sink.emit("deck.split " + hex(rec) + " " + hex(std::string(1, next)), ans);
            // the same answer is expected from the pointer-level mirror of the tokeniser
            // (Model/LexPtr.lean: offsets, checked iterator arithmetic; `ub` never expected)
            sink.emit("deck.splitp " + hex(rec) + " " + hex(std::string(1, next)), ans);
            break; }
        case 14: {
            std::string t;
            switch (r.range(0, 5)) {
            case 0: t = std::to_string(r.range(0, 30)) + "*"; break;
            case 1: t = std::to_string(r.range(0, 30)) + "*" + randDblTok(r); break;
            case 2: t = "*" + (r.coin() ? std::string() : randWord(r)); break;
            case 3: t = r.coin() ? "2147483647*1" : (r.coin() ? "2147483648*" : "99999999999999999999*2"); break;
            case 4: t = randLine(r, 8, false); break;
            default: t = randDblTok(r);
            }
            std::string cs, vs, ans;
            if (!Opm::isStarToken(t, cs, vs)) ans = "plain";
            else {
                try { Opm::StarToken st(t, cs, vs); ans = "rep " + std::to_string(st.count()) + " " + hex(st.valueString()); }
                catch (const std::exception&) { ans = "bad"; }
            }
            sink.emit("deck.star " + hex(t), ans);
            break; }
        case 15: {
            std::string t = r.coin() ? randStrTok(r) : randLine(r, 8, false);
            std::string ans;
            try { ans = "ok " + hex(Opm::readValueToken<std::string>(t)); } catch (const std::exception&) { ans = "err"; }
            sink.emit("deck.rdstr " + hex(t), ans);
            break; }
        case 16: {
            std::string t = r.coin() ? randIntTok(r) : (r.coin() ? randDblTok(r) : randLine(r, 6, false));
            std::string ans;
            try { ans = "ok " + std::to_string(Opm::readValueToken<int>(t)); } catch (const std::exception&) { ans = "err"; }
            sink.emit("deck.rdint " + hex(t), ans);
            break; }
        default: {
            std::string t;
            if (r.coin()) t = randDblTok(r);
            else {
                static const std::string alpha = "0123456789+-.eEdDnNaAiIfF()tTyY ";
                int n = r.range(0, 8);
                for (int i = 0; i < n; ++i) t.push_back(alpha[r.below(alpha.size() - (r.coin(9, 10) ? 1 : 0))]);
            }
            std::string ans;
            try { (void) Opm::readValueToken<double>(t); ans = "1"; } catch (const std::exception&) { ans = "0"; }
            sink.emit("deck.okdbl " + hex(t), ans);
        }
        }
        sink.count("fn.ops");
    }

    // (ii) + (iii) record level with the real schemas
    struct Rec { std::string kw; size_t idx; const Opm::ParserRecord* pr; std::vector<ItemS> sch; std::string schs; bool data; };
    std::vector<Rec> recs;
    for (const char* name : KEYWORDS) {
        if (!parser.isRecognizedKeyword(name)) { sink.count("schema.unknown_keyword"); continue; }
        const auto& kw = parser.getKeyword(name);
        size_t idx = 0;
        for (auto it = kw.begin(); it != kw.end(); ++it, ++idx) {
            Rec rc; rc.kw = name; rc.idx = idx; rc.pr = &*it; rc.data = kw.isDataKeyword();
            bool ok = true;
            for (const auto& pi : *it) { ItemS s; if (!dumpItem(pi, s)) { ok = false; break; } rc.sch.push_back(s); }
            if (!ok) { sink.count("schema.skipped_record"); continue; }
            rc.schs = schemaString(rc.sch);
            recs.push_back(rc);
            sink.count("schema.records");
            for (const auto& s : rc.sch) { sink.count(std::string("schema.item.") + s.ty + (s.all ? "A" : "S") + (s.hasDef ? "D" : "N")); }
        }
    }
    if (recs.empty()) { std::cerr << "no schema could be dumped\n"; return 2; }

    RealParse real;
    for (int n = 0; n < nRecords; ++n) {
        const Rec& rc = recs[r.below(recs.size())];
        auto toks = randRecordTokens(r, rc.sch, sink);
        int style = r.range(0, 1);
        std::string text = joinTokens(r, toks, style);
        char next = '/';
        Opm::DeckRecord dr;
        bool ok = real.parse(*rc.pr, text, next, dr);
        sink.emit("deck.parse " + rc.schs + " " + hex(text) + " " + hex(std::string(1, next)), ok ? dumpRecord(dr, false) : "err");
        sink.count(ok ? "rec.parse.ok" : "rec.parse.err");
        if (!ok) continue;

        // (iii) writer.  Strings containing a quote cannot be produced by the parser
        // from quoted tokens, but bare words may carry one: keep them (the writer is
        // compared byte for byte whatever the value is).
        bool split = r.coin();
        std::ostringstream os;
        {
            Opm::DeckOutput out(os, 10);
            out.start_keyword("K", split);
            dr.write(out);
        }
        std::string written = os.str().substr(2);   // drop "K\n"
        std::string recDump = dumpRecord(dr, true);
        sink.emit("deck.write " + std::string(split ? "1" : "0") + " " + recDump, hex(written));
        sink.count("rec.write");
        // re-parse what was written: record view = text before the " /\n" terminator's slash
        if (written.size() >= 2 && written.compare(written.size() - 2, 2, "/\n") == 0) {
            std::string view = written.substr(0, written.size() - 2);
            Opm::DeckRecord dr2;
            bool ok2 = real.parse(*rc.pr, view, '/', dr2);
            sink.emit("deck.wparse " + rc.schs + " " + (split ? "1" : "0") + " " + recDump, ok2 ? dumpRecord(dr2, false) : "err");
            sink.count(ok2 ? "rec.wparse.ok" : "rec.wparse.err");
        }
    }
    // (iv) keyword level: the real Parser::parseString on one keyword (plus a sentinel keyword)
    // against clean -> lines -> RawKeyword state machine -> ParserKeyword::parse of the model.
    struct KwS { std::string name; char st; bool raw; std::string mn; size_t size; bool alt, dbl; std::string schemas; std::vector<std::vector<ItemS>> recs;
                 std::string dimsKw; int dimsItem = -1; size_t nrecSchemas = 0; };
    std::vector<KwS> kws;
    static const char* KW2[] = {"TABDIMS", "DIMENS", "EQLDIMS", "WELLDIMS", "REGDIMS", "WELSPECS", "COMPDAT", "WCONPROD", "WCONINJE",
        "GRUPTREE", "PORO", "PERMX", "SATNUM", "ACTNUM", "DX", "TSTEP", "UDQ", "WCONHIST", "WELTARG", "GCONPROD", "START",
        "MULTIPLY", "EQUALS", "COPY", "WSEGVALV", "TUNING", "ENDSCALE", "GRIDOPTS", "RPTRST", "WLIST", "UDQDIMS", "NETBALAN",
        "BRANPROP", "NODEPROP", "WTEST", "GLIFTOPT", "WLIFTOPT", "VFPPROD", "VFPINJ", "MULTREGT", "WOPR", "FOPR", "GOPR", "BRINE",
        "OIL", "WATER", "RUNSPEC", "DATES", "COMPORD", "WPIMULT", "WELOPEN", "GEFAC", "WEFAC", "ACTDIMS", "MINPV", "PINCH",
        "UDT", "CECONT", "GECONT", "GCUTBACT", "MPFNNC", "FAULTS", "MULTFLT", "THPRES", "PVTO", "PVTG", "EQUIL", "PVTW", "DENSITY", "SWOF", "SGOF", "PVDG", "PVDO", "STOG", "PVTWSALT", "RPTSCHED", "RPTSOL", "NEXTSTEP", "DRSDT", "WRFTPLT", "GCONINJE", "WGRUPCON", "CSKIN"};
    for (const char* name : KW2) {
        if (!parser.isRecognizedKeyword(name)) continue;
        const auto& kw = parser.getKeyword(name);
        if (kw.isCodeKeyword() || !kw.requiredKeywords().empty() || !kw.prohibitedKeywords().empty()) { sink.count("kw.skipped"); continue; }
        KwS k; k.name = name; k.raw = kw.rawStringKeyword(); k.alt = kw.isAlternatingKeyword(); k.dbl = kw.isDoubleRecordKeyword();
        k.mn = "-"; k.size = 0;
        switch (kw.getSizeType()) {
        case Opm::SLASH_TERMINATED: k.st = 'S'; break;
        case Opm::UNKNOWN: k.st = 'U'; break;
        case Opm::DOUBLE_SLASH_TERMINATED: k.st = 'D'; break;
        case Opm::OTHER_KEYWORD_IN_DECK: {
            // sized by an item of another keyword: the harness writes that keyword in front
            // and hands the resulting target size to the model (newRawKeyword is not modelled)
            const auto& ks = kw.getKeywordSize();
            k.st = 0;
            if (ks.size_shift() != 0 || !parser.isRecognizedKeyword(ks.keyword())) break;
            const auto& dk = parser.getKeyword(ks.keyword());
            if (dk.getSizeType() != Opm::FIXED || dk.getFixedSize() != 1) break;
            const auto& drec = dk.getRecord(0);
            int idx = 0, found = -1;
            for (const auto& di : drec) { if (di.name() == ks.item()) found = idx; ++idx; }
            if (found < 0 || found > 3) break;
            bool intsBefore = true; idx = 0;
            for (const auto& di : drec) { if (idx <= found && di.dataType() != Opm::type_tag::integer) intsBefore = false; ++idx; }
            if (!intsBefore) break;
            k.dimsKw = ks.keyword(); k.dimsItem = found;
            k.st = kw.isTableCollection() ? 'T' : 'F';
            if (kw.min_size().has_value()) k.mn = std::to_string(*kw.min_size());
            break; }
        default:
            if (kw.getSizeType() != Opm::FIXED && !kw.hasFixedSize()) { k.st = 0; break; }
            if (kw.getSizeType() == Opm::SPECIAL_CASE_ROCK || kw.getSizeType() == Opm::FIXED_CODE) { k.st = 0; break; }
            k.st = 'F'; k.size = kw.getFixedSize();
            if (kw.min_size().has_value()) k.mn = std::to_string(*kw.min_size());
        }
        if (!k.st) { sink.count("kw.skipped"); continue; }
        bool ok = true;
        std::string sch;
        for (auto it = kw.begin(); it != kw.end(); ++it) {
            std::vector<ItemS> rs;
            for (const auto& pi : *it) { ItemS s; if (!dumpItem(pi, s)) { ok = false; break; } rs.push_back(s); }
            if (!ok) break;
            if (!sch.empty()) sch += "|";
            sch += schemaString(rs);
            k.recs.push_back(rs);
        }
        if (!ok) { sink.count("kw.skipped"); continue; }
        k.schemas = k.recs.empty() ? "none" : sch;
        k.nrecSchemas = k.recs.size();
        kws.push_back(k);
        sink.count(std::string("kw.class.") + k.st + (k.raw ? "raw" : "") + (k.dbl ? "dbl" : "") + (k.alt ? "alt" : ""));
    }
    const std::string sentinel = "OIL";
    const int nKw = lexOnly ? (thorough ? 30000 : 4000) : (thorough ? 60000 : 8000);
    struct PoolEntry { size_t kw; std::string text; };
    std::vector<PoolEntry> pool;
    for (int n = 0; n < nKw && !kws.empty(); ++n) {
        const KwS& k = kws[r.below(kws.size())];
        auto schemaAt = [&](size_t i) -> const std::vector<ItemS>& {
            static const std::vector<ItemS> none;
            if (k.recs.empty()) return none;
            if (i < k.recs.size()) return k.recs[i];
            return k.alt ? k.recs[i % k.recs.size()] : k.recs.back();
        };
        auto oneRecord = [&](size_t idx) {
            auto toks = randRecordTokens(r, schemaAt(idx), sink);
            if (k.raw) { for (auto& t : toks) if (t.find('/') != std::string::npos && r.coin()) t = "X"; }
            std::string rec = joinTokens(r, toks, r.coin() ? 1 : 0);
            rec += r.coin(1, 6) ? "/" : " /";
            if (r.coin(1, 4)) rec += k.raw ? " text after" : " text / after 'slash";
            if (r.coin(1, 5)) rec += " -- comment '";
            rec += "\n";
            if (r.coin(1, 8)) rec += r.coin() ? "\n" : " \t -- only a comment\n";
            return rec;
        };
        std::string text, prefix;
        size_t targetSize = k.size;
        if (!k.dimsKw.empty()) {
            int val = r.range(1, 3);
            prefix = k.dimsKw + "\n";
            for (int i = 0; i < k.dimsItem; ++i) prefix += " " + std::to_string(r.range(1, 3));
            prefix += " " + std::to_string(val) + " /\n";
            targetSize = static_cast<size_t>(val);
            if (k.alt) targetSize *= k.nrecSchemas;
        }
        if (r.coin(1, 6)) text += "\n";
        size_t nrec = 0;
        switch (k.st) {
        case 'T': nrec = targetSize; break;
        case 'F': nrec = targetSize; if (r.coin(1, 10) && nrec > 0) --nrec; else if (r.coin(1, 20)) ++nrec; break;
        case 'S': nrec = r.range(0, 3); break;
        case 'U': nrec = r.range(1, 3); break;
        default: nrec = r.range(1, 4);
        }
        for (size_t i = 0; i < nrec; ++i) {
            if (k.st == 'T') {
                // one table: a few records, then the table terminator
                int nr = r.range(1, 3);
                for (int j = 0; j < nr; ++j) text += oneRecord(j == 0 ? 0 : 1);
                if (!r.coin(1, 12)) text += "/\n";
                continue;
            }
            text += oneRecord(i);
            if (k.st == 'D' && r.coin(1, 3)) text += "/\n";
        }
        if (k.st == 'S' || k.st == 'D') { if (!r.coin(1, 15)) text += "/\n"; if (k.st == 'D' && !r.coin(1, 15)) text += "/\n"; }
        if (k.st == 'F' && r.coin(1, 12)) text += "/\n";
        bool withSentinel = (k.st == 'U') ? !r.coin(1, 10) : r.coin(1, 3);
        if (withSentinel) text += (r.coin() ? "OIL\n" : "oil  -- x\n");

        // names the real parser recognises among the first words of the lines
        std::string names = "-";
        {
            std::vector<std::string> found;
            size_t pos = 0;
            while (pos <= text.size()) {
                size_t e = text.find('\n', pos); if (e == std::string::npos) e = text.size();
                std::string line = Opm::verif::lex_trim(Opm::verif::lex_strip_comments(text.substr(pos, e - pos)));
                std::string dn = Opm::verif::lex_make_deck_name(line);
                bool rec = false;
                try { rec = !dn.empty() && parser.isRecognizedKeyword(dn); } catch (...) { rec = false; }
                if (rec && std::find(found.begin(), found.end(), dn) == found.end()) found.push_back(dn);
                pos = e + 1;
            }
            std::string s2;
            for (size_t i = 0; i < found.size(); ++i) { if (i) s2 += ","; s2 += hex(found[i]); }
            if (!s2.empty()) names = s2;
        }
        std::string ans;
        {
            Opm::ParseContext ctx; Opm::ErrorGuard errors;
            try {
                auto deck = parser.parseString(prefix + k.name + "\n" + text, ctx, errors);
                errors.clear();
                std::string next;
                const size_t at = prefix.empty() ? 0 : 1;
                bool good = deck.size() >= at + 1 && deck[at].name() == k.name && (at == 0 || deck[0].name() == k.dimsKw);
                if (good && deck.size() == at + 1) next = "-";
                else if (good && deck.size() == at + 2 && deck[at + 1].name() == sentinel) next = hex(sentinel);
                else good = false;
                if (!good) ans = "err";
                else {
                    const auto& dk = deck[at];
                    std::string recs;
                    for (size_t i = 0; i < dk.size(); ++i) { if (i) recs += "|"; recs += dumpRecord(dk.getRecord(i), false); }
                    if (dk.size() == 0) recs = "none";
                    ans = "ok " + recs + " next=" + next;
                }
            } catch (const std::exception&) { errors.clear(); ans = "err"; }
            catch (...) { errors.clear(); ans = "err"; }
        }
        sink.count(ans == "err" ? "kw.parse.err" : "kw.parse.ok");
        if (ans != "err" && pool.size() < 4000)
            pool.push_back({static_cast<size_t>(&k - &kws[0]), prefix + k.name + "\n" + text});
        // (v) deck level writer: operator<<(ostream, Deck) against the model's mirror of the
        // DeckOutput state machine (default_count / row_count survive from record to record and
        // into a TITLE keyword).
        if (ans != "err" && !lexOnly) {
            std::string text2 = prefix + k.name + "\n" + text;
            bool withTitle = r.coin(1, 2);
            if (withTitle) text2 += "TITLE\n  " + randWord(r) + (r.coin() ? " " + randWord(r) + " 3" : "") + "\n";
            Opm::ParseContext ctx; Opm::ErrorGuard errors;
            try {
                auto deck = parser.parseString(text2, ctx, errors);
                errors.clear();
                std::ostringstream os;
                os << deck;
                std::string arg;
                for (size_t i = 0; i < deck.size(); ++i) {
                    const auto& dk = deck[i];
                    const auto& pk = parser.getParserKeywordFromDeckName(dk.name());
                    bool st = true;
                    if (pk.hasFixedSize()) st = false;
                    const auto& ks = pk.getKeywordSize();
                    if (ks.size_type() == Opm::OTHER_KEYWORD_IN_DECK && !ks.table_collection()) st = false;
                    if (ks.size_type() == Opm::UNKNOWN) st = false;
                    if (i) arg += "~";
                    arg += hex(dk.name()) + ":" + (dk.isDataKeyword() ? "1" : "0") + ":" + (st ? "1" : "0") + ":";
                    if (dk.size() == 0) arg += "none";
                    for (size_t j = 0; j < dk.size(); ++j) { if (j) arg += "|"; arg += dumpRecord(dk.getRecord(j), true); }
                }
                sink.emit("deck.wdeck " + arg, hex(os.str()));
                sink.count(withTitle ? "deck.write.with_title" : "deck.write");
            } catch (const std::exception&) { errors.clear(); sink.count("deck.write.parse_err"); }
            catch (...) { errors.clear(); sink.count("deck.write.parse_err"); }
        }
        sink.emit("deck.kw " + std::string(1, k.st) + " " + (k.raw ? "1" : "0") + " " + k.mn + " " + std::to_string(targetSize) + " " +
                  (k.alt ? "1" : "0") + " " + (k.dbl ? "1" : "0") + " " + k.schemas + " " + names + " " + hex(sentinel) + " " + hex(text), ans);
    }

    // (vi) deck level: several keywords, END, and INCLUDE splitting into temporary files, real
    // Parser::parseString against the model's keyword loop (`Deck.parseLoop`).
    if (!lexOnly) {
        auto sizeSpec = [&](const KwS& k) -> std::string {
            if (!k.dimsKw.empty()) return "O" + hex(k.dimsKw) + "." + std::to_string(k.dimsItem) + "." + (k.st == 'T' ? "T" : "F");
            switch (k.st) { case 'S': return "S"; case 'U': return "U"; case 'D': return "D"; default: return "F" + std::to_string(k.size); }
        };
        auto kwDef = [&](const std::string& name, const std::string& size, bool raw, const std::string& mn, bool alt, bool dbl, const std::string& schemas) {
            return hex(name) + "=" + size + "," + (raw ? "1" : "0") + "," + mn + "," + (alt ? "1" : "0") + "," + (dbl ? "1" : "0") + "," + schemas;
        };
        // definitions of helper keywords taken from the real parser
        auto helperDef = [&](const std::string& name) -> std::string {
            const auto& kw = parser.getKeyword(name);
            std::string sch;
            for (auto it = kw.begin(); it != kw.end(); ++it) {
                std::vector<ItemS> rs;
                for (const auto& pi : *it) { ItemS s2; if (!dumpItem(pi, s2)) return ""; rs.push_back(s2); }
                if (!sch.empty()) sch += "|";
                sch += schemaString(rs);
            }
            if (sch.empty()) sch = "none";
            if (kw.getSizeType() == Opm::SLASH_TERMINATED && !kw.hasFixedSize()) return kwDef(name, "S", false, "-", false, false, sch);
            if (!kw.hasFixedSize()) return "";
            return kwDef(name, "F" + std::to_string(kw.getFixedSize()), false, kw.min_size().has_value() ? std::to_string(*kw.min_size()) : "-", false, false, sch);
        };
        const std::string tmpdir = outdir + "/tmp";
        std::string mk = "mkdir -p '" + tmpdir + "'";
        if (std::system(mk.c_str()) != 0) { std::cerr << "cannot create " << tmpdir << "\n"; return 2; }
        const int nDecks = thorough ? 6000 : 800;
        for (int n = 0; n < nDecks && pool.size() >= 4; ++n) {
            int nk = r.range(2, 5);
            std::vector<std::string> parts;      // whole keywords
            std::vector<size_t> used;
            for (int i = 0; i < nk; ++i) {
                const auto& pe = pool[r.below(pool.size())];
                parts.push_back(pe.text);
                used.push_back(pe.kw);
            }
            // second round: TITLE (the next line, even an empty one, is the record; a slash stays),
            // SKIP / SKIP100 ... ENDSKIP blocks between keywords, SKIP300 (an ordinary keyword
            // under the default ParseContext), PATHS + `$ALIAS` in INCLUDE paths
            bool usePaths = r.coin(1, 5);
            // SKIP / ENDSKIP lines inside the records of a keyword are outside the model (the skipped text
            // becomes part of the record view): a deck with such lines gets no truncated INCLUDE file,
            // which could leave a keyword open in front of them
            bool hasSkipLine = false;
            {
                int nSpecial = r.range(0, 2);
                for (int q = 0; q < nSpecial; ++q) {
                    std::string sp;
                    switch (r.range(0, 4)) {
                    case 0: case 1: {
                        sp = r.coin(1, 4) ? "title -- c\n" : "TITLE\n";
                        switch (r.range(0, 5)) {
                        case 0: sp += "\n"; break;                                   // empty line: default title
                        case 1: sp += "  -- only a comment\n"; break;
                        case 2: sp += " " + randWord(r) + " " + randWord(r) + " / text after\n"; break;
                        case 3: sp += "\n\n OIL\n"; break;                          // the empty line is the title, OIL a keyword line
                        case 4: sp += " 'A quoted' " + randWord(r) + " 3 1.5\n"; break;
                        default: sp += "  " + randWord(r) + (r.coin() ? " " + randWord(r) + " 3" : "") + "\n";
                        }
                        sink.count("deck.special.title");
                        break; }
                    case 2: {
                        static const char* sk[] = {"SKIP", "SKIP100", "skip", "SKIP  -- c"};
                        sp = std::string(sk[r.below(4)]) + "\n";
                        int nj = r.range(0, 3);
                        for (int j = 0; j < nj; ++j) {
                            switch (r.range(0, 3)) {
                            case 0: sp += " junk 'unbalanced / \n"; break;
                            case 1: sp += "OIL\n"; break;
                            case 2: sp += "SKIP\n"; break;
                            default: sp += "\n";
                            }
                        }
                        if (!r.coin(1, 12)) sp += r.coin() ? "ENDSKIP\n" : "endskip  text -- c\n";
                        if (r.coin(1, 5)) sp += "ENDSKIP\n";                       // stray ENDSKIP: ignored
                        sink.count("deck.special.skip");
                        hasSkipLine = true;
                        break; }
                    case 3: sp = "SKIP300\n"; sink.count("deck.special.skip300"); break;
                    default: sp = "ENDSKIP\n"; hasSkipLine = true; sink.count("deck.special.endskip");
                    }
                    size_t at = r.below(parts.size() + 1);
                    parts.insert(parts.begin() + at, sp);
                    used.insert(used.begin() + at, static_cast<size_t>(-1));
                }
            }
            bool withEnd = r.coin(1, 6);
            size_t endAt = withEnd ? r.below(parts.size() + 1) : parts.size() + 1;
            // INCLUDE splitting: a run of whole keywords goes to a file
            std::vector<std::pair<std::string, std::string>> files;
            std::string main;
            if (usePaths) {
                main += "PATHS\n 'DIR' '" + tmpdir + "' /\n";
                if (r.coin(1, 3)) main += " 'DIR' '/nowhere' /\n";                  // emplace keeps the first value
                if (r.coin(1, 3)) main += " 'OTHER' '/tmp' / text\n";
                if (r.coin(1, 10)) main += " 'ONEITEM' /\n";                       // item 1 missing: .at() throws
                main += "/\n";
                sink.count("deck.special.paths");
            }
            size_t i = 0; int fileNo = 0;
            while (i < parts.size()) {
                if (i == endAt) main += "END\n";
                if (r.coin(1, 3)) {
                    size_t len = 1 + r.below(std::min<size_t>(2, parts.size() - i));
                    std::string content;
                    for (size_t j = i; j < i + len; ++j) { if (j == endAt && j != i) content += "END\n"; content += parts[j]; }
                    // nested include now and then
                    if (r.coin(1, 5) && i + len < parts.size()) {
                        std::string inner = tmpdir + "/d" + std::to_string(n) + "_" + std::to_string(fileNo++) + ".inc";
                        vh::spit(inner, parts[i + len]);
                        files.push_back({inner, parts[i + len]});
                        content += std::string(r.coin() ? "INCLUDE\n" : "include -- nested\n") + " '" + inner + "' /\n";
                        ++len;
                    }
                    std::string fname = "d" + std::to_string(n) + "_" + std::to_string(fileNo++) + ".inc";
                    std::string path = tmpdir + "/" + fname;
                    if (r.coin(1, 8)) {
                        // ENDINC: the rest of the file (garbage, whole keywords) is not read
                        content += std::string(r.coin() ? "ENDINC\n" : "endinc -- c\n") + (r.coin() ? " junk 'unbalanced / \n" : "") + (r.coin() ? "WATER\nGAS\n" : "");
                        sink.count("deck.special.endinc");
                    }
                    if (r.coin(1, 8) && content.size() > 4 && !hasSkipLine) {
                        // the file ends anywhere: inside a record (the parser throws since d37f2f297),
                        // between the records of a keyword (it goes on in the including file), inside a word
                        content.resize(r.range(1, static_cast<int>(content.size()) - 1));
                        sink.count("deck.special.truncated_include");
                    }
                    if (r.coin(1, 4) && !content.empty() && content.back() == '\n') content.pop_back();   // file without final newline
                    vh::spit(path, content);
                    files.push_back({path, content});
                    std::string shown = path;
                    if (usePaths && r.coin(2, 3)) { shown = (r.coin() ? "$DIR/" : " $DIR/") + fname; sink.count("deck.special.alias_path"); }
                    else if (r.coin(1, 15)) { shown = "$NOALIAS/" + fname; sink.count("deck.special.unknown_alias"); }
                    main += std::string("INCLUDE\n") + (r.coin() ? " '" : "'") + shown + (r.coin() ? "' /\n" : "'/ text\n");
                    i += len;
                } else { main += parts[i]; ++i; }
            }
            // a file that has been read (and closed - by its end or by ENDINC) is read again
            if (!files.empty() && r.coin(1, 4)) {
                int again = r.range(1, 2);
                for (int q = 0; q < again; ++q) main += "INCLUDE\n '" + files[r.below(files.size())].first + "' /\n";
                sink.count("deck.special.file_read_again");
            }
            if (endAt == parts.size()) main += "END\n";
            if (withEnd && r.coin()) main += "GARBAGE after END 'x /\n";
            if (!withEnd && r.coin(1, 12)) { main += "ENDINC\nGARBAGE after ENDINC 'x /\n"; sink.count("deck.special.endinc_main"); }

            // table of the keywords involved
            std::vector<std::string> defs;
            std::vector<std::string> names;
            auto addDef = [&](const std::string& nm, const std::string& d) {
                if (d.empty() || std::find(names.begin(), names.end(), nm) != names.end()) return;
                names.push_back(nm); defs.push_back(d);
            };
            bool okDefs = true;
            for (size_t u : used) {
                if (u == static_cast<size_t>(-1)) continue;
                const KwS& k = kws[u];
                addDef(k.name, kwDef(k.name, sizeSpec(k), k.raw, k.mn, k.alt, k.dbl, k.schemas));
                if (!k.dimsKw.empty()) { std::string d = helperDef(k.dimsKw); if (d.empty()) okDefs = false; addDef(k.dimsKw, d); }
            }
            for (const char* h : {"OIL", "END", "INCLUDE", "TITLE", "ENDINC", "PATHS", "SKIP300", "WATER", "GAS"}) { std::string d = helperDef(h); if (d.empty()) okDefs = false; addDef(h, d); }
            if (!okDefs) { sink.count("deck.skipped"); continue; }
            std::string defArg;
            for (size_t j = 0; j < defs.size(); ++j) { if (j) defArg += "~"; defArg += defs[j]; }

            // recognised names among the first words of all lines
            std::string recNames = "-";
            {
                std::vector<std::string> found;
                auto scan = [&](const std::string& t) {
                    size_t pos = 0;
                    while (pos <= t.size()) {
                        size_t e = t.find('\n', pos); if (e == std::string::npos) e = t.size();
                        std::string line = Opm::verif::lex_trim(Opm::verif::lex_strip_comments(t.substr(pos, e - pos)));
                        std::string dn = Opm::verif::lex_make_deck_name(line);
                        bool rec = false;
                        try { rec = !dn.empty() && parser.isRecognizedKeyword(dn); } catch (...) { rec = false; }
                        if (rec && std::find(found.begin(), found.end(), dn) == found.end()) found.push_back(dn);
                        pos = e + 1;
                    }
                };
                scan(main);
                for (const auto& f : files) scan(f.second);
                std::string s2;
                for (size_t j = 0; j < found.size(); ++j) { if (j) s2 += ","; s2 += hex(found[j]); }
                if (!s2.empty()) recNames = s2;
            }
            std::string fileArg = "-";
            {
                std::string s2;
                for (size_t j = 0; j < files.size(); ++j) { if (j) s2 += ","; s2 += hex(files[j].first) + "=" + hex(files[j].second); }
                if (!s2.empty()) fileArg = s2;
            }
            std::string ans;
            bool foreign = false;
            {
                Opm::ParseContext ctx; Opm::ErrorGuard errors;
                // a missing INCLUDE file (unknown alias, path taken from a following line) is EXIT1 by default
                ctx.update(Opm::ParseContext::PARSE_MISSING_INCLUDE, Opm::InputErrorAction::THROW_EXCEPTION);
                try {
                    auto deck = parser.parseString(main, ctx, errors);
                    errors.clear();
                    ans = "ok ";
                    if (deck.size() == 0) ans += "-";
                    for (size_t j = 0; j < deck.size(); ++j) {
                        const auto& dk = deck[j];
                        // a truncated file can end in a word that happens to be another keyword of the
                        // real parser (WCONINJE -> WCONINJ): the model's table does not know it - not a test
                        if (std::find(names.begin(), names.end(), dk.name()) == names.end()) foreign = true;
                        if (j) ans += "~";
                        ans += hex(dk.name()) + "=";
                        if (dk.size() == 0) ans += "none";
                        for (size_t q = 0; q < dk.size(); ++q) { if (q) ans += "|"; ans += dumpRecord(dk.getRecord(q), false); }
                    }
                } catch (const std::exception&) { errors.clear(); ans = "err"; }
                catch (...) { errors.clear(); ans = "err"; }
            }
            if (foreign) { sink.count("deck.skipped_foreign_keyword"); for (const auto& f : files) std::remove(f.first.c_str()); continue; }
            sink.count(ans == "err" ? "deck.parse.err" : "deck.parse.ok");
            sink.count("deck.include_files", static_cast<long>(files.size()));
            if (withEnd) sink.count("deck.with_END");
            sink.emit("deck.deck 100000 " + defArg + " " + recNames + " " + fileArg + " " + hex(main), ans);
            for (const auto& f : files) std::remove(f.first.c_str());
        }
    }

    // (vii) the input stack: a small file system of statement lists (keywords without data, INCLUDE, ENDINC),
    // files read several times, from several parents, closed by their end or by ENDINC, paths spelled in
    // several ways, missing files, cycles -> real Parser::parseFile against `IncStack.parseFile`.  The real
    // parser runs in a child process with a CPU limit: without a working recursion check it would never end.
    if (!lexOnly) {
        namespace fs = std::filesystem;
        static const char* K[] = {"OIL", "WATER", "GAS", "DISGAS", "VAPOIL", "RUNSPEC", "GRID", "PROPS"};
        const std::string base = fs::absolute(outdir + "/tmp").lexically_normal().string();
        const int nCases = thorough ? 6000 : 700;
        int nKilled = 0;
        for (int n = 0; n < nCases; ++n) {
            const int nf = r.range(2, 5);
            const bool dagBias = r.coin(3, 4);
            std::vector<std::vector<std::string>> fl(nf);
            bool anyInc = false;
            for (int i = 0; i < nf; ++i) {
                int ns = r.range(0, 6);
                for (int q = 0; q < ns; ++q) {
                    int c = r.range(0, 99);
                    if (c < 45) fl[i].push_back("k" + std::to_string(r.range(0, 7)));
                    else if (c < 88) {
                        int f;
                        if (r.coin(1, 40)) f = nf;                                        // missing file
                        else if (dagBias && i + 1 < nf && !r.coin(1, 12)) f = r.range(i + 1, nf - 1);
                        else f = r.range(0, nf - 1);
                        fl[i].push_back("i" + std::to_string(f)); anyInc = true;
                    }
                    else fl[i].push_back("e");
                }
            }
            if (!anyInc) fl[0].push_back("i1");
            const std::string dir = base + "/s" + std::to_string(n);
            std::error_code ec;
            fs::create_directories(dir + "/sub", ec);
            // where the files live: now and then in sub/ under the base name of ANOTHER file (equal names, different paths)
            std::vector<std::string> loc(nf);
            for (int i = 0; i < nf; ++i) loc[i] = "f" + std::to_string(i) + ".inc";
            for (int i = 1; i < nf; ++i) if (r.coin(1, 5)) {
                std::string cand = "sub/f" + std::to_string(r.range(0, nf - 1)) + ".inc";
                if (std::find(loc.begin(), loc.end(), cand) == loc.end()) { loc[i] = cand; sink.count("inc.same_name_other_directory"); }
            }
            auto fname = [&](int f) { return f < nf ? loc[f] : "f" + std::to_string(f) + ".inc"; };
            for (int i = 0; i < nf; ++i) {
                std::string text;
                for (const auto& st : fl[i]) {
                    if (st[0] == 'k') text += std::string(K[std::stoi(st.substr(1))]) + (r.coin(1, 6) ? " -- c\n" : "\n");
                    else if (st[0] == 'e') text += r.coin(1, 4) ? "endinc\n" : "ENDINC\n";
                    else {
                        std::string nm = fname(std::stoi(st.substr(1))), pth;
                        switch (r.range(0, 4)) { case 0: pth = nm; break; case 1: pth = "./" + nm; break; case 2: pth = "sub/../" + nm; break; default: pth = dir + "/" + nm; }
                        text += "INCLUDE\n '" + pth + "' /\n";
                    }
                    if (r.coin(1, 10)) text += "\n";
                }
                if (r.coin(1, 5) && !text.empty()) text.pop_back();                      // no final newline
                vh::spit(dir + "/" + fname(i), text);
            }
            const std::string root = dir + "/" + fname(0);
            std::string ans = "killed";
            int pfd[2];
            if (pipe(pfd) != 0) { std::cerr << "pipe failed\n"; return 2; }
            std::cout.flush(); std::cerr.flush();
            pid_t pid = fork();
            if (pid == 0) {
                close(pfd[0]);
                struct rlimit rl; rl.rlim_cur = rl.rlim_max = 3; setrlimit(RLIMIT_CPU, &rl);
                rl.rlim_cur = rl.rlim_max = (rlim_t) 4 << 30; setrlimit(RLIMIT_AS, &rl);
                std::string a;
                Opm::ParseContext ctx; Opm::ErrorGuard errors;
                ctx.update(Opm::ParseContext::PARSE_MISSING_INCLUDE, Opm::InputErrorAction::THROW_EXCEPTION);
                try {
                    auto deck = parser.parseFile(root, ctx, errors);
                    errors.clear();
                    a = "ok ";
                    if (deck.size() == 0) a += "-";
                    for (size_t j = 0; j < deck.size(); ++j) {
                        int idx = -1;
                        for (int q = 0; q < 8; ++q) if (deck[j].name() == K[q]) idx = q;
                        if (j) a += ",";
                        a += std::to_string(idx);
                    }
                } catch (const std::bad_alloc&) { a = "out-of-memory"; }
                catch (const std::exception&) { a = "err"; }
                catch (...) { a = "err"; }
                ssize_t w = write(pfd[1], a.data(), a.size()); (void) w;
                _exit(0);
            }
            close(pfd[1]);
            if (pid > 0) {
                std::string got; char buf[4096]; ssize_t k;
                while ((k = read(pfd[0], buf, sizeof buf)) > 0) got.append(buf, (size_t) k);
                int stt = 0; waitpid(pid, &stt, 0);
                if (WIFEXITED(stt) && WEXITSTATUS(stt) == 0 && !got.empty()) ans = got;
            }
            close(pfd[0]);
            fs::remove_all(dir, ec);
            std::string fa;
            for (int i = 0; i < nf; ++i) {
                if (i) fa += ";";
                if (fl[i].empty()) fa += "-";
                for (size_t q = 0; q < fl[i].size(); ++q) { if (q) fa += ","; fa += fl[i][q]; }
            }
            { std::map<std::string, int> cnt; bool endinc = false; for (const auto& f : fl) for (const auto& st : f) { if (st[0] == 'i') cnt[st]++; if (st[0] == 'e') endinc = true; }
              bool twice = false; for (const auto& kv : cnt) if (kv.second >= 2) twice = true;
              if (twice) sink.count(ans.rfind("ok", 0) == 0 ? "inc.file_named_twice.ok" : "inc.file_named_twice.err");
              if (endinc) sink.count("inc.with_endinc"); }
            sink.count(ans == "err" ? "inc.err" : (ans.rfind("ok", 0) == 0 ? "inc.ok" : "inc.killed"));
            sink.emit("inc.run 4000 0 " + fa, ans);
            // a parser that does not end on cyclic includes costs the CPU limit per case: three of them are evidence enough
            if (ans == "killed" || ans == "out-of-memory") { if (++nKilled >= 3) { sink.count("inc.stopped_after_killed"); break; } }
        }
    }

    sink.writeStats(outdir + "/stats.json");
    return 0;
}

// ---------------------------------------------------------------- C20 probes with a time bound
//
//   deck probe20 <seed> <tier> <outdir>     prop.txt / prop_stats.json
//
// Two ways in which deck text makes the parser run forever (design.d/C20.lexer.md, second round);
// each call runs in a child process under alarm(): a child killed by SIGALRM is the failure.
#include <csignal>
#include <functional>
#include <sys/resource.h>
#include <sys/wait.h>
#include <unistd.h>

static int runChild(const std::function<void()>& f, unsigned secs) {
    pid_t pid = fork();
    if (pid < 0) return -1;
    if (pid == 0) {
        struct rlimit rl; rl.rlim_cur = rl.rlim_max = 2048UL * 1024 * 1024; setrlimit(RLIMIT_AS, &rl);
        alarm(secs);
        try { f(); } catch (const std::exception&) { _exit(0); } catch (...) { _exit(3); }
        _exit(0);
    }
    int st = 0;
    waitpid(pid, &st, 0);
    if (WIFSIGNALED(st)) return 1000 + WTERMSIG(st);
    return WEXITSTATUS(st);
}

static int probe20(uint64_t seed, const std::string& tier, const std::string& outdir) {
    (void) seed; (void) tier;
    vh::PropLog log(outdir + "/prop.txt");
    const std::string tmp = outdir + "/tmp";
    std::string mk = "mkdir -p '" + tmp + "'";
    if (std::system(mk.c_str()) != 0) return 2;
    std::vector<std::string> seenKeys;
    auto verdict = [&](int rc, const std::string& key, const std::string& what) {
        if (rc == 1000 + SIGALRM) {
            // one FAIL line per cause; further instances are only counted
            if (std::find(seenKeys.begin(), seenKeys.end(), key) == seenKeys.end()) {
                seenKeys.push_back(key);
                log.fail(key, what + ": no result within the time bound (killed by the alarm)");
            } else ++log.failed;
        }
        else if (rc >= 1000) log.fail("C20.probe_signal", what + ": killed by signal " + std::to_string(rc - 1000));
        else if (rc == 3) log.fail("C20.probe_foreign_exception", what + ": exception not derived from std::exception");
        else log.ok();
    };
    // (a) Parser::parseFile(file, ctx, errors, sections): skipping to the next section keyword
    const std::vector<std::pair<std::string, std::string>> decks = {
        {"control", "RUNSPEC\nGRID\nPROPS\nSOLUTION\nSCHEDULE\n"},
        {"text_after_section_keyword", "RUNSPEC\nGRID\nPROPS X\nSOLUTION\nSCHEDULE\n"},
        {"lower_case_section_keyword", "RUNSPEC\nGRID\nprops\nSOLUTION\nSCHEDULE\n"},
        {"section_words_inside_title", "RUNSPEC\nTITLE\n GRID PROPS SOLUTION SCHEDULE\nGRID\n"}};
    const std::vector<std::vector<Opm::Ecl::SectionType>> sels = {{Opm::Ecl::RUNSPEC}, {Opm::Ecl::RUNSPEC, Opm::Ecl::PROPS}};
    for (const auto& d : decks) {
        const std::string path = tmp + "/" + d.first + ".DATA";
        vh::spit(path, d.second);
        for (size_t k = 0; k < sels.size(); ++k) {
            int rc = runChild([&]() {
                Opm::Parser parser; Opm::ParseContext ctx; Opm::ErrorGuard errors;
                auto deck = parser.parseFile(path, ctx, errors, sels[k]);
                (void) deck; errors.clear();
            }, 4);
            verdict(rc, "C20.section_skip_hang", "parseFile(" + d.first + ", sections #" + std::to_string(k) + ")");
        }
    }
    // (b) INCLUDE cycles
    {
        const std::string self = tmp + "/self.inc", a = tmp + "/a.inc", bb = tmp + "/b.inc", okf = tmp + "/ok.inc";
        vh::spit(self, "INCLUDE\n '" + self + "' /\n");
        vh::spit(a, "INCLUDE\n '" + bb + "' /\n");
        vh::spit(bb, "OIL\nINCLUDE\n '" + a + "' /\n");
        vh::spit(okf, "WATER\n");
        const std::vector<std::pair<std::string, std::string>> texts = {
            {"same_file_twice_in_sequence", "RUNSPEC\nINCLUDE\n '" + okf + "' /\nINCLUDE\n '" + okf + "' /\n"},
            {"file_includes_itself", "RUNSPEC\nINCLUDE\n '" + self + "' /\n"},
            {"two_files_include_each_other", "RUNSPEC\nINCLUDE\n '" + a + "' /\n"}};
        for (const auto& t : texts) {
            int rc = runChild([&]() {
                Opm::Parser parser; Opm::ParseContext ctx; Opm::ErrorGuard errors;
                ctx.update(Opm::ParseContext::PARSE_MISSING_INCLUDE, Opm::InputErrorAction::THROW_EXCEPTION);
                auto deck = parser.parseString(t.second, ctx, errors);
                (void) deck; errors.clear();
            }, 4);
            verdict(rc, "C20.recursive_include_hang", "parseString(" + t.first + ")");
        }
    }
    // (c) INCLUDE cycles of length 1..3 in every layout of the including statement: first / middle / last
    // statement of its file, the file ending in a newline, directly behind the slash, in blanks or in a comment
    {
        int id = 0;
        for (int len = 1; len <= 3; ++len)
            for (int where = 0; where < 3; ++where)
                for (int ending = 0; ending < 4; ++ending)
                    for (int quoted = 0; quoted < 2; ++quoted) {
                        const std::string base = "cyc" + std::to_string(id++) + "_";      // relative names: a bare word cannot hold a '/'
                        auto name = [&](int k) { return base + std::to_string(k % len) + ".inc"; };
                        for (int k = 0; k < len; ++k) {
                            const std::string q = quoted ? "'" : "";
                            std::string inc = "INCLUDE\n " + q + name(k + 1) + q + " /";
                            static const char* ends[] = { "\n", "", "   ", " -- back to the start" };
                            std::string body = where == 0 ? inc + "\nOIL\n" : where == 1 ? "OIL\n" + inc + "\nWATER\n" : "GAS\n" + inc + ends[ending];
                            vh::spit(tmp + "/" + name(k), body);
                        }
                        for (int viaFile = 0; viaFile < 2; ++viaFile) {
                            int rc = runChild([&]() {
                                Opm::Parser parser; Opm::ParseContext ctx; Opm::ErrorGuard errors;
                                ctx.update(Opm::ParseContext::PARSE_MISSING_INCLUDE, Opm::InputErrorAction::THROW_EXCEPTION);
                                if (chdir(tmp.c_str()) != 0) _exit(4);
                                if (viaFile) { auto deck = parser.parseFile(name(0), ctx, errors); (void) deck; }
                                else { auto deck = parser.parseString("RUNSPEC\nINCLUDE\n '" + name(0) + "' /\n", ctx, errors); (void) deck; }
                                errors.clear();
                            }, 4);
                            verdict(rc, "C20.recursive_include_hang", "INCLUDE cycle of length " + std::to_string(len) + ", statement " + (where == 0 ? "first" : where == 1 ? "in the middle" : "last")
                                    + " in its file, file ending #" + std::to_string(ending) + (quoted ? ", quoted" : ", bare") + (viaFile ? ", parseFile" : ", parseString"));
                        }
                    }
    }
    std::ofstream st(outdir + "/prop_stats.json");
    st << "{\"checked\": " << (log.checked + log.failed) << ", \"failed\": " << log.failed << "}\n";
    return 0;
}

static int canon(const std::string& in, const std::string& outp) {
    std::ifstream f(in);
    std::ofstream o(outp);
    std::string line;
    while (std::getline(f, line)) {
        std::string res;
        size_t i = 0;
        while (i < line.size()) {
            // value starts at line start or after ',' / ';'
            auto delim = [](char c) { return c == ',' || c == ';' || c == '|' || c == ' ' || c == '=' || c == '~'; };
            bool atStart = (i == 0) || delim(line[i - 1]);
            if (atStart && i + 2 < line.size() && (line[i] == 'D' || line[i] == 'F') && (line[i + 1] == 'd' || line[i + 1] == 'n') && line[i + 2] == 't') {
                size_t j = i + 3;
                while (j < line.size() && !delim(line[j])) ++j;
                std::string tok = unhex(line.substr(i + 3, j - (i + 3)));
                res += line.substr(i, 2);
                try { res += vh::hexF64(Opm::readValueToken<double>(tok)); } catch (const std::exception&) { res += "?"; }
                i = j;
            } else { res.push_back(line[i]); ++i; }
        }
        o << res << '\n';
    }
    return 0;
}

int main(int argc, char** argv) {
    if (argc >= 4 && std::string(argv[1]) == "canon") return canon(argv[2], argv[3]);
    if (argc < 5) { std::cerr << "usage: deck corr <seed> <tier> <outdir> | deck canon <in> <out>\n"; return 2; }
    std::string mode = argv[1];
    uint64_t seed = std::stoull(argv[2]);
    if (mode == "corr") return corr(seed, argv[3], argv[4], false);
    if (mode == "corrlex") return corr(seed, argv[3], argv[4], true);
    if (mode == "probe20") return probe20(seed, argv[3], argv[4]);
    std::cerr << "unknown mode\n";
    return 2;
}
