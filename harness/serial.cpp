// C11 harness: drives the real Opm::Serializer<MemPacker> of the working tree.
//
//   serial corr <seed> <tier> <outdir>   correspondence with the Lean model (combinator level):
//        ops.txt / impl.txt / stats.json.  For every type of a fixed menu of real C++ types and
//        random values: PACK bytes + PACKSIZE, UNPACK into a value-initialised object, UNPACK into
//        a stale (non-empty) object.
//   serial prop <seed> <tier> <outdir>   the property's own statement on the implementation alone:
//        combinator values and real objects (Schedule/EclipseState/SummaryConfig from shipped and
//        generated decks, random dynamic states): pack -> unpack into a fresh object -> ==,
//        position()==size, re-pack gives the same bytes, query sweep identical.
#include "common/vh.hpp"
#include "serial_codec.hpp"
#include "serial_objects.hpp"
#include "serial_probes.hpp"
#include "serial_flags.hpp"

#include <filesystem>
#include <iostream>

namespace fs = std::filesystem;
using namespace sc;

namespace {

struct Ctx {
    vh::Rng rng;
    vh::Sink* sink = nullptr;
    vh::PropLog* plog = nullptr;
    int maxLen = 4;
    std::map<std::string, long> pstats;
    explicit Ctx(uint64_t seed) : rng(seed) {}
};

bool hasUnordered(const std::string& ty) { return ty.find('H') != std::string::npos || ty.find('N') != std::string::npos; }

template <class T> void corrType(Ctx& c, int reps) {
    const std::string ty = Codec<T>::ty();
    for (int i = 0; i < reps; ++i) {
        GenCfg cfg; cfg.maxLen = (i % 7 == 6) ? 3 * c.maxLen : c.maxLen;
        T x = Codec<T>::gen(c.rng, cfg);
        Packer packer; Ser ser(packer);
        ser.pack(x);
        const std::string hex = ser.hex();
        c.sink->emit("serial.pack " + ty + " " + Codec<T>::show(x, false),
                     "wt=1 " + std::to_string(ser.buffer().size()) + " " + hex);
        {
            T y{};
            ser.unpack(y);
            c.sink->emit("serial.unpack " + ty + " " + hex,
                         "ok " + Codec<T>::show(y, true) + " " + std::to_string(ser.position()));
        }
        {
            T z = Codec<T>::gen(c.rng, cfg);           // a stale target
            const std::string before = Codec<T>::show(z, false);
            ser.unpack(z);
            c.sink->emit("serial.unpackinto " + ty + " " + before + " " + hex,
                         "ok " + Codec<T>::show(z, true) + " " + std::to_string(ser.position()));
        }
        c.sink->count("type." + ty);
        c.sink->count("values");
        c.sink->count("bytes", static_cast<long>(ser.buffer().size()));
    }
}

// the property's statement on ONE combinator value
template <class T> void propValue(Ctx& c, const T& x, const std::string& key, bool brief = false) {
    const std::string ty = Codec<T>::ty();
    Packer packer; Ser ser(packer);
    ser.pack(x);
    const std::vector<char> buf = ser.buffer();
    const size_t posPack = ser.position();
    T y{};
    ser.unpack(y);
    const size_t posUnpack = ser.position();
    const std::string sx = Codec<T>::show(x, true), sy = Codec<T>::show(y, true);
    // a large value is named by its size, not printed
    const std::string vx = brief ? "<" + std::to_string(sx.size()) + " characters>" : sx, vy = brief ? "<" + std::to_string(sy.size()) + " characters>" : sy;
    if (posPack != buf.size()) c.plog->fail(key, "PACK left position " + std::to_string(posPack) + " in a buffer of " + std::to_string(buf.size()) + " (PACKSIZE disagrees with PACK) value=" + vx);
    else if (posUnpack != buf.size()) c.plog->fail(key, "UNPACK consumed " + std::to_string(posUnpack) + " of " + std::to_string(buf.size()) + " bytes value=" + vx);
    else if (sx != sy) c.plog->fail(key, "object differs after round trip: packed " + vx + " unpacked " + vy);
    else {
        Packer p2; Ser ser2(p2);
        ser2.pack(y);
        if (ser2.buffer().size() != buf.size()) c.plog->fail(key, "re-packed length " + std::to_string(ser2.buffer().size()) + " != " + std::to_string(buf.size()) + " value=" + vx);
        else if (!hasUnordered(ty) && ser2.buffer() != buf) c.plog->fail(key, "re-packed bytes differ value=" + vx);
        else c.plog->ok();
    }
    c.pstats["combinator"]++;
}

// a bitset's descriptor is that of its wire integer (p8); the failure key names the C++ type
template <class T> struct BitsetWidth { static constexpr std::size_t value = 0; };
template <std::size_t N> struct BitsetWidth<std::bitset<N>> { static constexpr std::size_t value = N; };

template <class T> void propType(Ctx& c, int reps) {
    const std::string ty = Codec<T>::ty();
    const std::string key = BitsetWidth<T>::value ? "combinator.bitset" + std::to_string(BitsetWidth<T>::value) : "combinator." + ty;
    for (int i = 0; i < reps; ++i) {
        GenCfg cfg; cfg.maxLen = (i % 5 == 4) ? 4 * c.maxLen : c.maxLen;
        propValue<T>(c, Codec<T>::gen(c.rng, cfg), key);
    }
}

// Every width of a bitset, bit by bit: none, all, each single bit, each complement of a single bit.  (The random
// menu above draws these too; this sweep does not depend on the seed.)
template <std::size_t N> void propBitset(Ctx& c) {
    const std::string key = "combinator.bitset" + std::to_string(N);
    std::bitset<N> none, all; all.set();
    propValue<std::bitset<N>>(c, none, key); propValue<std::bitset<N>>(c, all, key);
    for (std::size_t i = 0; i < N; ++i) {
        std::bitset<N> one; one.set(i);
        propValue<std::bitset<N>>(c, one, key); propValue<std::bitset<N>>(c, ~one, key);
        c.pstats["combinator.bitset.bits"]++;
    }
}

// Lengths beyond 16 bits: every length field on the wire is a size_t; a container or string longer than 65 535 (and,
// thorough tier, a string longer than 2^24) shows a narrower one.  (2^32 elements are out of reach of a test run.)
inline void propBig(Ctx& c, bool thorough) {
    const std::size_t n = 65536 + 4464 + c.rng.below(1000);
    { std::string s(n, 'x'); for (auto& ch : s) ch = static_cast<char>('A' + c.rng.below(26)); propValue<std::string>(c, s, "combinator.big.s", true); }
    { std::vector<int> v(n); for (auto& x : v) x = static_cast<int>(c.rng.next()); propValue<std::vector<int>>(c, v, "combinator.big.v(i4)", true); }
    { std::vector<bool> v(n); for (std::size_t i = 0; i < n; ++i) v[i] = c.rng.coin(); propValue<std::vector<bool>>(c, v, "combinator.big.B", true); }
    { std::vector<std::string> v(n); for (auto& x : v) x = std::string(1, static_cast<char>('a' + c.rng.below(26))); propValue<std::vector<std::string>>(c, v, "combinator.big.v(s)", true); }
    { std::set<int> v; for (std::size_t i = 0; i < n; ++i) v.insert(static_cast<int>(i * 3)); propValue<std::set<int>>(c, v, "combinator.big.S(i4)", true); }
    { std::map<int, double> v; for (std::size_t i = 0; i < n; ++i) v[static_cast<int>(i)] = static_cast<double>(i); propValue<std::map<int, double>>(c, v, "combinator.big.M(i4,p8)", true); }
    { std::unordered_map<int, std::vector<std::string>> v; for (std::size_t i = 0; i < n; ++i) v[static_cast<int>(i)]; propValue<std::unordered_map<int, std::vector<std::string>>>(c, v, "combinator.big.H", true); }
    if (thorough) { std::string s((std::size_t{1} << 24) + 17, 'y'); propValue<std::string>(c, s, "combinator.big.s24", true); }
    c.pstats["combinator.big"] += 7;
}

// ---- pointer layer: types holding shared_ptr (model: Model/SerialGraph.lean) ------------------------
template <class T> std::string showLabelled(const T& v) { labels() = Labels{}; return Codec<T>::show(v, true); }

template <class T> void corrGraph(Ctx& c, int reps) {
    const std::string ty = Codec<T>::ty();
    for (int i = 0; i < reps; ++i) {
        GenCfg cfg; cfg.maxLen = (i % 7 == 6) ? 3 * c.maxLen : c.maxLen;
        newGraphEpoch();
        {
            T x = Codec<T>::gen(c.rng, cfg);
            Packer packer; Ser ser(packer);
            ser.pack(x);
            const std::string hex = ser.buffer().empty() ? "-" : ser.hex();
            c.sink->emit("serial.gpack " + ty + " " + Codec<T>::show(x, false),
                         "wt=1 " + std::to_string(ser.buffer().size()) + " " + hex);
            if (ser.position() != ser.buffer().size()) {      // PACKSIZE != PACK: the buffer is not a packed object, unpacking it is UB
                c.sink->emit("serial.gunpack " + ty + " " + hex, "pack-position " + std::to_string(ser.position()));
                continue;
            }
            {
                T y{};
                ser.unpack(y);
                const std::string sy = showLabelled(y);
                c.sink->emit("serial.gunpack " + ty + " " + hex, "ok " + sy + " " + std::to_string(ser.position()));
                c.sink->count("graph.pointers", static_cast<long>(std::count(sy.begin(), sy.end(), '&')));   // non-null pointers
                c.sink->count("graph.objects", static_cast<long>(labels().of.size()));                      // distinct pointees
            }
            {
                T z = Codec<T>::gen(c.rng, cfg);       // a stale target; may share pointees with x (same pools)
                const std::string before = Codec<T>::show(z, false);
                ser.unpack(z);
                c.sink->emit("serial.gunpackinto " + ty + " " + before + " " + hex,
                             "ok " + showLabelled(z) + " " + std::to_string(ser.position()));
            }
            c.sink->count("type." + ty);
            c.sink->count("values");
            c.sink->count("graph.values");
            c.sink->count("bytes", static_cast<long>(ser.buffer().size()));
        }
        newGraphEpoch();
    }
}

// the property's statement on pointer-holding values: the aliasing graph (labels) comes back, position
// = size, re-pack has the same length, and the re-packed buffer unpacks to the same graph again
template <class T> void propGraph(Ctx& c, int reps) {
    const std::string ty = Codec<T>::ty();
    for (int i = 0; i < reps; ++i) {
        GenCfg cfg; cfg.maxLen = (i % 5 == 4) ? 4 * c.maxLen : c.maxLen;
        newGraphEpoch();
        {
            T x = Codec<T>::gen(c.rng, cfg);
            Packer packer; Ser ser(packer);
            ser.pack(x);
            const std::vector<char> buf = ser.buffer();
            const size_t posPack = ser.position();
            const std::string key = "combinator." + ty;
            if (posPack != buf.size()) {     // not a packed object: do not unpack it (UB)
                c.plog->fail(key, "PACK left position " + std::to_string(posPack) + " in a buffer of " + std::to_string(buf.size()) + " (PACKSIZE disagrees with PACK) value=" + showLabelled(x));
                c.pstats["combinator"]++; c.pstats["combinator.graph"]++;
                continue;
            }
            T y{};
            ser.unpack(y);
            const size_t posUnpack = ser.position();
            const std::string sx = showLabelled(x), sy = showLabelled(y);
            if (posUnpack != buf.size()) c.plog->fail(key, "UNPACK consumed " + std::to_string(posUnpack) + " of " + std::to_string(buf.size()) + " bytes value=" + sx);
            else if (sx != sy) c.plog->fail(key, "object graph differs after round trip (labels = pointer identity): packed " + sx + " unpacked " + sy);
            else {
                Packer p2; Ser ser2(p2);
                ser2.pack(y);
                T z{};
                if (ser2.buffer().size() != buf.size()) c.plog->fail(key, "re-packed length " + std::to_string(ser2.buffer().size()) + " != " + std::to_string(buf.size()) + " value=" + sx);
                else {
                    ser2.unpack(z);
                    const std::string sz = showLabelled(z);
                    if (ser2.position() != buf.size()) c.plog->fail(key, "UNPACK of the re-packed buffer consumed " + std::to_string(ser2.position()) + " of " + std::to_string(buf.size()) + " value=" + sx);
                    else if (sz != sx) c.plog->fail(key, "re-packed buffer means another graph: " + sz + " vs " + sx);
                    else c.plog->ok();
                }
            }
            c.pstats["combinator"]++;
            c.pstats["combinator.graph"]++;
        }
        newGraphEpoch();
    }
}

#define SERIAL_GRAPH_MENU(X) \
    X(std::shared_ptr<int>) X(std::shared_ptr<std::string>) X(std::shared_ptr<Rec>) X(std::shared_ptr<std::shared_ptr<int>>) \
    X(std::vector<std::shared_ptr<std::string>>) X(std::pair<std::shared_ptr<int>, std::shared_ptr<int>>) \
    X(std::optional<std::shared_ptr<std::string>>) X(std::vector<std::optional<std::shared_ptr<double>>>) \
    X(std::map<std::string, std::shared_ptr<Rec>>) X(std::unordered_map<std::string, std::shared_ptr<int>>) \
    X(std::tuple<int, std::shared_ptr<Rec>, std::vector<std::shared_ptr<Rec>>>) \
    X(std::shared_ptr<std::vector<std::shared_ptr<int>>>) X(std::map<int, std::vector<std::shared_ptr<std::string>>>) \
    X(WellLike) X(std::shared_ptr<WellLike>) X(std::vector<WellLike>) X(std::unordered_map<std::string, std::shared_ptr<WellLike>>) \
    X(StepLike) X(std::vector<StepLike>) X(std::vector<std::shared_ptr<StepLike>>) \
    X(Opm::ScheduleState::ptr_member<Rec>) X(std::vector<Opm::ScheduleState::ptr_member<std::string>>) \
    X(Opm::ScheduleState::map_member<std::string, NamedRec>) X(std::vector<Opm::ScheduleState::map_member<std::string, NamedRec>>) \
    X(RealStep) X(std::vector<RealStep>) \
    X(std::unique_ptr<std::shared_ptr<int>>) X(std::vector<std::unique_ptr<WellLike>>) X(std::array<std::shared_ptr<std::string>, 3>) \
    X(std::pair<std::array<std::shared_ptr<Rec>, 2>, std::unique_ptr<std::array<std::shared_ptr<Rec>, 2>>>)

// The menu of real C++ types.

#define SERIAL_MENU(X) \
    X(int) X(long) X(short) X(unsigned char) X(std::size_t) X(unsigned int) X(double) X(float) X(bool) X(Colour) X(Pod16) \
    X(Opm::time_point) X(std::bitset<3>) X(std::bitset<4>) X(std::bitset<10>) X(std::bitset<17>) \
    X(std::bitset<1>) X(std::bitset<8>) X(std::bitset<16>) X(std::bitset<32>) X(std::bitset<33>) X(std::bitset<64>) \
    X(std::optional<std::bitset<17>>) X(std::vector<std::bitset<33>>) X(std::map<int, std::bitset<64>>) X(std::array<bool, 3>) X(std::array<bool, 17>) \
    X(std::string) \
    X(std::vector<int>) X(std::vector<double>) X(std::vector<Pod16>) X(std::vector<std::string>) X(std::vector<bool>) \
    X(std::vector<std::vector<int>>) X(std::vector<std::vector<std::string>>) X(std::vector<std::vector<bool>>) \
    X(std::array<int, 3>) X(std::array<double, 2>) X(std::array<std::string, 2>) X(std::array<std::vector<int>, 2>) \
    X(std::optional<int>) X(std::optional<std::string>) X(std::optional<std::vector<double>>) X(std::vector<std::optional<double>>) \
    X(std::optional<std::optional<int>>) \
    X(std::unique_ptr<int>) X(std::unique_ptr<std::string>) X(std::vector<std::unique_ptr<std::string>>) X(std::unique_ptr<std::vector<int>>) \
    X(std::pair<int, double>) X(std::pair<std::string, std::vector<int>>) X(std::tuple<int, std::string, double>) X(std::tuple<>) \
    X(std::tuple<std::string, std::optional<int>, std::vector<bool>, std::size_t>) \
    X(std::variant<int, double>) X(std::variant<int, std::string, std::vector<double>>) X(std::vector<std::variant<std::string, double>>) \
    X(std::variant<std::pair<int, int>, std::optional<std::string>>) \
    X(std::set<int>) X(std::set<std::string>) X(std::set<std::size_t>) X(std::set<std::pair<std::string, int>>) X(std::set<Colour>) \
    X(std::unordered_set<std::string>) X(std::unordered_set<int>) \
    X(std::map<int, double>) X(std::map<std::string, int>) X(std::map<std::string, std::vector<std::string>>) \
    X(std::map<std::pair<int, int>, std::string>) X(std::map<std::string, std::map<int, std::string>>) X(std::map<long, std::optional<double>>) \
    X(std::map<std::string, std::unique_ptr<int>>) X(std::map<std::size_t, std::set<std::string>>) X(std::map<std::tuple<int, std::string>, int>) \
    X(std::unordered_map<std::string, double>) X(std::unordered_map<int, std::vector<std::string>>) X(std::unordered_map<std::string, std::map<std::string, int>>) \
    X(std::vector<std::map<std::string, int>>) X(std::array<std::set<int>, 2>) X(std::pair<std::set<int>, std::unique_ptr<std::map<int, int>>>) \
    X(Rec) X(std::vector<Rec>) X(std::map<std::string, Rec>) X(std::optional<Rec>) X(std::unique_ptr<Rec>) X(Outer) X(std::vector<Outer>) \
    X(Preset) X(std::vector<Preset>) X(std::map<int, Preset>)

} // namespace

int main(int argc, char** argv) {
    if (argc < 5) { std::cerr << "usage: serial corr|prop <seed> <tier> <outdir>\n"; return 2; }
    const std::string mode = argv[1];
    const uint64_t seed = std::strtoull(argv[2], nullptr, 10);
    const std::string tier = argv[3];
    const std::string outdir = argv[4];
    fs::create_directories(outdir);
    const bool thorough = tier == "thorough";
    Ctx c(seed);

    if (mode == "corr") {
        vh::Sink sink(outdir);
        c.sink = &sink;
        sink.emit("serial.consts", std::to_string(sizeof(std::size_t)) + " " + std::to_string(sizeof(int)) + " " + std::to_string(sizeof(bool)));
        const int reps = thorough ? 400 : 14;
        c.maxLen = 4;
#define X(...) corrType<__VA_ARGS__>(c, reps);
        SERIAL_MENU(X)
#undef X
        sink.emit("serial.gconsts", std::to_string(sizeof(std::uintptr_t)));
#define X(...) corrGraph<__VA_ARGS__>(c, reps);
        SERIAL_GRAPH_MENU(X)
#undef X
        sink.writeStats(outdir + "/stats.json");
        return 0;
    }
    if (mode == "prop") {
        vh::PropLog plog(outdir + "/prop.txt");
        c.plog = &plog;
        const int reps = thorough ? 500 : 20;
        c.maxLen = 5;
        {   // every bit of every bitset / mask word of the serialised classes: first (a failure here names the class and the
            // deck text), with a random stream of its own
            vh::Rng fr(seed ^ 0xf1a9f1a9ull);
            sf::probeFlagWords(fr, plog, c.pstats, thorough);
        }
#define X(...) propType<__VA_ARGS__>(c, reps);
        SERIAL_MENU(X)
#undef X
#define X(...) propGraph<__VA_ARGS__>(c, reps);
        SERIAL_GRAPH_MENU(X)
#undef X
        {   // directed codec probes; their own random stream, so that the object generators below keep theirs
            Ctx d(seed ^ 0x5eed0b17ull); d.plog = &plog;
            propBitset<1>(d); propBitset<3>(d); propBitset<4>(d); propBitset<8>(d); propBitset<10>(d); propBitset<16>(d);
            propBitset<17>(d); propBitset<32>(d); propBitset<33>(d); propBitset<64>(d);
            propBig(d, thorough);
            for (auto& kv : d.pstats) c.pstats[kv.first] += kv.second;
        }
        so::runObjects(c.rng, plog, c.pstats, thorough, outdir);
        sp::probeSlaveMode(c.rng, plog, c.pstats, thorough ? 60 : 6);
        sp::probeRestartNetworkPressures(c.rng, plog, c.pstats, thorough ? 40 : 4, outdir);
        c.pstats["eclipsestate.eq_throws_on_original"] = so::eqThrowsOnOriginal();
        std::ofstream f(outdir + "/prop_stats.json");
        f << "{\n  \"checked\": " << plog.checked << ",\n  \"failed\": " << plog.failed;
        for (auto& kv : c.pstats) f << ",\n  \"" << kv.first << "\": " << kv.second;
        f << "\n}\n";
        return 0;
    }
    std::cerr << "unknown mode " << mode << "\n";
    return 2;
}
