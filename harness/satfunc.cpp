// C15 harness: the real PiecewiseLinearTwoPhaseMaterial / EclEpsTwoPhaseLaw /
// EclHysteresisTwoPhaseLaw templates, instantiated directly, versus the Lean model (corr), and
// the property's own statement on the real code alone (prop).
#include <config.h>

#include <opm/material/fluidmatrixinteractions/EclEpsConfig.hpp>
#include <opm/material/fluidmatrixinteractions/EclEpsScalingPoints.hpp>
#include <opm/material/fluidmatrixinteractions/EclEpsTwoPhaseLaw.hpp>
#include <opm/material/fluidmatrixinteractions/EclHysteresisConfig.hpp>
#include <opm/material/fluidmatrixinteractions/EclHysteresisTwoPhaseLaw.hpp>
#include <opm/material/fluidmatrixinteractions/MaterialTraits.hpp>
#include <opm/material/fluidmatrixinteractions/PiecewiseLinearTwoPhaseMaterial.hpp>

#include <opm/input/eclipse/Deck/Deck.hpp>
#include <opm/input/eclipse/EclipseState/Runspec.hpp>
#include <opm/input/eclipse/Parser/Parser.hpp>

#include "common/vh.hpp"

#include <algorithm>
#include <cmath>
#include <iostream>
#include <map>
#include <memory>

using Traits = Opm::TwoPhaseMaterialTraits<double, 0, 1>;
using PL = Opm::PiecewiseLinearTwoPhaseMaterial<Traits>;
using Eps = Opm::EclEpsTwoPhaseLaw<PL>;
using Hyst = Opm::EclHysteresisTwoPhaseLaw<Eps>;
using Pts = Opm::EclEpsScalingPoints<double>;
using vh::hexF64;

static std::string hx(double d) { return std::isnan(d) ? std::string("nan") : hexF64(d); }
static std::string hxl(const std::vector<double>& v)
{
    if (v.empty()) return "-";
    std::string s;
    for (size_t i = 0; i < v.size(); ++i) { if (i) s += ','; s += hx(v[i]); }
    return s;
}
static std::string num(double d) { char b[40]; std::snprintf(b, sizeof b, "%.17g", d); return b; }

// ------------------------------------------------------------------------------------------
// random tables

struct Table { std::vector<double> sw, krw, krn, pc; };

// Sw strictly increasing in [swl, 1]; krw non-decreasing from 0, krn non-increasing to 0, pc
// non-increasing; `strict` removes every plateau (needed for invertibility)
static Table makeTable(vh::Rng& r, bool strict)
{
    Table t;
    const int n = r.range(2, 14);
    double sw = 0.05 + 0.25 * r.unit();
    const double step = (1.0 - sw) / (n - 1);
    for (int i = 0; i < n; ++i) {
        t.sw.push_back(i == n - 1 ? 1.0 : sw);
        sw += step * (0.3 + 0.7 * r.unit());
    }
    const int lowPlateau = strict ? 0 : r.range(0, std::max(0, n / 3));     // krw = 0 for the first samples
    const int highPlateau = strict ? 0 : r.range(0, std::max(0, n / 3));    // krn = 0 for the last samples
    double kw = 0.0, kn = 0.0, pc = 0.0;
    std::vector<double> krnRev;
    for (int i = 0; i < n; ++i) {
        if (i > lowPlateau || (strict && i > 0)) kw += 0.02 + 0.2 * r.unit();
        t.krw.push_back(kw);
        if (i > highPlateau || (strict && i > 0)) kn += 0.02 + 0.2 * r.unit();
        krnRev.push_back(kn);
        if (i > 0 && (strict || r.coin(3, 4))) pc += 1e4 * r.unit();
        t.pc.push_back(pc);
    }
    const double sw_ = std::max(1.0, kw) * (1 + 0.2 * r.unit()), sn_ = std::max(1.0, kn) * (1 + 0.2 * r.unit());
    for (int i = 0; i < n; ++i) { t.krw[i] /= sw_; t.krn.push_back(krnRev[n - 1 - i] / sn_); }
    std::reverse(t.pc.begin(), t.pc.end());
    return t;
}

static std::shared_ptr<PL::Params> plParams(const Table& t)
{
    auto p = std::make_shared<PL::Params>();
    p->setPcnwSamples(t.sw, t.pc);
    p->setKrwSamples(t.sw, t.krw);
    p->setKrnSamples(t.sw, t.krn);
    p->finalize();
    return p;
}
static std::string tableStr(const Table& t)
{
    return hxl(t.sw) + ";" + hxl(t.pc) + ";" + hxl(t.sw) + ";" + hxl(t.krw) + ";" + hxl(t.sw) + ";" + hxl(t.krn);
}

struct Points { double v[15]; };   // satPc(3) satKrw(3) satKrn(3) maxPcnw leverett krwr maxKrw krnr maxKrn

static Pts toPts(const Points& p)
{
    Pts q;
    for (unsigned i = 0; i < 3; ++i) { q.setSaturationPcPoint(i, p.v[i]); q.setSaturationKrwPoint(i, p.v[3 + i]); q.setSaturationKrnPoint(i, p.v[6 + i]); }
    q.setMaxPcnw(p.v[9]); /* maxPcnw and the Leverett factor share one member (maxPcnwOrLeverettFactor_) */ q.setKrwr(p.v[11]); q.setMaxKrw(p.v[12]); q.setKrnr(p.v[13]); q.setMaxKrn(p.v[14]);
    return q;
}
static std::string ptsStr(const Points& p) { std::vector<double> v(p.v, p.v + 15); v[10] = v[9]; return hxl(v); }

// the table's own end-points (what EclEpsScalingPointsInfo::extractUnscaled derives)
static Points unscaledOf(vh::Rng& r, const Table& t)
{
    Points p{};
    const int n = t.sw.size();
    const double swl = t.sw.front(), swu = t.sw.back();
    int icw = 0; while (icw + 1 < n && t.krw[icw + 1] <= 0.0) ++icw;             // last Sw with krw = 0
    int icn = n - 1; while (icn > 0 && t.krn[icn - 1] <= 0.0) --icn;             // first Sw with krn = 0
    const double swcr = t.sw[icw], swncr = t.sw[icn];
    p.v[0] = swl; p.v[1] = swcr; p.v[2] = swu;
    p.v[3] = swcr; p.v[4] = std::min(swncr, swu); p.v[5] = swu;                 // krw: [Swcr, 1-Sncr, Swu]
    p.v[6] = swl; p.v[7] = std::max(swcr, swl); p.v[8] = swncr;                  // krn: [Swl, Swcr, 1-Sncr]
    p.v[9] = t.pc.front(); p.v[10] = 0.5 + r.unit();
    auto at = [&](const std::vector<double>& ys, double s) { auto pp = plParams(t); (void) pp; double v = 0; for (int i = 0; i + 1 < n; ++i) if (t.sw[i] <= s && s <= t.sw[i + 1]) v = ys[i] + (ys[i + 1] - ys[i]) * (s - t.sw[i]) / (t.sw[i + 1] - t.sw[i]); return v; };
    p.v[11] = at(t.krw, p.v[4]); p.v[12] = t.krw.back();
    p.v[13] = at(t.krn, p.v[7]); p.v[14] = t.krn.front();
    return p;
}

static Points perturb(vh::Rng& r, const Points& u, int style)
{
    Points s = u;
    if (style == 0) return s;                                                    // identity scaling
    auto three = [&](int o) {
        double a = 0.02 + 0.3 * r.unit(), c = 0.65 + 0.35 * r.unit(), b = a + (c - a) * r.unit();
        if (style == 2 && r.coin(1, 4)) b = r.coin() ? a : c;                     // degenerate: sR = sL or sR = sU
        if (style == 2 && r.coin(1, 8)) b = c + 0.1;                              // sR beyond sU
        s.v[o] = a; s.v[o + 1] = b; s.v[o + 2] = c;
    };
    three(0); three(3); three(6);
    s.v[9] = u.v[9] * (0.3 + 2 * r.unit()); s.v[10] = 0.2 + 2 * r.unit();
    s.v[12] = 0.2 + 0.8 * r.unit(); s.v[11] = s.v[12] * r.unit();
    s.v[14] = 0.2 + 0.8 * r.unit(); s.v[13] = s.v[14] * r.unit();
    if (style == 2 && r.coin(1, 6)) s.v[11] = s.v[12];
    return s;
}

static std::shared_ptr<Opm::EclEpsConfig> makeCfg(const std::string& bits)
{
    auto c = std::make_shared<Opm::EclEpsConfig>();
    c->setEnableSatScaling(bits[0] == '1'); c->setEnableThreePointKrSatScaling(bits[1] == '1');
    c->setEnableKrwScaling(bits[2] == '1'); c->setEnableThreePointKrwScaling(bits[3] == '1');
    c->setEnableKrnScaling(bits[4] == '1'); c->setEnableThreePointKrnScaling(bits[5] == '1');
    c->setEnablePcScaling(bits[6] == '1'); c->setEnableLeverettScaling(bits[7] == '1');
    return c;
}
static std::string randomCfg(vh::Rng& r)
{
    std::string b(8, '0');
    for (int i = 0; i < 8; ++i) b[i] = r.coin() ? '1' : '0';
    if (r.coin(3, 4)) b[7] = '0';
    return b;
}

// EclEpsTwoPhaseLawParams keeps raw pointers to the unscaled points and to the effective law's
// parameters (`value.get()`): their owners must outlive it.
static std::vector<std::shared_ptr<void>> keepAlive;

static Eps::Params epsParams(const std::string& bits, const Table& t, const Points& u, const Points& s)
{
    Eps::Params p;
    auto up = std::make_shared<Pts>(toPts(u));
    auto ep = plParams(t);
    keepAlive.push_back(up); keepAlive.push_back(ep);
    p.setConfig(makeCfg(bits));
    p.setUnscaledPoints(up);
    p.setScaledPoints(toPts(s));
    p.setEffectiveLawParams(ep);
    p.finalize();
    return p;
}

static std::vector<double> swGrid(vh::Rng& r, const Points& s, int extra)
{
    std::vector<double> q;
    for (int i = 0; i < 9; ++i) { q.push_back(s.v[i]); q.push_back(std::nextafter(s.v[i], 2.0)); q.push_back(std::nextafter(s.v[i], -1.0)); }
    for (int k = 0; k <= extra; ++k) q.push_back(k / double(extra));
    for (int k = 0; k < 6; ++k) q.push_back(r.unit() * 1.2 - 0.1);
    return q;
}

// ------------------------------------------------------------------------------------------

static void corrPL(vh::Rng& r, vh::Sink& sink, int cases)
{
    for (int c = 0; c < cases; ++c) {
        Table t = makeTable(r, r.coin(1, 3));
        auto p = plParams(t);
        std::vector<double> qs;
        for (size_t i = 0; i < t.sw.size(); ++i) {
            qs.push_back(t.sw[i]); qs.push_back(std::nextafter(t.sw[i], 2.0)); qs.push_back(std::nextafter(t.sw[i], -1.0));
            if (i + 1 < t.sw.size()) qs.push_back(t.sw[i] + (t.sw[i + 1] - t.sw[i]) * r.unit());
        }
        qs.push_back(-0.2); qs.push_back(1.3); qs.push_back(0.0);
        auto fwd = [&](const std::vector<double>& ys, int which) {
            std::string a;
            for (size_t k = 0; k < qs.size(); ++k) {
                const double v = which == 0 ? PL::twoPhaseSatKrw(*p, qs[k]) : which == 1 ? PL::twoPhaseSatKrn(*p, qs[k]) : PL::twoPhaseSatPcnw(*p, qs[k]);
                if (k) a += ' ';
                a += hx(v);
            }
            sink.emit("satfunc.pl " + hxl(t.sw) + " " + hxl(ys) + " " + hxl(qs), a);
        };
        fwd(t.krw, 0); fwd(t.krn, 1); fwd(t.pc, 2);
        auto inv = [&](const std::vector<double>& xs, int which) {
            std::vector<double> vq;
            for (double x : xs) { vq.push_back(x); vq.push_back(std::nextafter(x, 1e9)); vq.push_back(std::nextafter(x, -1e9)); }
            const double lo = *std::min_element(xs.begin(), xs.end()), hi = *std::max_element(xs.begin(), xs.end());
            for (int k = 0; k < 8; ++k) vq.push_back(lo + (hi - lo) * (r.unit() * 1.4 - 0.2));
            std::string a;
            for (size_t k = 0; k < vq.size(); ++k) {
                const double v = which == 0 ? PL::twoPhaseSatKrwInv(*p, vq[k]) : which == 1 ? PL::twoPhaseSatKrnInv(*p, vq[k]) : PL::twoPhaseSatPcnwInv(*p, vq[k]);
                if (k) a += ' ';
                a += hx(v);
            }
            sink.emit("satfunc.pl " + hxl(xs) + " " + hxl(t.sw) + " " + hxl(vq), a);
            sink.count(xs.front() < xs.back() ? "pl.inv.ascending" : "pl.inv.descending");
        };
        inv(t.krw, 0); inv(t.krn, 1); inv(t.pc, 2);
        sink.count("pl.n=" + std::to_string(std::min<size_t>(t.sw.size(), 9)) + (t.sw.size() > 9 ? "+" : ""));
    }
}

static void corrEps(vh::Rng& r, vh::Sink& sink, int cases)
{
    for (int c = 0; c < cases; ++c) {
        Table t = makeTable(r, r.coin(1, 4));
        const std::string bits = randomCfg(r);
        const int style = r.range(0, 2);
        Points u = unscaledOf(r, t), s = perturb(r, u, style);
        Eps::Params p = epsParams(bits, t, u, s);
        std::vector<double> qs = swGrid(r, s, 24);
        std::string a;
        for (size_t k = 0; k < qs.size(); ++k) {
            const double sw = qs[k];
            const double su = Eps::scaledToUnscaledSatKrn(p, sw);
            if (k) a += ' ';
            a += hx(Eps::twoPhaseSatKrw(p, sw)) + "/" + hx(Eps::twoPhaseSatKrn(p, sw)) + "/" + hx(Eps::twoPhaseSatPcnw(p, sw)) + "/" +
                 hx(Eps::scaledToUnscaledSatKrw(p, sw)) + "/" + hx(su) + "/" + hx(Eps::unscaledToScaledSatKrn(p, su));
        }
        sink.emit("satfunc.eps " + bits + " " + tableStr(t) + " " + ptsStr(u) + " " + ptsStr(s) + " " + hxl(qs), a);
        std::vector<double> ks;
        for (double k : t.krn) { ks.push_back(k); ks.push_back(k * s.v[14] / std::max(u.v[14], 1e-9)); }
        for (int k = 0; k < 6; ++k) ks.push_back(r.unit() * 1.1 - 0.05);
        std::string b;
        for (size_t k = 0; k < ks.size(); ++k) { if (k) b += ' '; b += hx(Eps::twoPhaseSatKrnInv(p, ks[k])); }
        sink.emit("satfunc.epsinv " + bits + " " + tableStr(t) + " " + ptsStr(u) + " " + ptsStr(s) + " " + hxl(ks), b);
        sink.count("eps.cfg.sat=" + bits.substr(0, 2)); sink.count("eps.cfg.krw=" + bits.substr(2, 2)); sink.count("eps.cfg.krn=" + bits.substr(4, 2));
        sink.count("eps.style=" + std::to_string(style));
    }
}

struct HystSetup {
    std::string bits; Table tD, tI; Points uD, sD, uI, sI; int model;
    Hyst::Params params;
};

static std::vector<double> history(vh::Rng& r, int n, int style)
{
    std::vector<double> h;
    double sw = 0.6 + 0.4 * r.unit();
    for (int i = 0; i < n; ++i) {
        switch (style) {
        case 0: sw -= 0.08 * r.unit(); break;                               // pure drainage
        case 1: sw += (r.unit() - 0.55) * 0.2; break;                       // random walk with reversals
        default: sw = r.unit(); break;                                       // arbitrary
        }
        sw = std::min(1.0, std::max(0.0, sw));
        h.push_back(sw);
    }
    return h;
}

static void makeHyst(vh::Rng& r, HystSetup& H, bool identicalCurves, bool strict, bool scaling)
{
    H.tD = makeTable(r, strict);
    H.tI = identicalCurves ? H.tD : makeTable(r, strict);
    H.bits = scaling ? randomCfg(r) : std::string("00000000");
    H.uD = unscaledOf(r, H.tD); H.uI = unscaledOf(r, H.tI);
    H.sD = scaling ? perturb(r, H.uD, 1) : H.uD;
    H.sI = identicalCurves ? H.sD : (scaling ? perturb(r, H.uI, 1) : H.uI);
    H.model = r.range(0, 1);
    auto cfg = std::make_shared<Opm::EclHysteresisConfig>();
    cfg->setEnableHysteresis(true); cfg->setPcHysteresisModel(-1); cfg->setKrHysteresisModel(H.model);
    Opm::EclEpsScalingPointsInfo<double> info{};
    H.params = Hyst::Params();
    H.params.setConfig(cfg);
    H.params.setDrainageParams(epsParams(H.bits, H.tD, H.uD, H.sD), info, Opm::EclTwoPhaseSystemType::OilWater);
    H.params.setImbibitionParams(epsParams(H.bits, H.tI, H.uI, H.sI), info, Opm::EclTwoPhaseSystemType::OilWater);
    H.params.finalize();
}

static void corrHyst(vh::Rng& r, vh::Sink& sink, int cases)
{
    for (int c = 0; c < cases; ++c) {
        HystSetup H;
        const bool same = r.coin(1, 4), scaling = r.coin(1, 3);
        makeHyst(r, H, same, r.coin(), scaling);
        const int style = r.range(0, 2);
        std::vector<double> h = history(r, r.range(1, 25), style), probes;
        for (int k = 0; k < 5; ++k) probes.push_back(r.unit());
        const double start = H.params.krnSwMdc();
        std::string a;
        for (size_t k = 0; k < h.size(); ++k) {
            H.params.update(h[k], h[k], h[k]);
            if (k) a += ' ';
            a += hx(H.params.krnSwMdc()) + "/" + hx(H.params.deltaSwImbKrn()) + "/" + hx(Hyst::twoPhaseSatKrn(H.params, h[k]));
            for (double p : probes) a += "/" + hx(Hyst::twoPhaseSatKrn(H.params, p));
        }
        sink.emit("satfunc.hyst " + H.bits + " " + tableStr(H.tD) + " " + ptsStr(H.uD) + " " + ptsStr(H.sD) + " " +
                  tableStr(H.tI) + " " + ptsStr(H.uI) + " " + ptsStr(H.sI) + " " + hx(start) + " " + hxl(h) + " " + hxl(probes), a);
        sink.count("hyst.style=" + std::to_string(style)); sink.count(same ? "hyst.identical" : "hyst.different"); sink.count(scaling ? "hyst.scaled" : "hyst.unscaled");
        sink.count("hyst.model=" + std::to_string(H.model));
    }
}


// Killough's model for the non-wetting phase (krHysteresisModel 2 / 3).  The hysteresis configuration has no
// setter for the trapping regularisation parameter: it is read from a RUNSPEC/EHYSTR pair as the deck level does.
static std::shared_ptr<Opm::EclHysteresisConfig> killoughCfg(int model, double modParam)
{
    const std::string txt = "RUNSPEC\nOIL\nWATER\nSATOPTS\n HYSTER /\nPROPS\nEHYSTR\n 0.1 " + std::to_string(model) + " 1.0 " + num(modParam) + " KR /\n";
    Opm::Parser parser;
    const auto deck = parser.parseString(txt);
    const Opm::Runspec rs(deck);
    auto cfg = std::make_shared<Opm::EclHysteresisConfig>();
    cfg->initFromState(rs);
    return cfg;
}

static void corrKillough(vh::Rng& r, vh::Sink& sink, int cases)
{
    for (int c = 0; c < cases; ++c) {
        const bool scaling = r.coin(1, 3);
        Table tD = makeTable(r, r.coin()), tI = r.coin(1, 5) ? tD : makeTable(r, r.coin());
        const std::string bits = scaling ? randomCfg(r) : std::string("00000000");
        Points uD = unscaledOf(r, tD), uI = unscaledOf(r, tI);
        Points sD = scaling ? perturb(r, uD, 1) : uD, sI = scaling ? perturb(r, uI, 1) : uI;
        const int model = r.range(2, 3);
        auto cfg = killoughCfg(model, r.coin(1, 4) ? 0.0 : 0.3 * r.unit());
        Opm::EclEpsScalingPointsInfo<double> infoD{}, infoI{};
        // oil-water system: Sncrd = Sowcr(drainage), Snmaxd = 1 - Swl - Sgl, Sncri = Sowcr(imbibition)
        infoD.Swl = sD.v[6]; infoD.Sgl = r.coin(3, 4) ? 0.0 : 0.03 * r.unit(); infoD.Sowcr = 1.0 - sD.v[8];
        infoI = infoD; infoI.Sowcr = r.coin(1, 8) ? infoD.Sowcr : infoD.Sowcr + 0.3 * r.unit();
        Hyst::Params P;
        P.setConfig(cfg);
        P.setDrainageParams(epsParams(bits, tD, uD, sD), infoD, Opm::EclTwoPhaseSystemType::OilWater);
        P.setImbibitionParams(epsParams(bits, tI, uI, sI), infoI, Opm::EclTwoPhaseSystemType::OilWater);
        P.finalize();
        const int style = r.range(0, 2);
        std::vector<double> h = history(r, r.range(1, 20), style), probes;
        for (int k = 0; k < 5; ++k) probes.push_back(r.unit());
        const double start = P.krnSwMdc();
        std::string a = hx(P.krnSwMdc()) + "/" + hx(P.Sncrt()) + "/" + hx(Hyst::twoPhaseSatKrn(P, 0.5));
        for (double p : probes) a += "/" + hx(Hyst::twoPhaseSatKrn(P, p));
        for (size_t k = 0; k < h.size(); ++k) {
            P.update(h[k], h[k], h[k]);
            a += " " + hx(P.krnSwMdc()) + "/" + hx(P.Sncrt()) + "/" + hx(Hyst::twoPhaseSatKrn(P, h[k]));
            for (double p : probes) a += "/" + hx(Hyst::twoPhaseSatKrn(P, p));
        }
        const std::vector<double> stat = {P.Sncrd(), P.Sncri(), P.Snmaxd(), cfg->modParamTrapped()};
        sink.emit("satfunc.killough " + bits + " " + tableStr(tD) + " " + ptsStr(uD) + " " + ptsStr(sD) + " " +
                  tableStr(tI) + " " + ptsStr(uI) + " " + ptsStr(sI) + " " + hxl(stat) + " " + hx(start) + " " + hxl(h) + " " + hxl(probes), a);
        sink.count("killough.model=" + std::to_string(model)); sink.count("killough.style=" + std::to_string(style));
        sink.count(scaling ? "killough.scaled" : "killough.unscaled");
    }
}


// ------------------------------------------------------------------------------------------
// third round: the complete hysteresis object (relperm models -1..4, Killough Pc hysteresis, the three two-phase
// system types, update(pcSw, krwSw, krnSw) with independent saturations)

static std::shared_ptr<Opm::EclHysteresisConfig> fullCfg(bool enabled, int model, double modParam, double curvature, const std::string& flag)
{
    auto cfg = std::make_shared<Opm::EclHysteresisConfig>();
    if (!enabled) return cfg;
    const std::string txt = "RUNSPEC\nOIL\nWATER\nGAS\nSATOPTS\n HYSTER /\nPROPS\nEHYSTR\n " + num(curvature) + " " + std::to_string(model) + " 1.0 " + num(modParam) + " " + flag + " /\n";
    Opm::Parser parser;
    const auto deck = parser.parseString(txt);
    const Opm::Runspec rs(deck);
    cfg->initFromState(rs);
    return cfg;
}

// an EclEpsScalingPointsInfo consistent with the scaled points of a two-phase law (optionally perturbed)
static Opm::EclEpsScalingPointsInfo<double> infoFor(vh::Rng& r, int sys, const Points& s, bool noisy)
{
    Opm::EclEpsScalingPointsInfo<double> in{};
    const double sncr = 1.0 - s.v[8], snmax = 1.0 - s.v[6], swcr = s.v[3], swmax = s.v[5];
    const double w = 0.02 + 0.1 * r.unit();
    in.Swl = 0.05; in.Sgl = 0.0; in.Swcr = 0.1; in.Sgcr = 0.05; in.Sowcr = 0.1; in.Sogcr = 0.1; in.Swu = 1.0; in.Sgu = 0.9;
    in.maxPcow = s.v[9]; in.maxPcgo = s.v[9];
    if (sys == 0) { in.Sgl = r.coin(3, 4) ? 0.0 : 0.03 * r.unit(); in.Swl = s.v[6] - in.Sgl; in.Sowcr = sncr; in.Swcr = swcr; in.Swu = swmax; in.maxPcgo = 1e4 * r.unit(); }
    else if (sys == 1) { in.Swl = w; in.Sgcr = sncr - w; in.Sgu = snmax - w; in.Sogcr = swcr; in.Sgl = 1.0 - swmax - w; in.maxPcow = 1e4 * r.unit(); }
    else { in.Sgcr = sncr; in.Sgu = snmax; in.Swcr = swcr; in.Swu = swmax; in.Sgl = 1.0 - swmax; in.Swl = s.v[0]; in.maxPcow = 0.6 * s.v[9]; in.maxPcgo = s.v[9] - in.maxPcow; }
    if (noisy) {
        double* f[] = {&in.Swl, &in.Sgl, &in.Swcr, &in.Sgcr, &in.Sowcr, &in.Sogcr, &in.Swu, &in.Sgu};
        for (double* x : f) if (r.coin(1, 3)) *x = std::min(1.0, std::max(0.0, *x + 0.1 * (r.unit() - 0.5)));
    }
    return in;
}
static std::string infoStr(const Opm::EclEpsScalingPointsInfo<double>& in)
{
    return hxl({in.Swl, in.Sgl, in.Swcr, in.Sgcr, in.Sowcr, in.Sogcr, in.Swu, in.Sgu, in.maxPcow, in.maxPcgo});
}

struct Triple { double pc, krw, krn; };

static std::vector<Triple> tripleHistory(vh::Rng& r, int n, int style, int coupling)
{
    std::vector<Triple> h;
    std::vector<double> a = history(r, n, style), b = history(r, n, style), c = history(r, n, style);
    if (r.coin(1, 3)) a[0] = 0.3 * r.unit();                        // a low first saturation: the "initial imbibition" branch
    for (int i = 0; i < n; ++i) {
        Triple t{a[i], a[i], a[i]};                                   // EclTwoPhaseMaterial: the same saturation three times
        if (coupling == 1) t.krn = std::min(1.0, a[i] + 0.3 * b[i] * (1 - a[i]));   // three-phase oil-water: krnSw = 1 - So >= Sw
        if (coupling == 2) { t.krw = b[i]; t.krn = c[i]; }
        h.push_back(t);
    }
    if (n > 2 && r.coin(1, 4)) h[n - 1] = h[n - 2];                 // a repeated step
    return h;
}

struct FullSetup {
    int sys, model; bool enabled; std::string flag, bits; double modParam, curv;
    Table tD, tI; Points uD, sD, uI, sI;
    Opm::EclEpsScalingPointsInfo<double> infoD, infoI;
    std::shared_ptr<Opm::EclHysteresisConfig> cfg;
    Hyst::Params P;
};

static const Opm::EclTwoPhaseSystemType SYS[3] = {Opm::EclTwoPhaseSystemType::OilWater, Opm::EclTwoPhaseSystemType::GasOil, Opm::EclTwoPhaseSystemType::GasWater};

static void makeFull(vh::Rng& r, FullSetup& F, int model, const std::string& flag, bool strict, bool same, bool scaling, bool noisy, bool enabled = true)
{
    F.sys = r.range(0, 2); F.model = model; F.flag = flag; F.enabled = enabled;
    F.modParam = r.coin(1, 4) ? 0.0 : 0.3 * r.unit(); F.curv = r.coin(1, 6) ? 0.1 : 0.02 + 0.5 * r.unit();
    F.tD = makeTable(r, strict); F.tI = same ? F.tD : makeTable(r, strict);
    F.bits = scaling ? randomCfg(r) : std::string("00000000");
    F.uD = unscaledOf(r, F.tD); F.uI = unscaledOf(r, F.tI);
    F.sD = scaling ? perturb(r, F.uD, 1) : F.uD;
    F.sI = same ? F.sD : (scaling ? perturb(r, F.uI, 1) : F.uI);
    F.cfg = fullCfg(enabled, model, F.modParam, F.curv, flag);
    F.infoD = infoFor(r, F.sys, F.sD, noisy);
    F.infoI = same && !noisy ? F.infoD : infoFor(r, F.sys, F.sI, noisy);
    if (!same && F.sys == 1) { const double dw = F.infoI.Swl - F.infoD.Swl; F.infoI.Swl -= dw; F.infoI.Sgcr += dw; F.infoI.Sgu += dw; F.infoI.Sgl += dw; }
    F.P = Hyst::Params();
    F.P.setConfig(F.cfg);
    F.P.setDrainageParams(epsParams(F.bits, F.tD, F.uD, F.sD), F.infoD, SYS[F.sys]);
    F.P.setImbibitionParams(epsParams(F.bits, F.tI, F.uI, F.sI), F.infoI, SYS[F.sys]);
    F.P.finalize();
}

static std::string fullState(const Hyst::Params& P, bool changed, const std::vector<double>& probes)
{
    std::string a = hx(P.pcSwMdc()) + "/" + hx(P.pcSwMic()) + "/" + (P.initialImb() ? "1" : "0") + "/" + hx(P.krnSwMdc()) + "/" + hx(P.krwSwMdc()) + "/" +
                    hx(P.deltaSwImbKrn()) + "/" + hx(P.Sncrt()) + "/" + hx(P.Swcrt()) + "/" + hx(P.KrwdHy()) + "/" + hx(P.Krwd_sncrt()) + "/" + hx(P.krnWght()) + "/" + (changed ? "1" : "0");
    for (double q : probes) a += "/" + hx(Hyst::twoPhaseSatKrw(P, q)) + ":" + hx(Hyst::twoPhaseSatKrn(P, q)) + ":" + hx(Hyst::twoPhaseSatPcnw(P, q));
    return a;
}

static void corrHystFull(vh::Rng& r, vh::Sink& sink, int cases)
{
    static const char* FLAGS[3] = {"KR", "PC", "BOTH"};
    static const char* SYSN[3] = {"ow", "go", "gw"};
    for (int c = 0; c < cases; ++c) {
        FullSetup F;
        const int model = r.range(0, 4);
        const std::string flag = FLAGS[r.range(0, 2)];
        const bool enabled = !r.coin(1, 12);
        const bool same = r.coin(1, 5), scaling = r.coin(1, 3), noisy = r.coin(1, 4);
        makeFull(r, F, model, flag, r.coin(), same, scaling, noisy, enabled);
        const int style = r.range(0, 2), coupling = r.range(0, 2);
        std::vector<Triple> h = tripleHistory(r, r.range(1, 16), style, coupling);
        std::vector<double> probes;
        for (int k = 0; k < 4; ++k) probes.push_back(r.unit());
        probes.push_back(h.back().krn); probes.push_back(std::min(1.0, h.back().pc + 0.05 * r.unit()));
        const Hyst::Params& P = F.P;
        std::string a = hx(P.Sncrd()) + "/" + hx(P.Sncri()) + "/" + hx(P.Snmaxd()) + "/" + hx(P.Swcrd()) + "/" + hx(P.Swcri()) + "/" + hx(P.Swmaxd()) + "/" + hx(P.Swmaxi()) + "/" +
                        hx(P.krwdMax()) + "/" + hx(P.Krwd_sncri()) + "/" + hx(P.Krwi_snmax()) + "/" + hx(P.Krwi_snrmax()) + "/" + hx(P.pcWght()) + "/" + hx(P.curvatureCapPrs());
        a += " " + fullState(F.P, false, probes);
        std::string hs;
        for (size_t k = 0; k < h.size(); ++k) {
            const bool chg = F.P.update(h[k].pc, h[k].krw, h[k].krn);
            a += " " + fullState(F.P, chg, probes);
            if (k) hs += ';';
            hs += hx(h[k].pc) + "," + hx(h[k].krw) + "," + hx(h[k].krn);
        }
        sink.emit(std::string("satfunc.hystfull ") + SYSN[F.sys] + " " + (enabled ? "1" : "0") + " " + std::to_string(F.cfg->krHysteresisModel()) + " " + std::to_string(F.cfg->pcHysteresisModel()) + " " +
                  hxl({F.cfg->modParamTrapped(), F.cfg->curvatureCapPrs()}) + " " + F.bits + " " + tableStr(F.tD) + " " + ptsStr(F.uD) + " " + ptsStr(F.sD) + " " +
                  tableStr(F.tI) + " " + ptsStr(F.uI) + " " + ptsStr(F.sI) + " " + infoStr(F.infoD) + " " + infoStr(F.infoI) + " " + hs + " " + hxl(probes), a);
        sink.count(std::string("full.sys=") + SYSN[F.sys]); sink.count("full.krModel=" + std::to_string(F.cfg->krHysteresisModel()));
        sink.count("full.pcModel=" + std::to_string(F.cfg->pcHysteresisModel())); sink.count("full.coupling=" + std::to_string(coupling));
        sink.count(F.P.initialImb() ? "full.initialImb" : "full.initialDrainage"); sink.count(scaling ? "full.scaled" : "full.unscaled");
    }
}

// ------------------------------------------------------------------------------------------
// property mode

static bool close(double a, double b, double rel, double abs0 = 0.0) { return std::fabs(a - b) <= rel * std::max(std::fabs(a), std::fabs(b)) + abs0; }

static void propAll(vh::Rng& r, vh::PropLog& log, int cases)
{
    auto chk = [&](bool ok, const std::string& key, const std::string& detail) { log.ok(); if (!ok) log.fail(key, detail); };
    for (int c = 0; c < cases; ++c) {
        // --- tables: node honouring, monotone interpolation, range
        Table t = makeTable(r, r.coin(1, 3));
        auto p = plParams(t);
        const int n = t.sw.size();
        for (int i = 0; i < n; ++i) {
            chk(close(PL::twoPhaseSatKrw(*p, t.sw[i]), t.krw[i], 1e-12, 1e-15), "node.krw", "i=" + std::to_string(i) + " n=" + std::to_string(n));
            chk(close(PL::twoPhaseSatKrn(*p, t.sw[i]), t.krn[i], 1e-12, 1e-15), "node.krn", "i=" + std::to_string(i));
            chk(close(PL::twoPhaseSatPcnw(*p, t.sw[i]), t.pc[i], 1e-12, 1e-9), "node.pc", "i=" + std::to_string(i));
        }
        double pw = -1, pn = 2, ppc = 1e300;
        const double kwmax = t.krw.back(), knmax = t.krn.front(), pcmax = t.pc.front();
        for (int k = -5; k <= 205; ++k) {
            const double sw = k / 200.0;
            const double kw = PL::twoPhaseSatKrw(*p, sw), kn = PL::twoPhaseSatKrn(*p, sw), pc = PL::twoPhaseSatPcnw(*p, sw);
            chk(kw >= pw - 1e-15 && kn <= pn + 1e-15 && pc <= ppc + 1e-9, "monotone", "sw=" + num(sw));
            chk(kw >= 0 && kw <= kwmax * (1 + 1e-14) && kn >= 0 && kn <= knmax * (1 + 1e-14) && pc >= t.pc.back() - 1e-9 && pc <= pcmax * (1 + 1e-14), "range", "sw=" + num(sw) + " krw=" + num(kw) + " krn=" + num(kn));
            pw = kw; pn = kn; ppc = pc;
        }
        // --- end-point scaling
        Points u = unscaledOf(r, t);
        {   // identity: scaled points = table's own points, every combination of switches
            const std::string bits = randomCfg(r).substr(0, 7) + "0";
            const bool degenerate = (bits[3] == '1' && !(u.v[11] > 0 && u.v[11] < u.v[12])) || (bits[5] == '1' && !(u.v[13] > 0 && u.v[13] < u.v[14])) ||
                                    (bits[1] == '1' && !(u.v[3] < u.v[4] && u.v[4] < u.v[5] && u.v[6] < u.v[7] && u.v[7] < u.v[8]));
            if (!degenerate) {
                Eps::Params e = epsParams(bits, t, u, u);
                for (int k = 0; k <= 100; ++k) {
                    const double sw = u.v[0] + (u.v[2] - u.v[0]) * k / 100.0;
                    chk(close(Eps::twoPhaseSatKrw(e, sw), PL::twoPhaseSatKrw(*p, sw), 1e-11, 1e-14), "identity.krw", "cfg=" + bits + " sw=" + num(sw) + " scaled " + num(Eps::twoPhaseSatKrw(e, sw)) + " table " + num(PL::twoPhaseSatKrw(*p, sw)));
                    chk(close(Eps::twoPhaseSatKrn(e, sw), PL::twoPhaseSatKrn(*p, sw), 1e-11, 1e-14), "identity.krn", "cfg=" + bits + " sw=" + num(sw) + " scaled " + num(Eps::twoPhaseSatKrn(e, sw)) + " table " + num(PL::twoPhaseSatKrn(*p, sw)));
                    chk(close(Eps::twoPhaseSatPcnw(e, sw), PL::twoPhaseSatPcnw(*p, sw), 1e-11, 1e-9), "identity.pc", "cfg=" + bits + " sw=" + num(sw));
                }
            }
        }
        {   // end-point mapping, horizontal scaling only
            Points s = perturb(r, u, 1);
            for (const char* bits : {"10000000", "11000000"}) {
                Eps::Params e = epsParams(bits, t, u, s);
                const bool three = bits[1] == '1';
                chk(close(Eps::scaledToUnscaledSatKrw(e, s.v[3]), u.v[3], 1e-12, 1e-15), "endpoint.krw.lower", bits);
                chk(close(Eps::scaledToUnscaledSatKrw(e, s.v[5]), u.v[5], 1e-12, 1e-15), "endpoint.krw.upper", bits);
                chk(close(Eps::scaledToUnscaledSatKrn(e, s.v[6]), u.v[6], 1e-12, 1e-15), "endpoint.krn.lower", bits);
                chk(close(Eps::scaledToUnscaledSatKrn(e, s.v[8]), u.v[8], 1e-12, 1e-15), "endpoint.krn.upper", bits);
                chk(close(Eps::scaledToUnscaledSatPc(e, s.v[0]), u.v[0], 1e-12, 1e-15) && close(Eps::scaledToUnscaledSatPc(e, s.v[2]), u.v[2], 1e-12, 1e-15), "endpoint.pc", bits);
                if (three && u.v[3] <= u.v[4] && u.v[4] <= u.v[5])
                    chk(close(Eps::scaledToUnscaledSatKrw(e, s.v[4]), u.v[4], 1e-12, 1e-15), "endpoint.krw.critical", std::string(bits) + " got " + num(Eps::scaledToUnscaledSatKrw(e, s.v[4])) + " want " + num(u.v[4]));
                if (three && u.v[6] <= u.v[7] && u.v[7] <= u.v[8])
                    chk(close(Eps::scaledToUnscaledSatKrn(e, s.v[7]), u.v[7], 1e-12, 1e-15), "endpoint.krn.critical", bits);
                // relperm at the scaled end-points = table value at the table end-points
                chk(close(Eps::twoPhaseSatKrw(e, s.v[5]), t.krw.back(), 1e-12, 1e-15), "endpoint.krw.value", bits);
                chk(close(Eps::twoPhaseSatKrn(e, s.v[6]), t.krn.front(), 1e-12, 1e-15), "endpoint.krn.value", bits);
                double prev = -1e9;
                for (int k = -10; k <= 110; ++k) {                                   // monotone, three-point clamped outside
                    const double sw = s.v[3] + (s.v[5] - s.v[3]) * k / 100.0;
                    const double su = Eps::scaledToUnscaledSatKrw(e, sw);
                    chk(su >= prev - 1e-15, "endpoint.monotone", std::string(bits) + " sw=" + num(sw));
                    if (three) chk(su >= u.v[3] - 1e-15 && su <= u.v[5] + 1e-15, "endpoint.clamped", std::string(bits) + " sw=" + num(sw));
                    prev = su;
                    if (!three) chk(close(Eps::unscaledToScaledSatKrw(e, su), sw, 1e-11, 1e-13), "endpoint.inverse", std::string(bits) + " sw=" + num(sw));
                }
            }
        }
        // --- hysteresis (Carlson)
        {
            HystSetup H;
            makeHyst(r, H, false, true, false);
            const Eps::Params drain = H.params.drainageParams(), imb = H.params.imbibitionParams();
            // drainage until the first reversal
            std::vector<double> h = history(r, 15, 0);
            for (double sw : h) {
                H.params.update(sw, sw, sw);
                chk(Hyst::twoPhaseSatKrn(H.params, sw) == Eps::twoPhaseSatKrn(drain, sw), "hyst.drainage-until-reversal", "sw=" + num(sw));
            }
            // running minimum
            std::vector<double> h2 = history(r, 20, r.range(1, 2));
            double mn = H.params.krnSwMdc();
            for (double sw : h2) { H.params.update(sw, sw, sw); mn = std::min(mn, sw); chk(H.params.krnSwMdc() == mn, "hyst.minimum", "sw=" + num(sw)); }
            // scanning curve starts on the drainage curve at the reversal point
            const double m = H.params.krnSwMdc();
            const double kd = Eps::twoPhaseSatKrn(drain, m);
            if (kd > 0 && kd < H.tI.krn.front()) {          // value inside the strictly monotone range of the imbibition curve
                const double scan = Eps::twoPhaseSatKrn(imb, m + H.params.deltaSwImbKrn());
                chk(close(scan, kd, 1e-9, 1e-13), "hyst.scan-continuous", "reversal at " + num(m) + " drainage " + num(kd) + " scanning " + num(scan));
                const double above = Hyst::twoPhaseSatKrn(H.params, std::nextafter(m, 2.0));
                chk(close(above, kd, 1e-9, 1e-12), "hyst.scan-continuous", "just above the reversal point: " + num(above) + " vs " + num(kd));
                double prev = 2;
                for (int k = 0; k <= 50; ++k) {             // scanning curve monotone
                    const double sw = m + (1 - m) * k / 50.0;
                    const double v = Hyst::twoPhaseSatKrn(H.params, sw);
                    chk(v <= prev + 1e-15, "hyst.scan-monotone", "sw=" + num(sw));
                    prev = v;
                }
            }
        }
        {   // identical curves: nothing changes, whatever the history
            HystSetup H;
            makeHyst(r, H, true, true, false);
            const Eps::Params drain = H.params.drainageParams();
            std::vector<double> h = history(r, 20, r.range(0, 2));
            const double lo = H.tD.sw.front(), hi = H.tD.sw.back();
            for (double sw : h) {
                sw = lo + (hi - lo) * sw;
                H.params.update(sw, sw, sw);
                for (int k = 0; k <= 20; ++k) {
                    const double q = lo + (hi - lo) * k / 20.0;
                    chk(close(Hyst::twoPhaseSatKrn(H.params, q), Eps::twoPhaseSatKrn(drain, q), 1e-9, 1e-12), "hyst.carlson-identity", "q=" + num(q) + " mdc=" + num(H.params.krnSwMdc()) + " delta=" + num(H.params.deltaSwImbKrn()));
                }
            }
        }
    }
}

// third round, property mode: the complete hysteresis object on the real code alone
static std::map<std::string, long> g_keyCount;      // how often each statement of propFull was evaluated (written to prop_stats.json)

static bool closeF(double a, double b, double rel, double abs0 = 0.0) { return std::isfinite(a) && std::isfinite(b) && close(a, b, rel, abs0); }

static void propFull(vh::Rng& r, vh::PropLog& log, int cases)
{
    auto chk = [&](bool ok, const std::string& key, const std::string& detail) { log.ok(); ++g_keyCount[key]; if (!ok) log.fail(key, detail); };
    static const char* FLAGS[3] = {"KR", "PC", "BOTH"};
    static const char* SYSN[3] = {"ow", "go", "gw"};
    for (int c = 0; c < cases; ++c) {
        FullSetup F;
        const int model = r.range(0, 4);
        const std::string flag = FLAGS[r.range(0, 2)];
        const bool same = r.coin(1, 3);
        // tables with plateaus (non-zero critical saturations: with strictly monotone tables Sncrd = Sncri = 0 and Land's
        // formula degenerates); for different curves prefer an imbibition critical saturation above the drainage one
        for (int attempt = 0; attempt < 6; ++attempt) {
            makeFull(r, F, model, flag, /*strict=*/r.coin(1, 4), same, /*scaling=*/false, /*noisy=*/false);
            if (same || (1.0 - F.sI.v[8]) >= (1.0 - F.sD.v[8])) break;
        }
        const int krModel = F.cfg->krHysteresisModel(), pcModel = F.cfg->pcHysteresisModel();
        const std::string tag = std::string(SYSN[F.sys]) + " kr=" + std::to_string(krModel) + " pc=" + std::to_string(pcModel) + (same ? " same" : " diff") + " ";
        const Eps::Params drain = F.P.drainageParams(), imb = F.P.imbibitionParams();
        // the end-points of the two curves as the (scaled) end-point infos give them for this two-phase system — used to
        // decide where a statement applies, never taken from the object under test
        const auto& iD = F.infoD; const auto& iI = F.infoI;
        const double eSncrd = F.sys == 1 ? iD.Sgcr + iD.Swl : F.sys == 2 ? iD.Sgcr : iD.Sowcr;
        const double eSncri = F.sys == 1 ? iI.Sgcr + iI.Swl : F.sys == 2 ? iI.Sgcr : iI.Sowcr;
        const double eSnmaxd = F.sys == 1 ? iD.Sgu + iD.Swl : F.sys == 2 ? iD.Sgu : 1.0 - iD.Swl - iD.Sgl;
        const bool landOk = eSncri >= eSncrd && eSncri + 1e-9 <= eSnmaxd;
        const int coupling = r.range(0, 2);
        std::vector<Triple> h = tripleHistory(r, r.range(2, 14), r.range(0, 2), coupling);
        double mnKrn = F.P.krnSwMdc(), mxKrw = F.P.krwSwMdc(), mnPc = F.P.pcSwMdc();
        const double maxD = Eps::twoPhaseSatKrn(drain, 0.0), maxI = Eps::twoPhaseSatKrn(imb, 0.0);
        for (size_t k = 0; k < h.size(); ++k) {
            const Triple& t = h[k];
            const std::string at = tag + "step " + std::to_string(k) + " (" + num(t.pc) + "," + num(t.krw) + "," + num(t.krn) + ")";
            F.P.update(t.pc, t.krw, t.krn);
            // --- reversal bookkeeping: running minima / maximum
            mnKrn = std::min(mnKrn, t.krn); mxKrw = std::max(mxKrw, t.krw); if (pcModel == 0) mnPc = std::min(mnPc, t.pc);
            chk(F.P.krnSwMdc() == mnKrn, "full.minimum.krn", at + " krnSwMdc " + num(F.P.krnSwMdc()) + " want " + num(mnKrn));
            chk(F.P.krwSwMdc() == mxKrw, "full.maximum.krw", at + " krwSwMdc " + num(F.P.krwSwMdc()) + " want " + num(mxKrw));
            chk(F.P.pcSwMdc() == mnPc, "full.minimum.pc", at + " pcSwMdc " + num(F.P.pcSwMdc()) + " want " + num(mnPc));
            // --- idempotent update: the same saturations again change nothing
            {
                Hyst::Params Q = F.P;
                const bool chg = Q.update(t.pc, t.krw, t.krn);
                bool sameVals = true;
                for (int q = 0; q <= 20; ++q) {
                    const double sw = q / 20.0;
                    sameVals = sameVals && hx(Hyst::twoPhaseSatKrn(Q, sw)) == hx(Hyst::twoPhaseSatKrn(F.P, sw)) && hx(Hyst::twoPhaseSatKrw(Q, sw)) == hx(Hyst::twoPhaseSatKrw(F.P, sw)) &&
                               hx(Hyst::twoPhaseSatPcnw(Q, sw)) == hx(Hyst::twoPhaseSatPcnw(F.P, sw));
                }
                chk(!chg && Q == F.P && Q.pcSwMdc() == F.P.pcSwMdc() && sameVals, "full.idempotent-update", at + " update returned " + std::to_string(chg));
            }
            // --- drainage until the first reversal (non-wetting relperm; exact)
            for (int q = 0; q < 4; ++q) {
                const double sw = mnKrn * r.unit();
                chk(Hyst::twoPhaseSatKrn(F.P, sw) == Eps::twoPhaseSatKrn(drain, sw), "full.drainage-until-reversal.krn", at + " sw=" + num(sw));
                if (!F.P.initialImb() && sw <= F.P.pcSwMdc())
                    chk(Hyst::twoPhaseSatPcnw(F.P, sw) == Eps::twoPhaseSatPcnw(drain, sw), "full.drainage-until-reversal.pc", at + " sw=" + num(sw));
                if (krModel == 4 || krModel == 0 || krModel == 2 || krModel < 0)
                    chk(Hyst::twoPhaseSatKrw(F.P, sw) == Eps::twoPhaseSatKrw(drain, sw), "full.drainage-until-reversal.krw", at + " sw=" + num(sw));
            }
            // --- Killough: trapped saturation, scanning-curve end points and range
            const bool killough = krModel >= 2 || pcModel == 0;
            const double snhy = 1.0 - F.P.krnSwMdc();
            if (killough && landOk && snhy <= eSnmaxd + 1e-12)
                chk(F.P.Sncrt() >= eSncrd - 1e-15 && F.P.Sncrt() <= std::max(eSncrd, snhy) + 1e-12 && F.P.Sncrt() <= eSncri + 1e-9, "full.killough.trapped-bounds",
                    at + " Sncrd " + num(eSncrd) + " Sncrt " + num(F.P.Sncrt()) + " Snhy " + num(snhy) + " Sncri " + num(eSncri));
            if (krModel >= 2 && snhy - F.P.Sncrt() > 1e-6) {
                const double m = F.P.krnSwMdc(), kd = Eps::twoPhaseSatKrn(drain, m);
                for (int q = 0; q <= 40; ++q) {                                 // range [0, max], every saturation
                    const double sw = q / 40.0, v = Hyst::twoPhaseSatKrn(F.P, sw);
                    chk(v >= -1e-14 && v <= std::max(maxD, maxI) * (1 + 1e-12) + 1e-14, "full.killough.range", at + " sw=" + num(sw) + " krn " + num(v) + " max " + num(std::max(maxD, maxI)));
                }
                if (landOk && snhy <= eSnmaxd) {
                    // the trapped end of the scanning curve: the imbibition curve at its critical saturation, i.e. zero
                    const double end = Hyst::twoPhaseSatKrn(F.P, 1.0 - F.P.Sncrt());
                    if (1.0 - F.P.Sncrt() > m) chk(std::fabs(end) <= 1e-9, "full.killough.scan-end", at + " krn(1-Sncrt) = " + num(end) + " Sncrt " + num(F.P.Sncrt()) + " Sncri " + num(F.P.Sncri()));
                }
                if (same && m > F.tD.sw.front() && m < 1.0) {              // identical curves meet at Snmaxd: continuous start
                    const double above = Hyst::twoPhaseSatKrn(F.P, std::nextafter(m, 2.0));
                    chk(closeF(above, kd, 1e-7, 1e-10), "full.killough.scan-continuous", at + " just above the reversal point " + num(above) + " drainage " + num(kd));
                }
                if (krModel == 4 && m < 1.0) {                                   // wetting phase: continuous start for any pair of curves
                    const double above = Hyst::twoPhaseSatKrw(F.P, std::nextafter(m, 2.0)), kwd = Eps::twoPhaseSatKrw(drain, m);
                    if (std::fabs(Eps::twoPhaseSatKrw(imb, 1.0 - eSncri) - Eps::twoPhaseSatKrw(imb, 1.0 - eSnmaxd)) > 1e-3)
                        chk(closeF(above, kwd, 1e-7, 1e-10), "full.killough.krw-scan-continuous", at + " just above the reversal point " + num(above) + " drainage " + num(kwd));
                }
            }
            // --- Killough capillary pressure (primary drainage branch)
            if (pcModel == 0 && !F.P.initialImb()) {
                const double m = F.P.pcSwMdc(), swma = 1.0 - F.P.Sncrt(), w = F.P.pcWght();
                for (int q = 0; q <= 30; ++q) {
                    const double sw = q / 30.0, v = Hyst::twoPhaseSatPcnw(F.P, sw);
                    const double pcd = Eps::twoPhaseSatPcnw(drain, sw), pci = Eps::twoPhaseSatPcnw(imb, sw);
                    if (sw <= m) chk(v == pcd, "full.pc.drainage", at + " sw=" + num(sw));
                    else if (sw >= swma) chk(v == pci, "full.pc.imbibition-beyond-trapped", at + " sw=" + num(sw) + " pc " + num(v) + " imbibition " + num(pci) + " 1-Sncrt " + num(swma));
                    else chk(v >= std::min(pcd, w * pci) - 1e-6 - 1e-12 * std::fabs(pcd) && v <= std::max(pcd, w * pci) + 1e-6 + 1e-12 * std::fabs(pcd), "full.pc.scanning-between",
                             at + " sw=" + num(sw) + " pc " + num(v) + " drainage " + num(pcd) + " aligned imbibition " + num(w * pci));
                }
                if (m < swma && m < 1.0) {
                    const double sw = std::nextafter(m, 2.0);
                    chk(closeF(Hyst::twoPhaseSatPcnw(F.P, sw), Eps::twoPhaseSatPcnw(drain, sw), 1e-7, 1e-3), "full.pc.scan-continuous", at + " sw=" + num(sw));
                    // the other end of the scanning curve (F = 1): the aligned imbibition curve at the trapped saturation
                    const double se = std::nextafter(swma, 0.0);
                    if (se > m && swma - m > 1e-3)
                        chk(closeF(Hyst::twoPhaseSatPcnw(F.P, se), w * Eps::twoPhaseSatPcnw(imb, se), 1e-6, 1e-2), "full.pc.scan-end",
                            at + " sw=" + num(se) + " pc " + num(Hyst::twoPhaseSatPcnw(F.P, se)) + " aligned imbibition " + num(w * Eps::twoPhaseSatPcnw(imb, se)));
                }
            }
            if (F.sys != 0) chk(!F.P.initialImb(), "full.pc.initial-imbibition-only-oil-water", at);
            // --- EHYSTR item 5 limits the hysteresis: flag PC leaves the relperms on the drainage curves, flag KR the capillary pressure
            for (int q = 0; q <= 10; ++q) {
                const double sw = q / 10.0;
                if (flag == "PC")
                    chk(Hyst::twoPhaseSatKrn(F.P, sw) == Eps::twoPhaseSatKrn(drain, sw) && Hyst::twoPhaseSatKrw(F.P, sw) == Eps::twoPhaseSatKrw(drain, sw),
                        "full.flag-pc.relperm-not-hysteretic", at + " sw=" + num(sw) + " krn " + num(Hyst::twoPhaseSatKrn(F.P, sw)) + " drainage " + num(Eps::twoPhaseSatKrn(drain, sw)));
                if (flag == "KR")
                    chk(Hyst::twoPhaseSatPcnw(F.P, sw) == Eps::twoPhaseSatPcnw(drain, sw), "full.flag-kr.pc-not-hysteretic", at + " sw=" + num(sw));
            }
        }
        // --- a repeated saturation history changes nothing
        {
            Hyst::Params Q = F.P;
            bool any = false;
            for (const Triple& t : h) any = Q.update(t.pc, t.krw, t.krn) || any;
            chk(!any && Q == F.P && Q.pcSwMdc() == F.P.pcSwMdc(), "full.repeated-history", tag + std::to_string(h.size()) + " steps");
        }
    }
}

// fourth round, property mode: cells in which only a SUBSET of the end-points differs from the table's — each single
// one of the 14 quantities (nine saturation points, maximum Pc, KRWR, KRW, KRNR, KRN), pairs, a few, and none — under
// two- and three-point horizontal scaling and no / two-point / three-point vertical scaling.  Evaluated: every one of
// the three scaling points of each curve maps onto the table's point (the interior one under three-point scaling) and
// carries the table's value there (resp. the scaled vertical end-point), and a curve none of whose defining quantities
// differs from the table's is the table's curve ("scaling with the table's own end-points is the identity", per curve).
// The expectation is computed from the inputs and the unscaled piecewise-linear law only.
static std::map<std::string, long> g_subsetCount;

static void propSubset(vh::Rng& r, vh::PropLog& log, int cases)
{
    auto chk = [&](bool ok, const std::string& key, const std::string& detail) { log.ok(); ++g_keyCount[key]; if (!ok) log.fail(key, detail); };
    static const int IDX[14] = {0, 1, 2, 3, 4, 5, 6, 7, 8, 9, 11, 12, 13, 14};
    static const char* NAME[15] = {"pc.lo", "pc.mid", "pc.hi", "krw.lo", "krw.mid", "krw.hi", "krn.lo", "krn.mid", "krn.hi", "maxPc", "-", "krwr", "maxKrw", "krnr", "maxKrn"};
    for (int c = 0; c < cases; ++c) {
        Table t;
        Points u{};
        for (int attempt = 0; attempt < 10; ++attempt) {                      // prefer tables with three distinct points per curve
            t = makeTable(r, false);
            u = unscaledOf(r, t);
            if (u.v[3] < u.v[4] && u.v[4] < u.v[5] && u.v[6] < u.v[7] && u.v[7] < u.v[8] && u.v[11] > 0 && u.v[11] < u.v[12] && u.v[13] > 0 && u.v[13] < u.v[14]) break;
        }
        auto p = plParams(t);
        // --- which quantities differ: none / one (cycling through all 14) / two / a few
        std::vector<int> want;
        const int kind = c % 4;
        if (kind == 1) want.push_back(IDX[(c / 4) % 14]);
        else if (kind == 2) { const int a = r.range(0, 13); int b = r.range(0, 12); if (b >= a) ++b; want = {IDX[std::min(a, b)], IDX[std::max(a, b)]}; }
        else if (kind == 3) { for (int k = 0; k < 14; ++k) if (r.coin(1, 4)) want.push_back(IDX[k]); }
        Points s = u;
        std::string changed;
        auto mark = [&](int i) { changed += (changed.empty() ? "" : "+") + std::string(NAME[i]); };
        for (int i : want) if (i < 9) {                                       // saturation points, in increasing order of index: stay strictly between the neighbours
            const int o = (i / 3) * 3, j = i - o;
            const double lo = j == 0 ? std::max(0.0, s.v[o] - 0.2) : s.v[i - 1], hi = j == 2 ? s.v[o + 2] + 0.15 : s.v[i + 1];
            if (!(hi - lo > 0.02)) continue;
            for (int tries = 0; tries < 20; ++tries) {
                const double x = lo + (hi - lo) * (0.05 + 0.9 * r.unit());
                if (std::fabs(x - u.v[i]) > 0.01) { s.v[i] = x; mark(i); break; }
            }
        }
        for (int i : want) {                                                  // vertical end-points: 0 < KRxR < KRx
            if (i == 9 && u.v[9] > 0) { s.v[9] = u.v[9] * (r.coin() ? 0.3 + 0.6 * r.unit() : 1.2 + 2 * r.unit()); mark(9); }
            if (i == 12) { s.v[12] = s.v[11] + (1.05 - s.v[11]) * (0.05 + 0.9 * r.unit()); if (std::fabs(s.v[12] - u.v[12]) > 0.01) mark(12); else s.v[12] = u.v[12]; }
            if (i == 14) { s.v[14] = s.v[13] + (1.05 - s.v[13]) * (0.05 + 0.9 * r.unit()); if (std::fabs(s.v[14] - u.v[14]) > 0.01) mark(14); else s.v[14] = u.v[14]; }
        }
        for (int i : want) {
            if (i == 11) { s.v[11] = s.v[12] * (0.05 + 0.9 * r.unit()); if (std::fabs(s.v[11] - u.v[11]) > 0.01) mark(11); else s.v[11] = u.v[11]; }
            if (i == 13) { s.v[13] = s.v[14] * (0.05 + 0.9 * r.unit()); if (std::fabs(s.v[13] - u.v[13]) > 0.01) mark(13); else s.v[13] = u.v[13]; }
        }
        if (changed.empty()) changed = "none";
        ++g_subsetCount[kind == 3 ? std::string("several") : kind == 2 ? std::string("pair") : changed];
        // --- every scaling mode
        static const char* VERT[3] = {"00", "10", "11"};
        const int vwFix = r.range(0, 2), vnFix = r.range(0, 2);
        for (int mode = 0; mode < 6; ++mode) {
            const bool three = mode & 1;
            const int vw = (vwFix + mode / 2) % 3, vn = (vnFix + mode / 2) % 3;
            const bool pcs = r.coin();
            const std::string bits = std::string("1") + (three ? "1" : "0") + VERT[vw] + VERT[vn] + (pcs ? "1" : "0") + "0";
            Eps::Params e = epsParams(bits, t, u, s);
            const std::string tag = "differs: " + changed + " cfg=" + bits + " ";
            auto ordered = [&](const Points& q, int o) { return q.v[o] < q.v[o + 1] && q.v[o + 1] < q.v[o + 2]; };
            auto weak = [&](const Points& q, int o) { return q.v[o] <= q.v[o + 1] && q.v[o + 1] <= q.v[o + 2]; };
            auto samePts = [&](int o) { return s.v[o] == u.v[o] && s.v[o + 1] == u.v[o + 1] && s.v[o + 2] == u.v[o + 2]; };
            // the interior point is a point of the map under three-point scaling; under two-point scaling it still is where
            // KRWR / KRNR apply, which is the table's interior point when the three points are the table's own
            const bool w3 = (three && ordered(s, 3) && weak(u, 3)) || (!three && samePts(3) && ordered(u, 3));
            const bool n3 = (three && ordered(s, 6) && weak(u, 6)) || (!three && samePts(6) && ordered(u, 6));
            const bool vwOk = vw != 2 || (u.v[11] > 0 && u.v[11] < u.v[12] && s.v[3] <= s.v[4] && s.v[4] < s.v[5]);      // domain of the three-point vertical scaling
            const bool vnOk = vn != 2 || (u.v[13] > 0 && u.v[13] < u.v[14] && s.v[6] < s.v[7] && s.v[7] <= s.v[8]);
            // (a) the three scaling points of each saturation map
            for (int j = 0; j < 3; ++j) {
                if (j == 1 && !w3) continue;
                const double got = Eps::scaledToUnscaledSatKrw(e, s.v[3 + j]);
                chk(close(got, u.v[3 + j], 1e-12, 1e-15), std::string("subset.map.krw.") + "lmu"[j], tag + "scaled point " + num(s.v[3 + j]) + " maps to " + num(got) + ", table point " + num(u.v[3 + j]));
            }
            for (int j = 0; j < 3; ++j) {
                if (j == 1 && !n3) continue;
                const double got = Eps::scaledToUnscaledSatKrn(e, s.v[6 + j]);
                chk(close(got, u.v[6 + j], 1e-12, 1e-15), std::string("subset.map.krn.") + "lmu"[j], tag + "scaled point " + num(s.v[6 + j]) + " maps to " + num(got) + ", table point " + num(u.v[6 + j]));
            }
            for (int j = 0; j < 3; j += 2) {
                const double got = Eps::scaledToUnscaledSatPc(e, s.v[j]);
                chk(close(got, u.v[j], 1e-12, 1e-15), std::string("subset.map.pc.") + "lmu"[j], tag + "scaled point " + num(s.v[j]) + " maps to " + num(got) + ", table point " + num(u.v[j]));
            }
            // (b) the values at the scaled points: the table's value at the table's point, scaled vertically
            if (vwOk) for (int j = 0; j < 3; ++j) {
                if (j == 1 && !w3) continue;
                const double tab = PL::twoPhaseSatKrw(*p, u.v[3 + j]);
                double want_ = tab;
                if (vw == 1) want_ = tab * (s.v[12] / u.v[12]);
                if (vw == 2) want_ = j == 2 ? s.v[12] : j == 1 ? s.v[11] : tab * (s.v[11] / u.v[11]);
                const double got = Eps::twoPhaseSatKrw(e, s.v[3 + j]);
                chk(closeF(got, want_, 1e-10, 1e-13), std::string("subset.value.krw.") + "lmu"[j], tag + "krw(" + num(s.v[3 + j]) + ") = " + num(got) + ", want " + num(want_) + " (table " + num(tab) + " at " + num(u.v[3 + j]) + ")");
            }
            if (vnOk) for (int j = 0; j < 3; ++j) {
                if (j == 1 && !n3) continue;
                const double tab = PL::twoPhaseSatKrn(*p, u.v[6 + j]);
                double want_ = tab;
                if (vn == 1) want_ = tab * (s.v[14] / u.v[14]);
                if (vn == 2) want_ = j == 0 ? s.v[14] : j == 1 ? s.v[13] : tab * (s.v[13] / u.v[13]);
                const double got = Eps::twoPhaseSatKrn(e, s.v[6 + j]);
                chk(closeF(got, want_, 1e-10, 1e-13), std::string("subset.value.krn.") + "lmu"[j], tag + "krn(" + num(s.v[6 + j]) + ") = " + num(got) + ", want " + num(want_) + " (table " + num(tab) + " at " + num(u.v[6 + j]) + ")");
            }
            for (int j = 0; j < 3; j += 2) {
                const double tab = PL::twoPhaseSatPcnw(*p, u.v[j]);
                const double want_ = pcs && u.v[9] > 0 ? tab * (s.v[9] / u.v[9]) : tab;
                const double got = Eps::twoPhaseSatPcnw(e, s.v[j]);
                chk(closeF(got, want_, 1e-10, 1e-7), std::string("subset.value.pc.") + "lmu"[j], tag + "pc(" + num(s.v[j]) + ") = " + num(got) + ", want " + num(want_));
            }
            // (c) identity, per curve: a curve is the table's curve when none of the quantities that define it under this
            //     configuration differs from the table's (two-point scaling: the interior point defines nothing)
            const bool krwSame = s.v[3] == u.v[3] && s.v[5] == u.v[5] && ((!three && vw != 2) || s.v[4] == u.v[4]) && (vw == 0 || s.v[12] == u.v[12]) && (vw != 2 || s.v[11] == u.v[11]);
            const bool krnSame = s.v[6] == u.v[6] && s.v[8] == u.v[8] && ((!three && vn != 2) || s.v[7] == u.v[7]) && (vn == 0 || s.v[14] == u.v[14]) && (vn != 2 || s.v[13] == u.v[13]);
            const bool pcSame = s.v[0] == u.v[0] && s.v[2] == u.v[2] && (!pcs || s.v[9] == u.v[9]);
            const bool wDomain = (vw != 2 || (u.v[11] > 0 && u.v[11] < u.v[12])) && (!three || ordered(u, 3));
            const bool nDomain = (vn != 2 || (u.v[13] > 0 && u.v[13] < u.v[14])) && (!three || ordered(u, 6));
            for (int k = 0; k <= 40; ++k) {
                const double sw = u.v[0] + (u.v[2] - u.v[0]) * k / 40.0;
                if (krwSame && wDomain) chk(closeF(Eps::twoPhaseSatKrw(e, sw), PL::twoPhaseSatKrw(*p, sw), 1e-11, 1e-14), "subset.identity.krw", tag + "sw=" + num(sw) + " scaled " + num(Eps::twoPhaseSatKrw(e, sw)) + " table " + num(PL::twoPhaseSatKrw(*p, sw)));
                if (krnSame && nDomain) chk(closeF(Eps::twoPhaseSatKrn(e, sw), PL::twoPhaseSatKrn(*p, sw), 1e-11, 1e-14), "subset.identity.krn", tag + "sw=" + num(sw) + " scaled " + num(Eps::twoPhaseSatKrn(e, sw)) + " table " + num(PL::twoPhaseSatKrn(*p, sw)));
                if (pcSame) chk(closeF(Eps::twoPhaseSatPcnw(e, sw), PL::twoPhaseSatPcnw(*p, sw), 1e-11, 1e-9), "subset.identity.pc", tag + "sw=" + num(sw));
            }
        }
    }
}

int main(int argc, char** argv)
{
    if (argc < 5) { std::cerr << "usage: satfunc corr|prop <seed> <tier> <outdir>\n"; return 2; }
    const std::string mode = argv[1];
    const uint64_t seed = std::strtoull(argv[2], nullptr, 10);
    const bool thorough = std::string(argv[3]) == "thorough";
    const std::string out = argv[4];
    vh::Rng r(seed);
    if (mode == "corr") {
        vh::Sink sink(out);
        corrPL(r, sink, thorough ? 3000 : 500);
        corrEps(r, sink, thorough ? 12000 : 2000);
        corrHyst(r, sink, thorough ? 8000 : 1500);
        corrKillough(r, sink, thorough ? 4000 : 600);
        corrHystFull(r, sink, thorough ? 6000 : 1000);
        sink.writeStats(out + "/stats.json");
        return 0;
    }
    if (mode == "prop") {
        vh::PropLog log(out + "/prop.txt");
        propAll(r, log, thorough ? 6000 : 800);
        propFull(r, log, thorough ? 6000 : 1000);
        { vh::Rng rs(seed ^ 0x5B5E7ull); propSubset(rs, log, thorough ? 9000 : 1400); }
        std::ofstream st(out + "/prop_stats.json");
        st << "{\"checked\": " << log.checked << ", \"failed\": " << log.failed << ", \"evaluated\": {";
        bool first = true;
        for (const auto& kv : g_keyCount) { st << (first ? "" : ", ") << "\"" << kv.first << "\": " << kv.second; first = false; }
        st << "}, \"subset_cells\": {";
        first = true;
        for (const auto& kv : g_subsetCount) { st << (first ? "" : ", ") << "\"" << kv.first << "\": " << kv.second; first = false; }
        st << "}}\n";
        return 0;
    }
    return 2;
}
