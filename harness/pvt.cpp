// C14 harness: the real Tabulated1DFunction / UniformXTabulated2DFunction templates and the real
// Oil/Gas/WaterPvtMultiplexer::initFromState (deck text -> Parser -> EclipseState) versus the Lean
// model (corr), and the property's own statement on the real code alone (prop).
#include <config.h>

#include <opm/material/common/Tabulated1DFunction.hpp>
#include <opm/material/common/UniformXTabulated2DFunction.hpp>
#include <opm/material/densead/Evaluation.hpp>
#include <opm/material/densead/Math.hpp>
#include <opm/material/fluidsystems/blackoilpvt/GasPvtMultiplexer.hpp>
#include <opm/material/fluidsystems/blackoilpvt/OilPvtMultiplexer.hpp>
#include <opm/material/fluidsystems/blackoilpvt/WaterPvtMultiplexer.hpp>

#include <opm/input/eclipse/Deck/Deck.hpp>
#include <opm/input/eclipse/EclipseState/EclipseState.hpp>
#include <opm/input/eclipse/EclipseState/Tables/TableManager.hpp>
#include <opm/input/eclipse/EclipseState/Tables/PvdoTable.hpp>
#include <opm/input/eclipse/EclipseState/Tables/PvdgTable.hpp>
#include <opm/input/eclipse/EclipseState/Tables/PvtoTable.hpp>
#include <opm/input/eclipse/EclipseState/Tables/PvtgTable.hpp>
#include <opm/input/eclipse/Parser/Parser.hpp>
#include <opm/input/eclipse/Python/Python.hpp>
#include <opm/input/eclipse/Schedule/Schedule.hpp>

#include <opm/material/components/CO2Tables.hpp>
#include <opm/material/components/H2.hpp>

#include "common/vh.hpp"

#include <algorithm>
#include <array>
#include <cmath>
#include <functional>
#include <iostream>
#include <limits>
#include <memory>

// The snapshot ships empty co2tables.inc / h2tables.inc: the CO2/H2 property tables are declared
// but nowhere defined, and the multiplexers reference them.  They are never used here (no
// CO2STORE / H2STORE deck), so they are defined as zero tables to make the harness link.
namespace Opm {
#define VH_STUB(T) const char* T::name = "stub"; const double T::xMin = 0; const double T::xMax = 1; \
    const double T::yMin = 0; const double T::yMax = 1; const double T::vals[200][500] = {};
VH_STUB(co2TabulatedDensityTraits) VH_STUB(co2TabulatedEnthalpyTraits)
VH_STUB(H2TabulatedDensityTraits) VH_STUB(H2TabulatedEnthalpyTraits)
#undef VH_STUB
}

using Tab1 = Opm::Tabulated1DFunction<double>;
using Tab2 = Opm::UniformXTabulated2DFunction<double>;
using vh::hexF64;

static std::string hx(double d) { return std::isnan(d) ? std::string("nan") : hexF64(d); }
static std::string hxl(const std::vector<double>& v)
{
    if (v.empty()) return "-";
    std::string s;
    for (size_t i = 0; i < v.size(); ++i) { if (i) s += ','; s += hx(v[i]); }
    return s;
}
static std::string num(double d) { char b[40]; std::snprintf(b, sizeof b, "%.17g", d); return b; }
static double parsed(double d) { return std::strtod(num(d).c_str(), nullptr); }

// ------------------------------------------------------------------------------------------
// random sample sets

static std::vector<double> incr(vh::Rng& r, int n, double start, double scale, int style)
{
    std::vector<double> x(n);
    double cur = start;
    for (int i = 0; i < n; ++i) {
        x[i] = cur;
        double d;
        switch (style) {
        case 0: d = scale * (0.05 + r.unit()); break;
        case 1: d = scale * std::pow(10.0, -6.0 * r.unit()); break;           // very uneven spacing
        case 2: d = std::nextafter(cur, 1e308) - cur + (r.coin(1, 3) ? 0.0 : scale * r.unit()); break; // adjacent doubles
        default: d = scale; break;                                             // uniform
        }
        if (!(d > 0)) d = scale;
        cur += d;
        if (!(cur > x[i])) cur = std::nextafter(x[i], 1e308);
    }
    return x;
}

static std::vector<double> values(vh::Rng& r, int n, int style)
{
    std::vector<double> y(n);
    double cur = (r.unit() - 0.3) * 10;
    for (int i = 0; i < n; ++i) {
        switch (style) {
        case 0: y[i] = (r.unit() - 0.5) * 100; break;                 // arbitrary
        case 1: y[i] = cur; cur += r.unit(); break;                    // increasing
        case 2: y[i] = cur; cur -= r.unit(); break;                    // decreasing
        case 3: y[i] = cur; if (r.coin()) cur += r.unit(); break;      // non-decreasing with plateaus
        default: y[i] = 1.0; break;                                    // constant
        }
    }
    return y;
}

static std::vector<double> queries1(vh::Rng& r, const std::vector<double>& xs, int extra)
{
    std::vector<double> q;
    const int n = xs.size();
    for (int i = 0; i < n; ++i) {
        q.push_back(xs[i]);
        if (r.coin(1, 3)) q.push_back(std::nextafter(xs[i], -1e308));
        if (r.coin(1, 3)) q.push_back(std::nextafter(xs[i], 1e308));
        if (i + 1 < n) q.push_back(xs[i] + (xs[i + 1] - xs[i]) * r.unit());
    }
    const double span = xs.back() - xs.front() + 1e-3;
    for (int k = 0; k < extra; ++k) q.push_back(xs.front() + span * (r.unit() * 1.6 - 0.3));
    q.push_back(xs.front() - span * 3);
    q.push_back(xs.back() + span * 3);
    if (r.coin(1, 4)) q.push_back(std::numeric_limits<double>::infinity());
    if (r.coin(1, 4)) q.push_back(-std::numeric_limits<double>::infinity());
    if (r.coin(1, 4)) q.push_back(std::numeric_limits<double>::quiet_NaN());
    if (r.coin(1, 4)) q.push_back(1e300);
    if (r.coin(1, 4)) q.push_back(-1e300);
    return q;
}

static std::string t1Answer(const Tab1& f, double x, bool ex)
{
    try {
        const size_t seg = f.findSegmentIndex(x, ex).value;
        const double v = f.eval(x, ex);
        const double d = f.evalDerivative(x, ex);
        return std::to_string(seg) + "/" + hx(v) + "/" + hx(d);
    } catch (const std::logic_error&) {
        return f.numSamples() >= 2 || (!ex && !f.applies(x)) ? "err:range" : "err:few";
    } catch (const std::runtime_error&) {
        return std::isfinite(x) ? "err:problematic" : "err:nonfinite";
    }
}

static void corrTab1(vh::Rng& r, vh::Sink& sink, int cases)
{
    for (int c = 0; c < cases; ++c) {
        int n = r.coin(1, 4) ? r.range(2, 5) : r.range(2, 40);
        if (r.coin(1, 40)) n = 1;
        const int xstyle = r.range(0, 3), ystyle = r.range(0, 4);
        const double start = r.coin(1, 5) ? 0.0 : (r.unit() - 0.5) * std::pow(10.0, r.range(-3, 8));
        std::vector<double> xs = incr(r, n, start, std::pow(10.0, r.range(-4, 7)), xstyle);
        std::vector<double> ys = values(r, n, ystyle);
        std::string srt = "-";
        Tab1 f;
        std::vector<double> xin = xs, yin = ys;
        const int mode = n >= 2 ? r.range(0, 3) : 0;
        if (mode == 1) {            // shuffled input, sortInputs = true
            for (int i = n - 1; i > 0; --i) { int j = r.range(0, i); std::swap(xin[i], xin[j]); std::swap(yin[i], yin[j]); }
            f.setXYContainers(xin, yin, true); srt = "1";
        } else if (mode == 2) {     // descending input, sortInputs = false -> reversed
            std::reverse(xin.begin(), xin.end()); std::reverse(yin.begin(), yin.end());
            f.setXYContainers(xin, yin, false); srt = "0";
        } else if (mode == 3) {     // ascending input, sortInputs = false
            f.setXYContainers(xin, yin, false); srt = "0";
        } else {
            f.setXYContainers(xin, yin, true);
        }
        sink.count("t1.n=" + std::to_string(std::min(n, 9) ) + (n > 9 ? "+" : ""));
        sink.count("t1.xstyle=" + std::to_string(xstyle));
        sink.count("t1.mode=" + std::to_string(mode));
        for (int ex = 0; ex < 2; ++ex) {
            std::vector<double> qs = n >= 2 ? queries1(r, xs, 6) : std::vector<double>{xs[0], xs[0] + 1};
            std::string ans;
            for (size_t k = 0; k < qs.size(); ++k) {
                const std::string a = t1Answer(f, qs[k], ex);
                sink.count(a.rfind("err", 0) == 0 ? "t1." + a : "t1.ok");
                if (k) ans += ' ';
                ans += a;
            }
            sink.emit("pvt.t1 " + srt + " " + std::to_string(ex) + " " + hxl(xin) + " " + hxl(yin) + " " + hxl(qs), ans);
        }
    }
}

// ------------------------------------------------------------------------------------------
// 2-D tables

static std::string dumpCols(const Tab2& t, int which)
{
    std::string s;
    for (size_t i = 0; i < t.numX(); ++i) {
        if (i) s += ';';
        std::vector<double> v;
        for (size_t j = 0; j < t.numY(i); ++j) v.push_back(which == 1 ? t.yAt(i, j) : t.valueAt(i, j));
        s += hxl(v);
    }
    return s.empty() ? "-" : s;
}
static std::string dumpTab2(const Tab2& t)
{
    return hxl(t.xPos()) + " " + hxl(t.yPos()) + " " + dumpCols(t, 1) + " " + dumpCols(t, 2);
}
static std::string dumpTab1(const Tab1& t) { return hxl(t.xValues()) + " " + hxl(t.yValues()); }

static const char* guideName(Tab2::InterpolationPolicy g)
{
    return g == Tab2::LeftExtreme ? "L" : g == Tab2::RightExtreme ? "R" : "V";
}

static std::string t2Answer(const Tab2& t, double x, double y)
{
    unsigned i, j1, j2; double a, b1, b2;
    t.findPoints(i, j1, j2, a, b1, b2, x, y, /*extrapolate=*/true);
    const double v = t.eval(x, y, /*extrapolate=*/true);
    return std::to_string(i) + "/" + std::to_string(j1) + "/" + std::to_string(j2) + "/" + hx(v);
}

static void corrTab2(vh::Rng& r, vh::Sink& sink, int cases)
{
    for (int c = 0; c < cases; ++c) {
        const auto g = static_cast<Tab2::InterpolationPolicy>(r.range(0, 2));
        Tab2 t(g);
        const int nx = r.coin(1, 3) ? r.range(2, 3) : r.range(2, 9);
        std::vector<double> xs = incr(r, nx, r.unit() * 10, std::pow(10.0, r.range(-2, 4)), r.range(0, 1) * 3);
        const bool descending = r.coin();   // order in which a column's samples are handed over
        double base = r.unit() * 5;
        for (int i = 0; i < nx; ++i) {
            t.appendXPos(xs[i]);
            const int ny = r.coin(1, 3) ? 2 : r.range(2, 8);
            std::vector<double> ys = incr(r, ny, base + (g == Tab2::RightExtreme ? 0.0 : r.unit()), std::pow(10.0, r.range(-2, 3)), r.range(0, 1));
            if (g == Tab2::RightExtreme && r.coin()) ys[0] = 0.0;
            std::vector<double> vs = values(r, ny, r.range(0, 2));
            if (descending) { std::reverse(ys.begin(), ys.end()); std::reverse(vs.begin(), vs.end()); }
            for (int j = 0; j < ny; ++j) t.appendSamplePoint(i, ys[j], vs[j]);
            base += r.unit() * 3;
        }
        sink.count(std::string("t2.guide=") + guideName(g));
        sink.count(std::string("t2.order=") + (descending ? "desc" : "asc"));
        std::string qs, ans;
        auto add = [&](double x, double y) {
            if (!qs.empty()) { qs += ','; ans += ' '; }
            qs += hx(x) + ":" + hx(y);
            ans += t2Answer(t, x, y);
        };
        for (int i = 0; i < nx; ++i) {
            for (size_t j = 0; j < t.numY(i); ++j) add(xs[i], t.yAt(i, j));     // nodes
            add(xs[i], t.yMin(i) + (t.yMax(i) - t.yMin(i)) * r.unit());           // on a column
            if (i + 1 < nx) {
                const double a = r.unit();
                const double x = xs[i] + (xs[i + 1] - xs[i]) * a;
                add(x, t.yMin(i) * (1 - a) + t.yMin(i + 1) * a);                    // lower boundary
                add(x, t.yMax(i) * (1 - a) + t.yMax(i + 1) * a);                    // upper boundary
                add(x, t.yMin(i) + (t.yMax(i + 1) - t.yMin(i)) * r.unit());
            }
        }
        for (int k = 0; k < 6; ++k)
            add(xs.front() + (xs.back() - xs.front()) * (r.unit() * 1.6 - 0.3), (r.unit() * 1.6 - 0.3) * (base + 10));
        sink.emit(std::string("pvt.t2 ") + guideName(g) + " " + dumpTab2(t) + " " + qs, ans);
    }
}

// ------------------------------------------------------------------------------------------
// decks

struct UnitSys {
    const char* name;
    double p, rs, rv, bo, bg, mu, comp, dens;   // deck unit -> SI (written down here independently of UnitSystem.cpp)
};
static const double kStb = 0.158987294928, kMscf = 28.316846592, kPsi = 6894.757293168361, kAtm = 101325.0;
static const UnitSys kUnits[4] = {
    {"METRIC", 1e5, 1.0, 1.0, 1.0, 1.0, 1e-3, 1e-5, 1.0},
    {"FIELD", kPsi, kMscf / kStb, kStb / kMscf, 1.0, kStb / kMscf, 1e-3, 1.0 / kPsi, 16.018463373960138},
    {"LAB", kAtm, 1.0, 1.0, 1.0, 1.0, 1e-3, 1.0 / kAtm, 1000.0},
    {"PVT-M", kAtm, 1.0, 1.0, 1.0, 1.0, 1e-3, 1.0 / kAtm, 1.0},
};

struct Row { double y, B, mu; };
struct Record { double key; std::vector<Row> rows; };
struct Region {
    std::vector<Row> pvdo, pvdg;                 // y = pressure
    std::vector<Record> pvto, pvtg;              // deck-unit numbers exactly as printed
    double pvtw[5], pvcdo[5];
};
struct DeckSpec {
    int unit; int oilKind /*0 PVDO 1 PVTO 2 PVCDO*/, gasKind /*0 PVDG 1 PVTG*/;
    // `regions[k]` holds the tables that must be IN EFFECT in region k.  A region whose table is
    // defaulted in the deck (a lone `/`, dflt[k][kw]) holds a copy of the table in effect in region
    // k-1 — i.e. of the last table given explicitly at or before k; the deck text prints only `/`.
    std::vector<Region> regions;
    std::vector<std::array<bool, 4>> dflt;       // per region: PVDO, PVDG, PVTO, PVTG defaulted
    int longBranches = 0;                        // under-saturated branches with >= 7 rows (PVTO+PVTG, as given)
    std::string text;
    std::string layout(int kw) const { std::string l; for (size_t k = 0; k < dflt.size(); ++k) { if (k) l += ','; l += dflt[k][kw] ? '/' : 'T'; } return l; }
    std::string layouts() const
    {
        std::string l = "regions=" + std::to_string(regions.size());
        if (oilKind == 0) l += " PVDO=" + layout(0);
        if (oilKind == 1) l += " PVTO=" + layout(2);
        if (gasKind == 0) l += " PVDG=" + layout(1);
        if (gasKind == 1) l += " PVTG=" + layout(3);
        return l;
    }
};

// shape: 0 random; 1 three regions T,T,/ ; 2 four regions T,/,T,/ ; 3 one region, every branch long
static DeckSpec makeDeck(vh::Rng& r, int forceOil = -1, int forceGas = -1, int shape = 0)
{
    DeckSpec d;
    d.unit = r.range(0, 3);
    d.oilKind = forceOil >= 0 ? forceOil : r.range(0, 2);
    d.gasKind = forceGas >= 0 ? forceGas : r.range(0, 1);
    const UnitSys& u = kUnits[d.unit];
    const int nreg = shape == 1 ? 3 : shape == 2 ? 4 : shape == 3 ? 1 : (r.coin(2, 5) ? r.range(3, 6) : r.range(1, 3));
    // which region tables are defaulted (region 1 never: the deck would be refused)
    for (int reg = 0; reg < nreg; ++reg) {
        std::array<bool, 4> f{false, false, false, false};
        if (shape == 1) f.fill(reg == 2);
        else if (shape == 2) f.fill(reg == 1 || reg == 3);
        else if (reg > 0) for (bool& b : f) b = r.coin(1, 3);
        d.dflt.push_back(f);
    }
    auto P = [&](double bar) { return parsed(bar * 1e5 / u.p); };           // nominal bar -> deck unit, as printed
    for (int reg = 0; reg < nreg; ++reg) {
        Region g;
        {   // PVDO
            const int n = r.range(2, 10);
            double p = 5 + 50 * r.unit(), B = 1.05 + 0.5 * r.unit(), mu = 0.3 + 2 * r.unit();
            for (int i = 0; i < n; ++i) {
                g.pvdo.push_back({P(p), parsed(B / u.bo), parsed(mu)});
                p += 5 + 80 * r.unit(); B -= 0.002 + 0.02 * r.unit(); if (r.coin(2, 3)) mu += 0.2 * r.unit();
            }
        }
        {   // PVDG
            const int n = r.range(2, 10);
            double p = 5 + 50 * r.unit(), mu = 0.008 + 0.01 * r.unit();
            for (int i = 0; i < n; ++i) {
                const double Bg = (1.0 + 0.2 * r.unit()) / p;     // ~ ideal gas, rm3/sm3
                g.pvdg.push_back({P(p), parsed(Bg / u.bg), parsed(mu)});
                p *= 1.2 + r.unit(); if (r.coin(2, 3)) mu += 0.004 * r.unit();
            }
        }
        {   // PVTO: Rs, p_sat, Bo_sat increasing; Bo decreasing and mu increasing with p in a record
            const bool steep = r.coin(1, 4);   // a steep segment of Rs(p) between two flat ones
            const int n = steep ? r.range(4, 7) : r.range(2, 7);
            const int steepAt = steep ? r.range(1, n - 3) : -1;
            double rs = r.coin(1, 4) ? 0.0 : 5 * r.unit(), p = 5 + 40 * r.unit(), B = 1.02 + 0.1 * r.unit(), mu = 1 + 2 * r.unit();
            for (int i = 0; i < n; ++i) {
                Record rec; rec.key = parsed(rs / u.rs);
                rec.rows.push_back({P(p), parsed(B / u.bo), parsed(mu)});
                const bool longB = shape == 3 || r.coin(1, 5);     // 7 ... 12 rows on this branch
                const int extra = longB ? r.range(6, 11) : (i == n - 1) ? r.range(1, 4) : (r.coin(2, 5) ? r.range(1, 3) : 0);
                double pu = p, Bu = B, muu = mu;
                for (int k = 0; k < extra; ++k) {
                    pu += 20 + 100 * r.unit(); Bu -= 0.003 + 0.02 * r.unit(); muu += 0.15 * r.unit();
                    rec.rows.push_back({P(pu), parsed(Bu / u.bo), parsed(muu)});
                }
                g.pvto.push_back(rec);
                if (steep) { rs += (i == steepAt) ? 40 + 20 * r.unit() : 8 + 4 * r.unit(); p += (i == steepAt) ? 8 + 4 * r.unit() : 80 + 40 * r.unit(); }
                else { rs += 5 + 40 * r.unit(); p += 15 + 70 * r.unit(); }
                B += 0.03 + 0.15 * r.unit(); mu *= 0.7 + 0.25 * r.unit();
            }
        }
        {   // PVTG: pg, Rv_sat increasing; rows with Rv decreasing
            const bool steep = r.coin(1, 4);
            const int n = steep ? r.range(4, 7) : r.range(2, 7);
            const int steepAt = steep ? r.range(1, n - 3) : -1;
            double p = 100 + 40 * r.unit(), rv = 2e-5 * (0.2 + r.unit()), mu = 0.01 + 0.01 * r.unit();
            for (int i = 0; i < n; ++i) {
                Record rec; rec.key = P(p);
                const double Bg = (1.0 + 0.2 * r.unit()) / p;
                rec.rows.push_back({parsed(rv / u.rv), parsed(Bg / u.bg), parsed(mu)});
                const bool longB = shape == 3 || r.coin(1, 5);
                const int extra = longB ? r.range(6, 11) : (i == n - 1) ? r.range(1, 3) : (r.coin(2, 5) ? r.range(1, 3) : 0);
                double rvu = rv;
                for (int k = 0; k < extra; ++k) {
                    rvu = (k == extra - 1 && r.coin()) ? 0.0 : rvu * (longB ? 0.55 + 0.4 * r.unit() : 0.2 + 0.6 * r.unit());
                    rec.rows.push_back({parsed(rvu / u.rv), parsed(Bg * (1 + 0.05 * (r.unit() - 0.3) * (k + 1)) / u.bg),
                                        parsed(mu * (1 + 0.1 * (r.unit() - 0.5)))});
                    if (rvu == 0.0) break;
                }
                g.pvtg.push_back(rec);
                if (steep) { rv += (i == steepAt) ? 4e-4 + 2e-4 * r.unit() : 8e-5 + 4e-5 * r.unit(); p += (i == steepAt) ? 8 + 4 * r.unit() : 80 + 40 * r.unit(); }
                else { p += 15 + 80 * r.unit(); rv += 2e-5 + 2e-4 * r.unit(); }
                mu += 0.004 * r.unit();
            }
        }
        for (double* w : {g.pvtw, g.pvcdo}) {
            w[0] = P(50 + 300 * r.unit()); w[1] = parsed(1.0 + 0.3 * r.unit());
            w[2] = parsed((1e-5 + 1e-4 * r.unit()) * (1e-5 / u.comp)); w[3] = parsed(0.2 + 2 * r.unit());
            w[4] = parsed((r.coin(1, 4) ? 0.0 : 1e-4 * r.unit()) * (1e-5 / u.comp));
        }
        if (reg > 0) {   // defaulted: the table in effect is the one in effect in the previous region
            const Region& prev = d.regions[reg - 1];
            if (d.dflt[reg][0]) g.pvdo = prev.pvdo;
            if (d.dflt[reg][1]) g.pvdg = prev.pvdg;
            if (d.dflt[reg][2]) g.pvto = prev.pvto;
            if (d.dflt[reg][3]) g.pvtg = prev.pvtg;
        }
        d.regions.push_back(g);
    }
    for (int reg = 0; reg < nreg; ++reg) {
        if (d.oilKind == 1 && !d.dflt[reg][2]) for (auto& rec : d.regions[reg].pvto) d.longBranches += rec.rows.size() >= 7;
        if (d.gasKind == 1 && !d.dflt[reg][3]) for (auto& rec : d.regions[reg].pvtg) d.longBranches += rec.rows.size() >= 7;
    }
    std::string s = "RUNSPEC\nDIMENS\n 2 2 1 /\nTABDIMS\n 1 " + std::to_string(nreg) + " 40 40 1 40 /\nOIL\nGAS\nWATER\n";
    if (d.oilKind == 1) s += "DISGAS\n";
    if (d.gasKind == 1) s += "VAPOIL\n";
    s += std::string(u.name) + "\nGRID\nDX\n 4*100 /\nDY\n 4*100 /\nDZ\n 4*10 /\nTOPS\n 4*1000 /\nPORO\n 4*0.2 /\nPROPS\nDENSITY\n";
    for (int reg = 0; reg < nreg; ++reg) s += " " + num(850 / u.dens) + " " + num(1020 / u.dens) + " " + num(0.9 / u.dens) + " /\n";
    s += "PVTW\n";
    for (auto& g : d.regions) { for (double v : g.pvtw) s += " " + num(v); s += " /\n"; }
    auto simple = [&](const char* kw, std::vector<Row> Region::*tab, int which) {
        s += std::string(kw) + "\n";
        for (int reg = 0; reg < nreg; ++reg) {
            const Region& g = d.regions[reg];
            if (!d.dflt[reg][which]) for (auto& row : g.*tab) s += " " + num(row.y) + " " + num(row.B) + " " + num(row.mu) + "\n";
            s += "/\n";
        }
    };
    auto nested = [&](const char* kw, std::vector<Record> Region::*tab, int which) {
        s += std::string(kw) + "\n";
        for (int reg = 0; reg < nreg; ++reg) {
            const Region& g = d.regions[reg];
            if (d.dflt[reg][which]) { s += "/\n"; continue; }     // defaulted region table: a lone slash
            for (auto& rec : g.*tab) {
                s += " " + num(rec.key);
                for (auto& row : rec.rows) s += " " + num(row.y) + " " + num(row.B) + " " + num(row.mu) + "\n   ";
                s += "/\n";
            }
            s += "/\n";
        }
    };
    if (d.oilKind == 0) simple("PVDO", &Region::pvdo, 0);
    else if (d.oilKind == 1) nested("PVTO", &Region::pvto, 2);
    else { s += "PVCDO\n"; for (auto& g : d.regions) { for (double v : g.pvcdo) s += " " + num(v); s += " /\n"; } }
    if (d.gasKind == 0) simple("PVDG", &Region::pvdg, 1); else nested("PVTG", &Region::pvtg, 3);
    d.text = s;
    return d;
}

struct Loaded {
    std::shared_ptr<Opm::Python> python = std::make_shared<Opm::Python>();
    Opm::Deck deck;
    Opm::EclipseState es;
    Opm::Schedule sched;
    Opm::OilPvtMultiplexer<double> oil;
    Opm::GasPvtMultiplexer<double> gas;
    Opm::WaterPvtMultiplexer<double> water;
    explicit Loaded(const std::string& text)
        : deck(Opm::Parser().parseString(text)), es(deck), sched(deck, es, python)
    {
        oil.initFromState(es, sched);
        gas.initFromState(es, sched);
        water.initFromState(es, sched);
    }
};

static const double T0 = 300.0;

// answers of the real code, protected: any exception is the word `err`
template <class F> static std::string guard(F&& f)
{
    try { return f(); } catch (const Opm::NumericalProblem&) { return "noconv"; } catch (const std::exception&) { return "err"; }
}

static std::vector<double> col(const Opm::SimpleTable& t, const std::string& name) { return t.getColumn(name).vectorCopy(); }

static std::string recsOf(const Opm::PvtxTable& t, const char* y, const char* B, const char* mu)
{
    std::string s;
    for (size_t i = 0; i < t.size(); ++i) {
        if (i) s += '|';
        s += hx(t.getArgValue(i)) + "=";
        const auto& ut = t.getUnderSaturatedTable(i);
        const auto yy = col(ut, y), bb = col(ut, B), mm = col(ut, mu);
        for (size_t j = 0; j < yy.size(); ++j) { if (j) s += ';'; s += hx(yy[j]) + ":" + hx(bb[j]) + ":" + hx(mm[j]); }
    }
    return s;
}

static std::vector<double> spread(vh::Rng& r, const std::vector<double>& nodes, int extra)
{
    std::vector<double> q;
    for (size_t i = 0; i < nodes.size(); ++i) {
        q.push_back(nodes[i]);
        if (i + 1 < nodes.size()) q.push_back(nodes[i] + (nodes[i + 1] - nodes[i]) * r.unit());
    }
    const double lo = nodes.front(), hi = nodes.back(), span = hi - lo;
    for (int k = 0; k < extra; ++k) q.push_back(lo + span * (r.unit() * 1.5 - 0.25));
    q.push_back(hi + span * (0.1 + r.unit()));
    q.push_back(lo - span * 0.1 * r.unit());
    return q;
}

static void corrDeck(vh::Rng& r, vh::Sink& sink, const DeckSpec& d)
{
    Loaded L(d.text);
    const auto& tm = L.es.getTableManager();
    sink.count(std::string("deck.unit=") + kUnits[d.unit].name);
    sink.count("deck.oil=" + std::to_string(d.oilKind));
    sink.count("deck.gas=" + std::to_string(d.gasKind));
    sink.count("deck.regions=" + std::to_string(d.regions.size()));
    sink.count("deck.long_branches", d.longBranches);
    for (size_t reg = 1; reg < d.regions.size(); ++reg) for (int kw = 0; kw < 4; ++kw) sink.count("deck.defaulted_region_tables", d.dflt[reg][kw]);
    for (unsigned reg = 0; reg < d.regions.size(); ++reg) {
        // water and constant compressibility oil
        auto cc = [&](const double* rec5, std::function<std::pair<double, double>(double)> real) {
            std::vector<double> qs{rec5[0]};
            for (int k = 0; k < 8; ++k) qs.push_back(rec5[0] * (0.05 + 3 * r.unit()));
            std::string ans;
            for (size_t k = 0; k < qs.size(); ++k) { auto a = real(qs[k]); if (k) ans += ' '; ans += hx(a.first) + "/" + hx(a.second); }
            sink.emit("pvt.cc " + hx(rec5[0]) + " " + hx(rec5[1]) + " " + hx(rec5[2]) + " " + hx(rec5[3]) + " " + hx(rec5[4]) + " " + hxl(qs), ans);
        };
        {
            const auto& w = tm.getPvtwTable()[reg];
            const double rec5[5] = {w.reference_pressure, w.volume_factor, w.compressibility, w.viscosity, w.viscosibility};
            cc(rec5, [&](double p) { return std::make_pair(L.water.inverseFormationVolumeFactor(reg, T0, p, 0.0, 0.0), L.water.viscosity(reg, T0, p, 0.0, 0.0)); });
        }
        if (d.oilKind == 2) {
            const auto& w = tm.getPvcdoTable()[reg];
            const double rec5[5] = {w.reference_pressure, w.volume_factor, w.compressibility, w.viscosity, w.viscosibility};
            cc(rec5, [&](double p) { return std::make_pair(L.oil.inverseFormationVolumeFactor(reg, T0, p, 0.0), L.oil.viscosity(reg, T0, p, 0.0)); });
        }
        auto dead = [&](const char* kind, const std::vector<double>& p, const std::vector<double>& B, const std::vector<double>& mu,
                        std::function<std::pair<double, double>(double)> real) {
            std::vector<double> qs = spread(r, p, 6);
            std::string ans;
            for (size_t k = 0; k < qs.size(); ++k) { auto a = real(qs[k]); if (k) ans += ' '; ans += hx(a.first) + "/" + hx(a.second); }
            sink.emit(std::string("pvt.dead ") + kind + " " + hxl(p) + " " + hxl(B) + " " + hxl(mu) + " " + hxl(qs), ans);
        };
        if (d.oilKind == 0) {
            const auto& t = tm.getPvdoTables().getTable<Opm::PvdoTable>(reg);
            dead("O", t.getPressureColumn().vectorCopy(), t.getFormationFactorColumn().vectorCopy(), t.getViscosityColumn().vectorCopy(),
                 [&](double p) { return std::make_pair(L.oil.inverseFormationVolumeFactor(reg, T0, p, 0.0), L.oil.viscosity(reg, T0, p, 0.0)); });
        }
        if (d.gasKind == 0) {
            const auto& t = tm.getPvdgTables().getTable<Opm::PvdgTable>(reg);
            dead("G", t.getPressureColumn().vectorCopy(), t.getFormationFactorColumn().vectorCopy(), t.getViscosityColumn().vectorCopy(),
                 [&](double p) { return std::make_pair(L.gas.inverseFormationVolumeFactor(reg, T0, p, 0.0, 0.0), L.gas.viscosity(reg, T0, p, 0.0, 0.0)); });
        }
        // live fluids: construction (dump) and evaluation
        auto live = [&](const char* kind, const std::string& recs, const Tab2& invB, const std::string& dump,
                        const Tab1& rTab, bool firstAxisIsKey,
                        std::function<std::string(double, double)> b, std::function<std::string(double)> s, std::function<std::string(double)> q) {
            sink.emit(std::string("pvt.dump ") + kind + " " + recs, dump);
            std::string qs, ans;
            auto add = [&](const std::string& query, const std::string& a) { if (!qs.empty()) { qs += ','; ans += ' '; } qs += query; ans += a; };
            (void) firstAxisIsKey;
            for (size_t i = 0; i < invB.numX(); ++i) {
                for (size_t j = 0; j < invB.numY(i); ++j) add("b:" + hx(invB.xAt(i)) + ":" + hx(invB.yAt(i, j)), b(invB.xAt(i), invB.yAt(i, j)));
                if (i + 1 < invB.numX()) {
                    for (int k = 0; k < 3; ++k) {
                        const double a = r.unit(), x = invB.xAt(i) + (invB.xAt(i + 1) - invB.xAt(i)) * a;
                        const double lo = std::min(invB.yMin(i), invB.yMin(i + 1)), hi = std::max(invB.yMax(i), invB.yMax(i + 1));
                        const double y = lo + (hi - lo) * (r.unit() * 1.4 - 0.2);
                        add("b:" + hx(x) + ":" + hx(y), b(x, y));
                    }
                }
            }
            add("b:" + hx(invB.xMax() * 1.3) + ":" + hx(invB.yMax(invB.numX() - 1) * 1.2), b(invB.xMax() * 1.3, invB.yMax(invB.numX() - 1) * 1.2));
            add("b:" + hx(invB.xMin() * 0.5) + ":" + hx(invB.yMin(0) * 0.7), b(invB.xMin() * 0.5, invB.yMin(0) * 0.7));
            for (double p : spread(r, rTab.xValues(), 4)) add("s:" + hx(p), s(p));
            for (double rr : spread(r, rTab.yValues(), 4)) add("q:" + hx(rr), q(rr));
            sink.emit(std::string("pvt.live ") + kind + " " + recs + " " + qs, ans);
        };
        if (d.oilKind == 1) {
            const auto& lo = L.oil.getRealPvt<Opm::OilPvtApproach::LiveOil>();
            const std::string dump = dumpTab2(lo.inverseOilBTable()[reg]) + " " + dumpTab2(lo.oilMuTable()[reg]) + " " + dumpTab2(lo.inverseOilBMuTable()[reg]) + " " +
                dumpTab1(lo.inverseSaturatedOilBTable()[reg]) + " " + hxl(lo.inverseSaturatedOilBMuTable()[reg].yValues()) + " " +
                dumpTab1(lo.saturatedGasDissolutionFactorTable()[reg]) + " " + dumpTab1(lo.saturationPressure()[reg]);
            live("O", recsOf(tm.getPvtoTables()[reg], "P", "BO", "MU"), lo.inverseOilBTable()[reg], dump,
                 lo.saturatedGasDissolutionFactorTable()[reg], true,
                 [&](double rs, double p) { return guard([&] { return hx(L.oil.inverseFormationVolumeFactor(reg, T0, p, rs)) + "/" + hx(L.oil.viscosity(reg, T0, p, rs)); }); },
                 [&](double p) { return guard([&] { return hx(L.oil.saturatedInverseFormationVolumeFactor(reg, T0, p)) + "/" + hx(L.oil.saturatedViscosity(reg, T0, p)) + "/" + hx(L.oil.saturatedGasDissolutionFactor(reg, T0, p)); }); },
                 [&](double rs) { return guard([&] { return hx(L.oil.saturationPressure(reg, T0, rs)); }); });
        }
        if (d.gasKind == 1) {
            const auto& wg = L.gas.getRealPvt<Opm::GasPvtApproach::WetGas>();
            const std::string dump = dumpTab2(wg.inverseGasB()[reg]) + " " + dumpTab2(wg.gasMu()[reg]) + " " + dumpTab2(wg.inverseGasBMu()[reg]) + " " +
                dumpTab1(wg.inverseSaturatedGasB()[reg]) + " " + hxl(wg.inverseSaturatedGasBMu()[reg].yValues()) + " " +
                dumpTab1(wg.saturatedOilVaporizationFactorTable()[reg]) + " " + dumpTab1(wg.saturationPressure()[reg]);
            live("G", recsOf(tm.getPvtgTables()[reg], "RV", "BG", "MUG"), wg.inverseGasB()[reg], dump,
                 wg.saturatedOilVaporizationFactorTable()[reg], true,
                 [&](double p, double rv) { return guard([&] { return hx(L.gas.inverseFormationVolumeFactor(reg, T0, p, rv, 0.0)) + "/" + hx(L.gas.viscosity(reg, T0, p, rv, 0.0)); }); },
                 [&](double p) { return guard([&] { return hx(L.gas.saturatedInverseFormationVolumeFactor(reg, T0, p)) + "/" + hx(L.gas.saturatedViscosity(reg, T0, p)) + "/" + hx(L.gas.saturatedOilVaporizationFactor(reg, T0, p)); }); },
                 [&](double rv) { return guard([&] { return hx(L.gas.saturationPressure(reg, T0, rv)); }); });
        }
    }
}

// ------------------------------------------------------------------------------------------
// property mode: the statement of C14 on the real code alone

static bool close(double a, double b, double rel, double abs0 = 0.0) { return std::fabs(a - b) <= rel * std::max(std::fabs(a), std::fabs(b)) + abs0; }
static bool between(double v, double a, double b, double slack) { const double lo = std::min(a, b), hi = std::max(a, b); const double s = slack * std::max(std::fabs(lo), std::fabs(hi)); return lo - s <= v && v <= hi + s; }

struct Prop {
    vh::PropLog& log; const DeckSpec& d; int deckNo = 0; unsigned reg = 0;
    void check(bool ok, const std::string& key, const std::string& detail)
    {
        log.ok();
        if (!ok) log.fail(key, std::string("unit=") + kUnits[d.unit].name + " deck=" + std::to_string(deckNo) + " " + d.layouts() +
                          " region=" + std::to_string(reg + 1) + "(of " + std::to_string(d.regions.size()) + ") " + detail);
    }
};

using Eval = Opm::DenseAd::Evaluation<double, 2>;

// derivative through Evaluation vs finite differences of the double-valued function
template <class F, class G>
static void adCheck(Prop& P, const std::string& key, F&& fEval, G&& fDouble, double x, double scale)
{
    Eval X = Eval::createVariable(x, 0);
    Eval v; double f0;
    try { v = fEval(X); f0 = fDouble(x); } catch (const std::exception&) { return; }
    const double h = 1e-6 * scale;
    const double fp = fDouble(x + h), fm = fDouble(x - h);
    const double c = (fp - fm) / (2 * h), fw = (fp - f0) / h, bw = (f0 - fm) / h;
    const double ad = v.derivative(0);
    const double tol = 2e-5 * std::max({std::fabs(c), std::fabs(fw), std::fabs(bw)}) + 1e-9 * std::fabs(f0) / scale;
    const bool ok = std::fabs(ad - c) <= tol || std::fabs(ad - fw) <= tol || std::fabs(ad - bw) <= tol;
    P.check(close(v.value(), f0, 1e-13), key + ".value", "Evaluation value " + num(v.value()) + " != double value " + num(f0) + " at " + num(x));
    P.check(ok, key + ".derivative", "AD " + num(ad) + " vs central " + num(c) + " fwd " + num(fw) + " bwd " + num(bw) + " at " + num(x));
}

// linear interpolation written down here, independently of the table classes
static double lerp(double a, double b, double t) { return a * (1.0 - t) + b * t; }

static long gExtended = 0, gExtendedMasterNotNext = 0, gExtendedRows = 0;

// Master-table extension, stated on the deck's numbers alone (independent of the PVT classes): a record that
// has the saturated row only must behave as if it had the rows of the FIRST later record with under-saturated
// rows ("master"), shifted in y to start at its own saturated row and scaled in B and in mu:
//   y_j = y_0 + (M_j.y - M_0.y),  B_j = B_0 * M_j.B / M_0.B,  mu_j = mu_0 * M_j.mu / M_0.mu
// (i.e. the same relative compressibility / viscosibility between consecutive rows as the master branch),
// and between two such rows 1/B and 1/(B mu) are straight lines.
template <class FB, class FM>
static void extendLaws(Prop& P, vh::Rng& r, const std::string& kw, const std::vector<Record>& recs, size_t i,
                       double yUnit, double bUnit, double muUnit, FB&& invBAtY, FM&& muAtY)
{
    if (recs[i].rows.size() != 1) return;
    size_t m = i + 1;
    while (m < recs.size() && recs[m].rows.size() < 2) ++m;
    if (m >= recs.size()) return;                      // refused by the code; the generator never prints such a table
    ++gExtended; gExtendedMasterNotNext += m != i + 1;
    const auto& M = recs[m].rows;
    const Row& s = recs[i].rows[0];
    const double y0 = s.y * yUnit, B0 = s.B * bUnit, mu0 = s.mu * muUnit;
    double py = y0, pB = B0, pmu = mu0;
    for (size_t j = 1; j < M.size(); ++j) {
        ++gExtendedRows;
        const double y = y0 + (M[j].y - M[0].y) * yUnit;
        const double B = B0 * (M[j].B / M[0].B), mu = mu0 * (M[j].mu / M[0].mu);
        const std::string at = "rec " + std::to_string(i) + " (saturated row only) master rec " + std::to_string(m) + " (" +
                               std::to_string(M.size()) + " rows) added row " + std::to_string(j) + " y=" + num(y);
        const double gotB = 1.0 / invBAtY(y), gotMu = muAtY(y);
        P.check(close(gotB, B, 1e-10), "extend." + kw + ".B", at + " B=" + num(gotB) + " expected B0*M_j.B/M_0.B=" + num(B));
        P.check(close(gotMu, mu, 1e-10), "extend." + kw + ".mu", at + " mu=" + num(gotMu) + " expected mu0*M_j.mu/M_0.mu=" + num(mu));
        // the master's relative compressibility between rows j-1, j:  (B_j - B_{j-1})/((B_j + B_{j-1})/2)
        const double xM = (M[j].B - M[j - 1].B) / ((M[j].B + M[j - 1].B) / 2), gotPrev = 1.0 / invBAtY(py);
        const double xE = (gotB - gotPrev) / ((gotB + gotPrev) / 2);
        P.check(std::fabs(xE - xM) <= 1e-9 * std::max(1.0, std::fabs(xM)), "extend." + kw + ".compressibility", at + " x=" + num(xE) + " master x=" + num(xM));
        const double xmM = (M[j].mu - M[j - 1].mu) / ((M[j].mu + M[j - 1].mu) / 2), gotPrevMu = muAtY(py);
        const double xmE = (gotMu - gotPrevMu) / ((gotMu + gotPrevMu) / 2);
        P.check(std::fabs(xmE - xmM) <= 1e-9 * std::max(1.0, std::fabs(xmM)), "extend." + kw + ".viscosibility", at + " xMu=" + num(xmE) + " master xMu=" + num(xmM));
        // between the rows: straight lines in 1/B and 1/(B mu)
        const double t = r.unit(), yq = py + (y - py) * t;
        const double ob = lerp(1.0 / pB, 1.0 / B, t), om = ob / lerp(1.0 / (pB * pmu), 1.0 / (B * mu), t);
        P.check(close(invBAtY(yq), ob, 1e-10), "extend." + kw + ".interp.invB", at + " t=" + num(t) + " 1/B=" + num(invBAtY(yq)) + " line " + num(ob));
        P.check(close(muAtY(yq), om, 1e-10), "extend." + kw + ".interp.mu", at + " t=" + num(t) + " mu=" + num(muAtY(yq)) + " expected " + num(om));
        py = y; pB = B; pmu = mu;
    }
}

static void propDeck(vh::Rng& r, vh::PropLog& log, const DeckSpec& d, int deckNo)
{
    Loaded L(d.text);
    const UnitSys& u = kUnits[d.unit];
    Prop P{log, d, deckNo};
    const double tol = 1e-12;
    for (unsigned reg = 0; reg < d.regions.size(); ++reg) {
        P.reg = reg;
        const Region& g = d.regions[reg];
        // which deck table is in effect in this region (deck -> TableManager), before any PVT class is involved
        {
            const auto& tm = L.es.getTableManager();
            auto sameKeys = [&](const Opm::PvtxTable& t, const std::vector<Record>& recs, double keyUnit, double yUnit, const std::string& key) {
                bool ok = t.size() == recs.size();
                std::string got, want;
                for (size_t i = 0; i < t.size(); ++i) got += (i ? "," : "") + num(t.getArgValue(i));
                for (size_t i = 0; i < recs.size(); ++i) want += (i ? "," : "") + num(recs[i].key * keyUnit);
                for (size_t i = 0; ok && i < recs.size(); ++i) {
                    const auto& ut = t.getUnderSaturatedTable(i);
                    ok = close(t.getArgValue(i), recs[i].key * keyUnit, 1e-12, 1e-300) && ut.numRows() == recs[i].rows.size();
                    for (size_t j = 0; ok && j < recs[i].rows.size(); ++j) ok = close(ut.get(0, j), recs[i].rows[j].y * yUnit, 1e-12, 1e-300);
                }
                P.check(ok, key, "keys of the table in effect " + got + " expected (last table given at or before this region) " + want);
            };
            auto sameCol = [&](const Opm::SimpleTable& t, const std::vector<Row>& rows, const std::string& key) {
                bool ok = t.numRows() == rows.size();
                for (size_t i = 0; ok && i < rows.size(); ++i) ok = close(t.get(0, i), rows[i].y * u.p, 1e-12);
                P.check(ok, key, "pressure column of the table in effect has " + std::to_string(t.numRows()) + " rows starting " + num(t.get(0, 0)) +
                        ", expected " + std::to_string(rows.size()) + " rows starting " + num(rows[0].y * u.p));
            };
            if (d.oilKind == 1) sameKeys(tm.getPvtoTables()[reg], g.pvto, u.rs, u.p, "region.pvto.source");
            if (d.gasKind == 1) sameKeys(tm.getPvtgTables()[reg], g.pvtg, u.p, u.rv, "region.pvtg.source");
            if (d.oilKind == 0) sameCol(tm.getPvdoTables().getTable<Opm::PvdoTable>(reg), g.pvdo, "region.pvdo.source");
            if (d.gasKind == 0) sameCol(tm.getPvdgTables().getTable<Opm::PvdgTable>(reg), g.pvdg, "region.pvdg.source");
        }
        // PVTW / PVCDO: reference point honoured
        {
            const double p = g.pvtw[0] * u.p;
            P.check(close(1.0 / L.water.inverseFormationVolumeFactor(reg, T0, p, 0.0, 0.0), g.pvtw[1], tol), "node.pvtw.B", "Bw(pref)");
            P.check(close(L.water.viscosity(reg, T0, p, 0.0, 0.0), g.pvtw[3] * u.mu, tol), "node.pvtw.mu", "muw(pref)");
            // compressibility: d(1/B)/dp at pref = C/Bref
            adCheck(P, "ad.pvtw.invB", [&](const Eval& x) { return L.water.inverseFormationVolumeFactor(reg, Eval(T0), x, Eval(0.0), Eval(0.0)); },
                    [&](double x) { return L.water.inverseFormationVolumeFactor(reg, T0, x, 0.0, 0.0); }, p * (0.5 + r.unit()), p);
            Eval X = Eval::createVariable(p, 0);
            const Eval b = L.water.inverseFormationVolumeFactor(reg, Eval(T0), X, Eval(0.0), Eval(0.0));
            P.check(close(b.derivative(0), g.pvtw[2] * u.comp / g.pvtw[1], 1e-11), "node.pvtw.C", "d(1/Bw)/dp at pref = Cw/Bwref: " + num(b.derivative(0)));
        }
        if (d.oilKind == 2) {
            const double p = g.pvcdo[0] * u.p;
            P.check(close(1.0 / L.oil.inverseFormationVolumeFactor(reg, T0, p, 0.0), g.pvcdo[1], tol), "node.pvcdo.B", "Bo(pref)");
            P.check(close(L.oil.viscosity(reg, T0, p, 0.0), g.pvcdo[3] * u.mu, tol), "node.pvcdo.mu", "muo(pref)");
            adCheck(P, "ad.pvcdo.mu", [&](const Eval& x) { return L.oil.viscosity(reg, Eval(T0), x, Eval(0.0)); },
                    [&](double x) { return L.oil.viscosity(reg, T0, x, 0.0); }, p * (0.5 + r.unit()), p);
        }
        // PVDO / PVDG
        auto dead = [&](const char* name, const std::vector<Row>& rows, double bUnit,
                        std::function<double(double)> invB, std::function<double(double)> mu,
                        std::function<Eval(const Eval&)> invBE, std::function<Eval(const Eval&)> muE) {
            const std::string k = name;
            for (size_t i = 0; i < rows.size(); ++i) {
                const double p = rows[i].y * u.p;
                P.check(close(1.0 / invB(p), rows[i].B * bUnit, tol), "node." + k + ".B", "row " + std::to_string(i) + " B=" + num(1.0 / invB(p)) + " table " + num(rows[i].B * bUnit));
                P.check(close(mu(p), rows[i].mu * u.mu, tol), "node." + k + ".mu", "row " + std::to_string(i) + " mu=" + num(mu(p)) + " table " + num(rows[i].mu * u.mu));
                if (i + 1 < rows.size()) {
                    const double p2 = rows[i + 1].y * u.p, q = p + (p2 - p) * r.unit();
                    P.check(between(1.0 / invB(q), rows[i].B * bUnit, rows[i + 1].B * bUnit, 1e-12), "between." + k + ".B", "segment " + std::to_string(i));
                    P.check(between(mu(q), rows[i].mu * u.mu, rows[i + 1].mu * u.mu, 1e-12), "between." + k + ".mu", "segment " + std::to_string(i) + " mu=" + num(mu(q)));
                    const double qi = p + (p2 - p) * (0.1 + 0.8 * r.unit());
                    adCheck(P, "ad." + k + ".invB", invBE, invB, qi, (p2 - p) * 0.05);
                    adCheck(P, "ad." + k + ".mu", muE, mu, qi, (p2 - p) * 0.05);
                    // slope of 1/B inside a segment is the chord slope
                    Eval X = Eval::createVariable(qi, 0);
                    const double chord = (1.0 / (rows[i + 1].B * bUnit) - 1.0 / (rows[i].B * bUnit)) / (p2 - p);
                    P.check(close(invBE(X).derivative(0), chord, 1e-9, 1e-30), "slope." + k + ".invB", "segment " + std::to_string(i));
                }
            }
        };
        if (d.oilKind == 0)
            dead("pvdo", g.pvdo, u.bo, [&](double p) { return L.oil.inverseFormationVolumeFactor(reg, T0, p, 0.0); }, [&](double p) { return L.oil.viscosity(reg, T0, p, 0.0); },
                 [&](const Eval& p) { return L.oil.inverseFormationVolumeFactor(reg, Eval(T0), p, Eval(0.0)); }, [&](const Eval& p) { return L.oil.viscosity(reg, Eval(T0), p, Eval(0.0)); });
        if (d.gasKind == 0)
            dead("pvdg", g.pvdg, u.bg, [&](double p) { return L.gas.inverseFormationVolumeFactor(reg, T0, p, 0.0, 0.0); }, [&](double p) { return L.gas.viscosity(reg, T0, p, 0.0, 0.0); },
                 [&](const Eval& p) { return L.gas.inverseFormationVolumeFactor(reg, Eval(T0), p, Eval(0.0), Eval(0.0)); }, [&](const Eval& p) { return L.gas.viscosity(reg, Eval(T0), p, Eval(0.0), Eval(0.0)); });
        // PVTO
        if (d.oilKind == 1) {
            const auto& recs = g.pvto;
            auto invB = [&](double p, double rs) { return L.oil.inverseFormationVolumeFactor(reg, T0, p, rs); };
            auto mu = [&](double p, double rs) { return L.oil.viscosity(reg, T0, p, rs); };
            for (size_t i = 0; i < recs.size(); ++i) {
                const double rs = recs[i].key * u.rs;
                for (size_t j = 0; j < recs[i].rows.size(); ++j) {
                    const Row& row = recs[i].rows[j];
                    const double p = row.y * u.p;
                    const std::string at = "rec " + std::to_string(i) + " row " + std::to_string(j);
                    P.check(close(1.0 / invB(p, rs), row.B * u.bo, tol), "node.pvto.B", at + " B=" + num(1.0 / invB(p, rs)) + " table " + num(row.B * u.bo));
                    P.check(close(mu(p, rs), row.mu * u.mu, tol), "node.pvto.mu", at + " mu=" + num(mu(p, rs)) + " table " + num(row.mu * u.mu));
                    if (j + 1 < recs[i].rows.size()) {   // along a tabulated undersaturated line
                        const Row& nx = recs[i].rows[j + 1];
                        const double q = p + (nx.y * u.p - p) * r.unit();
                        P.check(between(1.0 / invB(q, rs), row.B * u.bo, nx.B * u.bo, 1e-12), "between.pvto.B", at);
                        P.check(between(mu(q, rs), row.mu * u.mu, nx.mu * u.mu, 1e-12), "between.pvto.mu", at);
                        // along a tabulated branch 1/B and 1/(B mu) are the straight lines through rows j, j+1
                        // (independent oracle); mid-segment, quarter points and a random point
                        const double b0 = 1.0 / (row.B * u.bo), b1 = 1.0 / (nx.B * u.bo);
                        const double m0 = b0 / (row.mu * u.mu), m1 = b1 / (nx.mu * u.mu);
                        for (const double t : {0.5, 0.25, 0.75, r.unit()}) {
                            const double qq = p + (nx.y * u.p - p) * t;
                            const std::string where = at + "/" + std::to_string(recs[i].rows.size()) + "rows t=" + num(t) + " Rs=" + num(rs) + " p=" + num(qq);
                            const double ib = invB(qq, rs), ob = lerp(b0, b1, t);
                            P.check(close(ib, ob, 1e-10), "interp.pvto.invB", where + " 1/Bo=" + num(ib) + " line through the bracketing rows " + num(ob) +
                                    " rows [" + num(b0) + ", " + num(b1) + "]");
                            const double vm = mu(qq, rs), om = ob / lerp(m0, m1, t);
                            P.check(close(vm, om, 1e-10), "interp.pvto.mu", where + " mu=" + num(vm) + " expected " + num(om));
                        }
                    }
                }
                extendLaws(P, r, "pvto", recs, i, u.p, u.bo, u.mu, [&](double y) { return invB(y, rs); }, [&](double y) { return mu(y, rs); });
                // saturated functions at the saturated nodes
                const Row& s = recs[i].rows[0];
                const double ps = s.y * u.p;
                P.check(close(L.oil.saturatedGasDissolutionFactor(reg, T0, ps), rs, tol, 1e-12 * recs.back().key * u.rs), "node.pvto.Rs", "rec " + std::to_string(i) + " Rs=" + num(L.oil.saturatedGasDissolutionFactor(reg, T0, ps)) + " table " + num(rs));
                P.check(close(1.0 / L.oil.saturatedInverseFormationVolumeFactor(reg, T0, ps), s.B * u.bo, tol), "node.pvto.Bsat", "rec " + std::to_string(i));
                P.check(close(L.oil.saturatedViscosity(reg, T0, ps), s.mu * u.mu, tol), "node.pvto.musat", "rec " + std::to_string(i));
                P.check(close(L.oil.saturationPressure(reg, T0, rs), ps, 1e-8), "psat.pvto.node", "rec " + std::to_string(i) + " psat(Rs_i)=" + num(L.oil.saturationPressure(reg, T0, rs)) + " p_i=" + num(ps));
                if (i + 1 < recs.size()) {
                    const double ps2 = recs[i + 1].rows[0].y * u.p, rs2 = recs[i + 1].key * u.rs;
                    const double q = ps + (ps2 - ps) * r.unit();
                    const double rsq = L.oil.saturatedGasDissolutionFactor(reg, T0, q);
                    P.check(between(rsq, rs, rs2, 1e-12), "between.pvto.Rs", "segment " + std::to_string(i));
                    P.check(between(1.0 / L.oil.saturatedInverseFormationVolumeFactor(reg, T0, q), s.B * u.bo, recs[i + 1].rows[0].B * u.bo, 1e-12), "between.pvto.Bsat", "segment " + std::to_string(i));
                    // the undersaturated surface meets the saturated curve
                    const double bs = L.oil.saturatedInverseFormationVolumeFactor(reg, T0, q), bu = invB(q, rsq);
                    P.check(close(bs, bu, 1e-9), "undersat-meets-sat.pvto", "p=" + num(q) + " Rs=" + num(rsq) + " saturated 1/B=" + num(bs) + " undersaturated 1/B=" + num(bu));
                    const double ms = L.oil.saturatedViscosity(reg, T0, q), mu2 = mu(q, rsq);
                    P.check(close(ms, mu2, 1e-9), "undersat-meets-sat.pvto", "p=" + num(q) + " Rs=" + num(rsq) + " saturated mu=" + num(ms) + " undersaturated mu=" + num(mu2));
                    // saturation pressure inverts Rs(p)
                    for (const double rt : {rs + (rs2 - rs) * r.unit(), rs + (rs2 - rs) * 0.5})
                    try {
                        const double pp = L.oil.saturationPressure(reg, T0, rt);
                        P.check(close(L.oil.saturatedGasDissolutionFactor(reg, T0, pp), rt, 1e-7), "psat.pvto.inverts", "Rs=" + num(rt) + " psat=" + num(pp) + " Rs(psat)=" + num(L.oil.saturatedGasDissolutionFactor(reg, T0, pp)));
                        P.check(between(pp, ps, ps2, 1e-9), "psat.pvto.bracket", "Rs=" + num(rt) + " psat=" + num(pp));
                    } catch (const std::exception&) { P.check(false, "psat.pvto.throws", "Rs=" + num(rt)); }
                    // AD along p and along Rs in the interior
                    const double rq = rs + (rs2 - rs) * (0.1 + 0.8 * r.unit());
                    const double pq = ps2 * (1.05 + r.unit());
                    adCheck(P, "ad.pvto.invB.dp", [&](const Eval& x) { return L.oil.inverseFormationVolumeFactor(reg, Eval(T0), x, Eval(rq)); }, [&](double x) { return invB(x, rq); }, pq, (ps2 - ps) * 0.01);
                    adCheck(P, "ad.pvto.mu.dp", [&](const Eval& x) { return L.oil.viscosity(reg, Eval(T0), x, Eval(rq)); }, [&](double x) { return mu(x, rq); }, pq, (ps2 - ps) * 0.01);
                    adCheck(P, "ad.pvto.invB.dRs", [&](const Eval& x) { return L.oil.inverseFormationVolumeFactor(reg, Eval(T0), Eval(pq), x); }, [&](double x) { return invB(pq, x); }, rq, (rs2 - rs) * 0.01);
                    adCheck(P, "ad.pvto.Rs", [&](const Eval& x) { return L.oil.saturatedGasDissolutionFactor(reg, Eval(T0), x); }, [&](double x) { return L.oil.saturatedGasDissolutionFactor(reg, T0, x); }, ps + (ps2 - ps) * (0.1 + 0.8 * r.unit()), (ps2 - ps) * 0.01);
                }
            }
        }
        // PVTG
        if (d.gasKind == 1) {
            const auto& recs = g.pvtg;
            auto invB = [&](double p, double rv) { return L.gas.inverseFormationVolumeFactor(reg, T0, p, rv, 0.0); };
            auto mu = [&](double p, double rv) { return L.gas.viscosity(reg, T0, p, rv, 0.0); };
            for (size_t i = 0; i < recs.size(); ++i) {
                const double p = recs[i].key * u.p;
                for (size_t j = 0; j < recs[i].rows.size(); ++j) {
                    const Row& row = recs[i].rows[j];
                    const double rv = row.y * u.rv;
                    const std::string at = "rec " + std::to_string(i) + " row " + std::to_string(j);
                    P.check(close(1.0 / invB(p, rv), row.B * u.bg, tol), "node.pvtg.B", at + " B=" + num(1.0 / invB(p, rv)) + " table " + num(row.B * u.bg));
                    P.check(close(mu(p, rv), row.mu * u.mu, tol), "node.pvtg.mu", at + " mu=" + num(mu(p, rv)) + " table " + num(row.mu * u.mu));
                    if (j + 1 < recs[i].rows.size()) {
                        const Row& nx = recs[i].rows[j + 1];
                        const double q = rv + (nx.y * u.rv - rv) * r.unit();
                        P.check(between(1.0 / invB(p, q), row.B * u.bg, nx.B * u.bg, 1e-12), "between.pvtg.B", at);
                        P.check(between(mu(p, q), row.mu * u.mu, nx.mu * u.mu, 1e-12), "between.pvtg.mu", at);
                        const double b0 = 1.0 / (row.B * u.bg), b1 = 1.0 / (nx.B * u.bg);
                        const double m0 = b0 / (row.mu * u.mu), m1 = b1 / (nx.mu * u.mu);
                        for (const double t : {0.5, 0.25, 0.75, r.unit()}) {
                            const double qq = rv + (nx.y * u.rv - rv) * t;
                            const std::string where = at + "/" + std::to_string(recs[i].rows.size()) + "rows t=" + num(t) + " pg=" + num(p) + " Rv=" + num(qq);
                            const double ib = invB(p, qq), ob = lerp(b0, b1, t);
                            P.check(close(ib, ob, 1e-10), "interp.pvtg.invB", where + " 1/Bg=" + num(ib) + " line through the bracketing rows " + num(ob) +
                                    " rows [" + num(b0) + ", " + num(b1) + "]");
                            const double vm = mu(p, qq), om = ob / lerp(m0, m1, t);
                            P.check(close(vm, om, 1e-10), "interp.pvtg.mu", where + " mu=" + num(vm) + " expected " + num(om));
                        }
                    }
                }
                extendLaws(P, r, "pvtg", recs, i, u.rv, u.bg, u.mu, [&](double y) { return invB(p, y); }, [&](double y) { return mu(p, y); });
                const Row& s = recs[i].rows[0];
                const double rvs = s.y * u.rv;
                P.check(close(L.gas.saturatedOilVaporizationFactor(reg, T0, p), rvs, tol, 1e-12 * recs.back().rows[0].y * u.rv), "node.pvtg.Rv", "rec " + std::to_string(i));
                P.check(close(1.0 / L.gas.saturatedInverseFormationVolumeFactor(reg, T0, p), s.B * u.bg, tol), "node.pvtg.Bsat", "rec " + std::to_string(i));
                P.check(close(L.gas.saturatedViscosity(reg, T0, p), s.mu * u.mu, tol), "node.pvtg.musat", "rec " + std::to_string(i));
                P.check(close(L.gas.saturationPressure(reg, T0, rvs), p, 1e-8), "psat.pvtg.node", "rec " + std::to_string(i) + " psat=" + num(L.gas.saturationPressure(reg, T0, rvs)) + " p_i=" + num(p));
                if (i + 1 < recs.size()) {
                    const double p2 = recs[i + 1].key * u.p, rv2 = recs[i + 1].rows[0].y * u.rv;
                    const double q = p + (p2 - p) * r.unit();
                    const double rvq = L.gas.saturatedOilVaporizationFactor(reg, T0, q);
                    P.check(between(rvq, rvs, rv2, 1e-12), "between.pvtg.Rv", "segment " + std::to_string(i));
                    const double bs = L.gas.saturatedInverseFormationVolumeFactor(reg, T0, q), bu = invB(q, rvq);
                    P.check(close(bs, bu, 1e-9), "undersat-meets-sat.pvtg", "p=" + num(q) + " Rv=" + num(rvq) + " saturated 1/B=" + num(bs) + " undersaturated 1/B=" + num(bu));
                    const double ms = L.gas.saturatedViscosity(reg, T0, q), mu2 = mu(q, rvq);
                    P.check(close(ms, mu2, 1e-9), "undersat-meets-sat.pvtg", "p=" + num(q) + " saturated mu=" + num(ms) + " undersaturated mu=" + num(mu2));
                    for (const double rt : {rvs + (rv2 - rvs) * r.unit(), rvs + (rv2 - rvs) * 0.5})
                    try {
                        const double pp = L.gas.saturationPressure(reg, T0, rt);
                        P.check(close(L.gas.saturatedOilVaporizationFactor(reg, T0, pp), rt, 1e-7), "psat.pvtg.inverts", "Rv=" + num(rt) + " psat=" + num(pp));
                    } catch (const std::exception&) { P.check(false, "psat.pvtg.throws", "Rv=" + num(rt)); }
                    const double pq = p + (p2 - p) * (0.1 + 0.8 * r.unit());
                    const double rq = rvq * (0.1 + 0.7 * r.unit());
                    adCheck(P, "ad.pvtg.invB.dp", [&](const Eval& x) { return L.gas.inverseFormationVolumeFactor(reg, Eval(T0), x, Eval(rq), Eval(0.0)); }, [&](double x) { return invB(x, rq); }, pq, (p2 - p) * 0.01);
                    adCheck(P, "ad.pvtg.mu.dRv", [&](const Eval& x) { return L.gas.viscosity(reg, Eval(T0), Eval(pq), x, Eval(0.0)); }, [&](double x) { return mu(pq, x); }, rq, rvq * 0.01);
                }
            }
        }
    }
}

// function level properties on the real templates alone
static void propTab1(vh::Rng& r, vh::PropLog& log, int cases)
{
    for (int c = 0; c < cases; ++c) {
        const int n = r.range(2, 30);
        std::vector<double> xs = incr(r, n, (r.unit() - 0.5) * 100, std::pow(10.0, r.range(-2, 5)), r.range(0, 1));
        const int ystyle = r.range(0, 3);
        std::vector<double> ys = values(r, n, ystyle);
        Tab1 f(xs, ys);
        auto chk = [&](bool ok, const std::string& key, const std::string& detail) { log.ok(); if (!ok) log.fail(key, detail); };
        for (int i = 0; i < n; ++i) {
            chk(close(f.eval(xs[i], false), ys[i], 1e-12, 1e-12), "t1.node", "n=" + std::to_string(n) + " i=" + std::to_string(i));
            if (i + 1 < n) {
                const double x = xs[i] + (xs[i + 1] - xs[i]) * r.unit();
                const size_t s = f.findSegmentIndex(x).value;
                chk(xs[s] <= x && x <= xs[s + 1], "t1.segment", "x=" + num(x));
                chk(between(f.eval(x), ys[i], ys[i + 1], 1e-12), "t1.between", "x=" + num(x));
                const double x2 = xs[i] + (xs[i + 1] - xs[i]) * r.unit();
                if (ystyle == 1 || ystyle == 3)
                    chk((x <= x2) == (f.eval(x) <= f.eval(x2) + 1e-12 * std::fabs(f.eval(x))) || f.eval(x) == f.eval(x2), "t1.monotone", "x=" + num(x) + " x2=" + num(x2));
                if (x != x2)
                    chk(close((f.eval(x2) - f.eval(x)) / (x2 - x), f.evalDerivative(x), 1e-6, 1e-9), "t1.slope", "x=" + num(x) + " x2=" + num(x2));
            }
        }
        // the two extrapolated rays: the returned derivative is the slope of the ray, i.e. the chord slope of the
        // end segment (theorem eval_hasDerivAt_extrapolated)
        const double span = xs[n - 1] - xs[0];
        for (int side = 0; side < 2; ++side) {
            const double a = side ? xs[n - 1] + span * (0.01 + r.unit()) : xs[0] - span * (0.01 + r.unit());
            const double b = side ? a + span * (0.1 + r.unit()) : a - span * (0.1 + r.unit());
            const double chord = side ? (ys[n - 1] - ys[n - 2]) / (xs[n - 1] - xs[n - 2]) : (ys[1] - ys[0]) / (xs[1] - xs[0]);
            const double dq = (f.eval(b, true) - f.eval(a, true)) / (b - a), de = f.evalDerivative(a, true);
            const std::string where = std::string(side ? "right" : "left") + " of the table, n=" + std::to_string(n) + " x=" + num(a) + " x2=" + num(b);
            chk(close(dq, de, 1e-6, 1e-9), "t1.slope.extrapolated", where + " difference quotient " + num(dq) + " evalDerivative " + num(de));
            chk(close(de, chord, 1e-12, 1e-300), "t1.slope.extrapolated.chord", where + " evalDerivative " + num(de) + " end segment chord slope " + num(chord));
        }
    }
}

// deck number k of a run: the first ones have fixed kinds / region layouts so that every run covers them
static DeckSpec deckNo(vh::Rng& r, int k)
{
    switch (k) {
    case 0: return makeDeck(r, 0, 0);
    case 1: return makeDeck(r, 1, 1);
    case 2: return makeDeck(r, 2, -1);
    case 3: return makeDeck(r, 1, 1, 1);     // PVTO + PVTG, regions T,T,/
    case 4: return makeDeck(r, 0, 0, 1);     // PVDO + PVDG, regions T,T,/
    case 5: return makeDeck(r, 1, 1, 2);     // T,/,T,/
    case 6: return makeDeck(r, 1, 1, 3);     // every under-saturated branch has 7 ... 12 rows
    default: return makeDeck(r);
    }
}

// ------------------------------------------------------------------------------------------
// which deck table a region gets: PvtxTable::init (PVTO/PVTG) and initSimpleTableContainer (PVDO/PVDG)
// on keywords with up to 6 regions and any pattern of defaulted region tables, including region 1

static void corrRegions(vh::Rng& r, vh::Sink& sink, int cases)
{
    for (int c = 0; c < cases; ++c) {
        const int ntab = r.coin(1, 4) ? r.range(1, 2) : r.range(3, 6);
        const int kind = r.range(0, 3);   // 0 PVTO 1 PVTG 2 PVDO 3 PVDG
        std::vector<bool> empty(ntab);
        for (int t = 0; t < ntab; ++t) empty[t] = t == 0 ? r.coin(1, 8) : r.coin(2, 5);
        std::string s = "RUNSPEC\nTABDIMS\n 1 " + std::to_string(ntab) + " 40 40 1 40 /\nOIL\nGAS\nWATER\nDISGAS\nVAPOIL\nPROPS\n";
        static const char* kws[4] = {"PVTO", "PVTG", "PVDO", "PVDG"};
        s += std::string(kws[kind]) + "\n";
        for (int t = 0; t < ntab; ++t) {
            if (!empty[t]) {
                const int nrec = r.range(1, 4);
                double key = 1 + 10 * r.unit(), y = 10 + 10 * r.unit();
                for (int i = 0; i < nrec; ++i) {
                    if (kind == 0) {        // Rs  p Bo mu [p Bo mu]
                        s += " " + num(key) + " " + num(y) + " " + num(1.5 - 0.01 * i) + " 1.0";
                        if (r.coin()) s += " " + num(y + 50) + " " + num(1.4 - 0.01 * i) + " 1.1";
                        s += " /\n";
                    } else if (kind == 1) { // pg  Rv Bg mu [Rv Bg mu]
                        s += " " + num(key) + " " + num(1e-4 * (i + 2)) + " 0.01 0.02";
                        if (r.coin()) s += " " + num(1e-5 * (i + 1)) + " 0.011 0.021";
                        s += " /\n";
                    } else {                // p B mu rows of one simple table
                        s += " " + num(key) + " " + num(kind == 2 ? 1.5 - 0.01 * i : 0.1 / (i + 1)) + " " + num(1.0 + 0.1 * i) + "\n";
                    }
                    key += 1 + 20 * r.unit(); y += 5 + 20 * r.unit();
                }
            }
            if (kind >= 2 || t + 1 < ntab || true) s += "/\n";
        }
        sink.count(std::string("regions.kw=") + kws[kind]);
        sink.count("regions.tables=" + std::to_string(ntab));
        sink.count(empty[0] ? "regions.first_defaulted" : "regions.first_given");
        try {
            const Opm::Deck deck = Opm::Parser().parseString(s);
            const auto& kw = deck[kws[kind]].back();
            if (kind < 2) {
                std::string recs;
                for (size_t i = 0; i < kw.size(); ++i) {
                    const auto& item = kw.getRecord(i).getItem(0);
                    recs += (i ? "," : "") + (item.hasValue(0) ? hx(item.getSIDouble(0)) : std::string("-"));
                }
                const size_t n = Opm::PvtxTable::numTables(kw);
                std::string ans;
                for (size_t idx = 0; idx <= n; ++idx) {
                    std::string a;
                    try {
                        std::vector<double> keys;
                        if (kind == 0) { const Opm::PvtoTable t(kw, idx); for (size_t i = 0; i < t.size(); ++i) keys.push_back(t.getArgValue(i)); }
                        else { const Opm::PvtgTable t(kw, idx); for (size_t i = 0; i < t.size(); ++i) keys.push_back(t.getArgValue(i)); }
                        a = hxl(keys);
                    } catch (const std::invalid_argument&) { a = "err:nosuch"; }
                    catch (const std::exception&) { a = "err:first"; }
                    ans += (idx ? " " : "") + a;
                    sink.count(a.rfind("err", 0) == 0 ? "regions." + a : "regions.ok");
                }
                sink.emit("pvt.regions " + (recs.empty() ? std::string("@") : recs), ans);   // @ = a keyword without records
            } else {
                std::string tabs;
                for (size_t i = 0; i < kw.size(); ++i) {
                    const auto& item = kw.getRecord(i).getItem("DATA");
                    std::vector<double> col;
                    if (item.data_size() > 0) { const auto& v = item.getSIDoubleData(); for (size_t j = 0; j < v.size(); j += 3) col.push_back(v[j]); }
                    tabs += (i ? ";" : "") + hxl(col);
                }
                std::string ans;
                try {
                    const Opm::TableManager tm(deck);
                    const auto& cont = kind == 2 ? tm.getPvdoTables() : tm.getPvdgTables();
                    for (size_t t = 0; t < cont.size(); ++t) {
                        const auto& tab = cont.getTable(t);
                        ans += (t ? "|" : "") + hxl(tab.getColumn(0).vectorCopy());
                    }
                    sink.count("regions.simple.ok");
                } catch (const std::exception&) { ans = "err"; sink.count("regions.simple.err"); }
                sink.emit("pvt.simple " + tabs, ans);
            }
        } catch (const std::exception& e) {
            std::cerr << "region deck rejected by the parser: " << typeid(e).name() << "\n" << s << "\n";
            throw;
        }
    }
}

int main(int argc, char** argv)
{
    if (argc < 5) { std::cerr << "usage: pvt corr|prop <seed> <tier> <outdir>\n"; return 2; }
    const std::string mode = argv[1];
    const uint64_t seed = std::strtoull(argv[2], nullptr, 10);
    const bool thorough = std::string(argv[3]) == "thorough";
    const std::string out = argv[4];
    vh::Rng r(seed);
    if (mode == "corr") {
        vh::Sink sink(out);
        corrTab1(r, sink, thorough ? 6000 : 1200);
        corrTab2(r, sink, thorough ? 4000 : 800);
        corrRegions(r, sink, thorough ? 3000 : 500);
        const int decks = thorough ? 1200 : 160;
        for (int k = 0; k < decks; ++k) {
            DeckSpec d = deckNo(r, k);
            try { corrDeck(r, sink, d); }
            catch (const std::exception& e) {
                // a generated deck the real code refuses is a generator defect, not a result: make it loud
                std::cerr << "deck rejected: " << typeid(e).name() << "\n" << d.text << "\n";
                return 3;
            }
        }
        sink.writeStats(out + "/stats.json");
        return 0;
    }
    if (mode == "prop") {
        vh::PropLog log(out + "/prop.txt");
        propTab1(r, log, thorough ? 3000 : 500);
        const int decks = thorough ? 1500 : 200;
        long multi = 0, dfl = 0, dflNotFirst = 0, longB = 0;
        for (int k = 0; k < decks; ++k) {
            DeckSpec d = deckNo(r, k);
            multi += d.regions.size() >= 3;
            for (size_t reg = 1; reg < d.regions.size(); ++reg)
                for (int kw : {d.oilKind == 0 ? 0 : d.oilKind == 1 ? 2 : -1, d.gasKind == 0 ? 1 : 3}) {
                    if (kw < 0 || !d.dflt[reg][kw]) continue;
                    ++dfl;
                    // the table in effect is not the keyword's first table (what a forward search would pick)
                    size_t src = reg; while (d.dflt[src][kw]) --src;
                    dflNotFirst += src != 0;
                }
            longB += d.longBranches;
            try { propDeck(r, log, d, k); }
            catch (const std::exception& e) { std::cerr << "deck rejected: " << typeid(e).name() << "\n" << d.text << "\n"; return 3; }
        }
        std::ofstream st(out + "/prop_stats.json");
        st << "{\"checked\": " << log.checked << ", \"failed\": " << log.failed << ", \"decks\": " << decks
           << ", \"decks_with_3_or_more_regions\": " << multi << ", \"defaulted_region_tables\": " << dfl
           << ", \"defaulted_with_source_other_than_first_table\": " << dflNotFirst
           << ", \"branches_with_7_or_more_rows\": " << longB
           << ", \"extended_branches\": " << gExtended << ", \"extended_with_master_not_the_next_record\": " << gExtendedMasterNotNext
           << ", \"extended_rows_checked\": " << gExtendedRows << "}\n";
        return 0;
    }
    return 2;
}
