// C05 harness: restart slot tables (correspondence with the generated Lean tables) and the
// save -> load round trip on the real code (property mode).
//
//   restart corr <seed> <tier> <outdir>   ops.txt / impl.txt / stats.json
//   restart prop <seed> <tier> <outdir>   prop.txt / prop_stats.json
#include "common/vh.hpp"

#include <opm/output/eclipse/AggregateWellData.hpp>
#include <opm/output/eclipse/AggregateConnectionData.hpp>
#include <opm/output/eclipse/AggregateGroupData.hpp>
#include <opm/output/eclipse/AggregateAquiferData.hpp>
#include <opm/output/eclipse/WindowedArray.hpp>
#include <opm/output/eclipse/WriteRestartHelpers.hpp>
#include <opm/output/eclipse/RestartIO.hpp>
#include <opm/output/eclipse/RestartValue.hpp>
#include <opm/output/eclipse/VectorItems/action.hpp>
#include <opm/output/eclipse/VectorItems/aquifer.hpp>
#include <opm/output/eclipse/VectorItems/connection.hpp>
#include <opm/output/eclipse/VectorItems/doubhead.hpp>
#include <opm/output/eclipse/VectorItems/group.hpp>
#include <opm/output/eclipse/VectorItems/intehead.hpp>
#include <opm/output/eclipse/VectorItems/logihead.hpp>
#include <opm/output/eclipse/VectorItems/msw.hpp>
#include <opm/output/eclipse/VectorItems/network.hpp>
#include <opm/output/eclipse/VectorItems/tabdims.hpp>
#include <opm/output/eclipse/VectorItems/udq.hpp>
#include <opm/output/eclipse/VectorItems/well.hpp>
#include <opm/output/data/Wells.hpp>
#include <opm/output/data/Solution.hpp>
#include <opm/output/data/Groups.hpp>

#include <opm/io/eclipse/OutputStream.hpp>
#include <opm/io/eclipse/rst/header.hpp>
#include <opm/io/eclipse/rst/well.hpp>
#include <opm/io/eclipse/rst/connection.hpp>
#include <opm/io/eclipse/rst/group.hpp>
#include <opm/input/eclipse/Schedule/Group/Group.hpp>
#include <opm/input/eclipse/Schedule/Group/GConSump.hpp>
#include <opm/io/eclipse/rst/state.hpp>
#include <opm/io/eclipse/ERst.hpp>
#include <opm/io/eclipse/RestartFileView.hpp>

#include <opm/input/eclipse/Deck/Deck.hpp>
#include <opm/input/eclipse/Parser/Parser.hpp>
#include <opm/input/eclipse/Python/Python.hpp>
#include <opm/input/eclipse/EclipseState/EclipseState.hpp>
#include <opm/input/eclipse/EclipseState/Grid/EclipseGrid.hpp>
#include <opm/input/eclipse/EclipseState/IOConfig/IOConfig.hpp>
#include <opm/input/eclipse/Schedule/Schedule.hpp>
#include <opm/input/eclipse/Schedule/SummaryState.hpp>
#include <opm/input/eclipse/Schedule/Action/State.hpp>
#include <opm/input/eclipse/Schedule/UDQ/UDQState.hpp>
#include <opm/input/eclipse/Schedule/Well/Well.hpp>
#include <opm/input/eclipse/Schedule/Well/WellConnections.hpp>
#include <opm/input/eclipse/Schedule/Well/WellTestState.hpp>
#include <opm/input/eclipse/Schedule/Well/WellEconProductionLimits.hpp>
#include <opm/input/eclipse/Schedule/Well/WVFPDP.hpp>
#include <opm/input/eclipse/Schedule/Well/WVFPEXP.hpp>
#include <opm/input/eclipse/Schedule/Well/WDFAC.hpp>
#include <opm/input/eclipse/Units/UnitSystem.hpp>
#include <opm/common/utility/TimeService.hpp>

#include <cmath>
#include <filesystem>
#include <iostream>
#include <memory>
#include <optional>
#include <sstream>

namespace VI = Opm::RestartIO::Helpers::VectorItems;
using M = Opm::UnitSystem::measure;

namespace {

// ---------------------------------------------------------------------------------------------
// model generator

struct ConnSpec { int i, j, k; bool open; double diam; double skin; char dir; };
struct WellSpec {
    std::string name, group;
    int hi, hj;
    bool producer; bool history; char injphase;      // 'W' 'G' 'O'
    std::string prefphase;
    std::vector<ConnSpec> conns;
    bool xflow; bool has_refdepth; double refdepth; double drad;
    bool shut;
    double efac; bool wecon; bool wgrupcon;
    double orat, wrat, grat, bhp;
};
struct ModelSpec {
    std::string units;     // METRIC FIELD LAB PVT-M
    int nx, ny, nz;
    std::vector<int> actnum;
    std::vector<std::string> groups;
    std::vector<WellSpec> wells;
    int nsteps;
    std::string deck;
};

std::string num(double x) { std::ostringstream o; o.precision(10); o << x; return o.str(); }

ModelSpec make_model(vh::Rng& rng, int unit_choice)
{
    ModelSpec m;
    static const std::vector<std::string> U = {"METRIC", "FIELD", "LAB", "PVT-M"};
    m.units = U[unit_choice % 4];
    m.nx = rng.range(3, 5); m.ny = rng.range(3, 5); m.nz = rng.range(2, 4);
    const int n = m.nx * m.ny * m.nz;
    m.actnum.assign(n, 1);
    const int ngroups = rng.range(1, 4);
    for (int g = 0; g < ngroups; ++g) m.groups.push_back("G" + std::to_string(g + 1));
    const int nwells = rng.range(2, 6);
    std::vector<char> used(m.nx * m.ny, 0);
    for (int w = 0; w < nwells; ++w) {
        WellSpec ws;
        ws.producer = (w == 0) ? true : (w == 1 ? false : rng.coin());
        ws.name = std::string(ws.producer ? "P" : "I") + std::to_string(w + 1);
        ws.group = m.groups[rng.below(m.groups.size())];
        int col;
        do { col = static_cast<int>(rng.below(m.nx * m.ny)); } while (used[col]);
        used[col] = 1;
        ws.hi = col % m.nx; ws.hj = col / m.nx;
        ws.history = ws.producer && rng.coin(1, 3);
        ws.injphase = "WGW"[rng.below(3)];
        ws.prefphase = ws.producer ? std::vector<std::string>{"OIL", "GAS", "WATER"}[rng.below(3)]
                                   : (ws.injphase == 'W' ? "WATER" : "GAS");
        const int nc = rng.range(1, std::min(3, m.nz));
        const int k0 = rng.range(0, m.nz - nc);
        for (int c = 0; c < nc; ++c) {
            ConnSpec cs{ws.hi, ws.hj, k0 + c, rng.coin(4, 5), 0.1 + 0.05 * rng.range(1, 6), 0.5 * rng.range(0, 4), "ZXY"[rng.below(3)]};
            ws.conns.push_back(cs);
        }
        if (!ws.conns.front().open && nc == 1) ws.conns.front().open = true;
        ws.xflow = rng.coin();
        ws.has_refdepth = rng.coin(3, 4);
        ws.refdepth = 2000.0 + rng.range(0, 50);
        ws.drad = rng.coin() ? 0.0 : 10.0 * rng.range(1, 20);
        ws.shut = rng.coin(1, 6);
        ws.efac = rng.coin() ? 1.0 : 0.05 * rng.range(10, 19);
        ws.wecon = ws.producer && rng.coin();
        ws.wgrupcon = rng.coin(1, 3);
        ws.orat = 100.0 * rng.range(1, 50); ws.wrat = 50.0 * rng.range(1, 40); ws.grat = 1000.0 * rng.range(1, 90);
        ws.bhp = 50.0 + rng.range(0, 300);
        m.wells.push_back(ws);
    }
    // inactive cells: never a connection cell
    std::vector<char> conn_cell(n, 0);
    for (auto& w : m.wells) for (auto& c : w.conns) conn_cell[c.i + m.nx * (c.j + m.ny * c.k)] = 1;
    for (int c = 0; c < n; ++c) if (!conn_cell[c] && rng.coin(1, 5)) m.actnum[c] = 0;
    m.nsteps = rng.range(2, 4);

    std::ostringstream d;
    d << "RUNSPEC\nTITLE\n C05\nDIMENS\n " << m.nx << " " << m.ny << " " << m.nz << " /\nOIL\nGAS\nWATER\n" << m.units << "\n"
      << "START\n 1 JAN 2020 /\nWELLDIMS\n 10 5 6 10 /\nTABDIMS\n/\nGRID\n"
      << "DXV\n " << m.nx << "*100 /\nDYV\n " << m.ny << "*100 /\nDZV\n " << m.nz << "*10 /\n"
      << "DEPTHZ\n " << (m.nx + 1) * (m.ny + 1) << "*2000 /\n"
      << "PORO\n " << n << "*0.2 /\nPERMX\n " << n << "*100 /\nPERMY\n " << n << "*100 /\nPERMZ\n " << n << "*10 /\nACTNUM\n";
    for (int c = 0; c < n; ++c) d << " " << m.actnum[c];
    d << " /\nSCHEDULE\n";
    {
        // well groups hang under FIELD or under a pure node group (a group holds wells or groups, not both)
        const bool node = rng.coin();
        d << "GRUPTREE\n";
        if (node) d << " 'N1' 'FIELD' /\n";
        for (std::size_t g = 0; g < m.groups.size(); ++g)
            d << " '" << m.groups[g] << "' '" << ((node && rng.coin()) ? std::string("N1") : std::string("FIELD")) << "' /\n";
        d << "/\n";
    }
    d << "WELSPECS\n";
    for (auto& w : m.wells)
        d << " '" << w.name << "' '" << w.group << "' " << w.hi + 1 << " " << w.hj + 1 << " "
          << (w.has_refdepth ? num(w.refdepth) : std::string("1*")) << " '" << w.prefphase << "' " << num(w.drad)
          << " 'STD' 'SHUT' '" << (w.xflow ? "YES" : "NO") << "' /\n";
    d << "/\nCOMPDAT\n";
    for (auto& w : m.wells) for (auto& c : w.conns)
        d << " '" << w.name << "' " << c.i + 1 << " " << c.j + 1 << " " << c.k + 1 << " " << c.k + 1 << " '"
          << (c.open ? "OPEN" : "SHUT") << "' 1* 1* " << num(c.diam) << " 1* " << num(c.skin) << " 1* '" << c.dir << "' /\n";
    d << "/\n";
    auto controls = [&](std::ostringstream& o, double scale) {
        bool any;
        any = false; for (auto& w : m.wells) any = any || (w.producer && !w.history);
        if (any) {
            o << "WCONPROD\n";
            for (auto& w : m.wells) if (w.producer && !w.history)
                o << " '" << w.name << "' '" << (w.shut ? "SHUT" : "OPEN") << "' 'ORAT' " << num(w.orat * scale) << " " << num(w.wrat * scale)
                  << " " << num(w.grat * scale) << " 2* " << num(w.bhp) << " /\n";
            o << "/\n";
        }
        any = false; for (auto& w : m.wells) any = any || (w.producer && w.history);
        if (any) {
            o << "WCONHIST\n";
            for (auto& w : m.wells) if (w.producer && w.history)
                o << " '" << w.name << "' '" << (w.shut ? "SHUT" : "OPEN") << "' 'ORAT' " << num(w.orat * scale) << " " << num(w.wrat * scale)
                  << " " << num(w.grat * scale) << " /\n";
            o << "/\n";
        }
        any = false; for (auto& w : m.wells) any = any || !w.producer;
        if (any) {
            o << "WCONINJE\n";
            for (auto& w : m.wells) if (!w.producer)
                o << " '" << w.name << "' '" << (w.injphase == 'W' ? "WATER" : "GAS") << "' '" << (w.shut ? "SHUT" : "OPEN") << "' 'RATE' "
                  << num((w.injphase == 'W' ? w.wrat : w.grat) * scale) << " 1* " << num(w.bhp + 200) << " /\n";
            o << "/\n";
        }
    };
    controls(d, 1.0);
    bool any = false; for (auto& w : m.wells) any = any || w.wecon;
    if (any) {
        d << "WECON\n";
        for (auto& w : m.wells) if (w.wecon)
            d << " '" << w.name << "' " << num(w.orat / 50) << " " << num(w.grat / 40) << " 0.95 " << num(20000.0) << " 1* 'CON' 'NO' /\n";
        d << "/\n";
    }
    any = false; for (auto& w : m.wells) any = any || (w.efac != 1.0);
    if (any) {
        d << "WEFAC\n";
        for (auto& w : m.wells) if (w.efac != 1.0) d << " '" << w.name << "' " << num(w.efac) << " /\n";
        d << "/\n";
    }
    any = false; for (auto& w : m.wells) any = any || w.wgrupcon;
    if (any) {
        d << "WGRUPCON\n";
        for (auto& w : m.wells) if (w.wgrupcon) d << " '" << w.name << "' 'NO' " << num(0.5 + w.efac) << " 'OIL' 0.5 /\n";
        d << "/\n";
    }
    // D-factor correlation (WDFACCOR): non-zero SCON[StaticDFacCorrCoeff] / SWEL[DFacCorr*]
    if (rng.coin()) {
        d << "WDFACCOR\n";
        for (auto& w : m.wells) if (rng.coin()) d << " '" << w.name << "' " << num(1.0e-3 * rng.range(1, 9)) << " " << num(-1.0 - 0.01 * rng.range(0, 9)) << " " << num(0.1 * rng.range(0, 5)) << " /\n";
        d << "/\n";
    }
    // group level controls: GCONPROD / GCONINJE / GEFAC / GCONSUMP on the well groups (second round: IGRP/SGRP/XGRP tables)
    if (rng.coin(2, 3)) {
        d << "GCONPROD\n";
        static const char* cm[] = {"ORAT", "LRAT", "GRAT", "WRAT", "NONE", "FLD"};
        for (auto& g : m.groups) if (rng.coin(2, 3))
            d << " '" << g << "' '" << cm[rng.below(6)] << "' " << num(4000.0 + 100.0 * rng.range(0, 20)) << " " << (rng.coin() ? num(3000.0) : std::string("1*")) << " "
              << (rng.coin() ? num(90000.0) : std::string("1*")) << " " << (rng.coin() ? num(7000.0) : std::string("1*")) << " '" << (rng.coin() ? "RATE" : "NONE") << "' '"
              << (rng.coin() ? "YES" : "NO") << "' " << (rng.coin(1, 3) ? num(1.0 * rng.range(1, 9)) + " 'OIL'" : std::string("1* 1*")) << " /\n";
        if (rng.coin()) d << " 'FIELD' '" << cm[rng.below(5)] << "' " << num(9000.0) << " 3* 'RATE' /\n";
        d << "/\n";
    }
    if (rng.coin()) {
        const std::string g = rng.coin(2, 3) ? m.groups[rng.below(m.groups.size())] : std::string("FIELD");
        const int mode = rng.range(0, 3);
        d << "GCONINJE\n '" << g << "' '" << (rng.coin(2, 3) ? "WATER" : "GAS") << "' ";
        if (mode == 0) d << "'RATE' " << num(4000.0) << " 3* ";
        else if (mode == 1) d << "'REIN' 2* " << num(0.1 * rng.range(5, 12)) << " 1* ";
        else if (mode == 2) d << "'VREP' 3* " << num(0.1 * rng.range(5, 12)) << " ";
        else d << "'RESV' 1* " << num(4500.0) << " 2* ";
        d << "'" << (g == "FIELD" || rng.coin() ? "YES" : "NO") << "' " << (rng.coin(1, 3) ? num(0.5 * rng.range(1, 8)) + " 'RATE'" : std::string("")) << " /\n/\n";
    }
    if (rng.coin()) d << "GEFAC\n '" << m.groups[rng.below(m.groups.size())] << "' " << num(0.05 * rng.range(10, 20)) << " /\n/\n";
    if (rng.coin(1, 3)) d << "GCONSUMP\n '" << m.groups[rng.below(m.groups.size())] << "' " << num(100.0 * rng.range(1, 20)) << " " << num(50.0 * rng.range(0, 10)) << " /\n/\n";
    static const char* mon[] = {"FEB", "MAR", "APR", "MAY", "JUN"};
    for (int s = 0; s < m.nsteps; ++s) {
        d << "DATES\n 1 " << mon[s] << " 2020 /\n/\n";
        if (s + 1 < m.nsteps) controls(d, 1.0 + 0.25 * (s + 1));
    }
    d << "END\n";
    m.deck = d.str();
    return m;
}

struct Case {
    Opm::Deck deck;
    Opm::EclipseState es;
    Opm::EclipseGrid grid;
    Opm::Schedule sched;
    explicit Case(const std::string& text)
        : deck(Opm::Parser{}.parseString(text)), es(deck), grid(es.getInputGrid()),
          sched(deck, es, std::make_shared<Opm::Python>())
    {}
};

// Dynamic state consistent with the schedule at `step`: data::Wells in SI, SummaryState in output units.
struct Dyn {
    Opm::data::Wells xw;
    Opm::SummaryState st { Opm::TimeService::now(), 0.0 };
};

void make_dyn(vh::Rng& rng, const Case& cs, std::size_t step, Dyn& dyn, bool with_conn_results)
{
    const auto& us = cs.es.getUnits();
    for (const auto& wname : cs.sched.wellNames(step)) {
        const auto& well = cs.sched.getWell(wname, step);
        Opm::data::Well w;
        const bool prod = well.isProducer();
        const double sgn = prod ? -1.0 : 1.0;
        const double qo = rng.unit() * 1e-2, qw = rng.unit() * 1e-2, qg = rng.unit() * 5.0;
        const bool inj_w = !prod && well.injectorType() == Opm::InjectorType::WATER;
        const bool inj_g = !prod && well.injectorType() == Opm::InjectorType::GAS;
        w.rates.set(Opm::data::Rates::opt::oil, prod ? sgn * qo : 0.0);
        w.rates.set(Opm::data::Rates::opt::wat, (prod || inj_w) ? sgn * qw : 0.0);
        w.rates.set(Opm::data::Rates::opt::gas, (prod || inj_g) ? sgn * qg : 0.0);
        w.bhp = 1.0e5 * (100.0 + 300.0 * rng.unit());
        w.thp = 1.0e5 * (10.0 + 50.0 * rng.unit());
        w.temperature = 0.0;
        const auto stat = well.getStatus();
        w.dynamicStatus = (stat == Opm::Well::Status::SHUT) ? Opm::Well::Status::SHUT
                        : (rng.coin(1, 8) ? Opm::Well::Status::STOP : Opm::Well::Status::OPEN);
        w.current_control.isProducer = prod;
        if (prod) w.current_control.prod = rng.coin() ? Opm::Well::ProducerCMode::ORAT : Opm::Well::ProducerCMode::BHP;
        else      w.current_control.inj  = rng.coin() ? Opm::Well::InjectorCMode::RATE : Opm::Well::InjectorCMode::BHP;
        const bool flowing = w.dynamicStatus != Opm::Well::Status::SHUT;
        const auto& conns = well.getConnections();
        const std::size_t nc = conns.size();
        for (std::size_t c = 0; c < nc; ++c) {
            const auto& conn = conns.get(c);
            Opm::data::Connection xc;
            xc.index = conn.global_index();
            const bool open = flowing && conn.state() == Opm::Connection::State::OPEN;
            const double f = open ? 1.0 / static_cast<double>(nc) : 0.0;
            xc.rates.set(Opm::data::Rates::opt::oil, w.rates.get(Opm::data::Rates::opt::oil) * f);
            xc.rates.set(Opm::data::Rates::opt::wat, w.rates.get(Opm::data::Rates::opt::wat) * f);
            xc.rates.set(Opm::data::Rates::opt::gas, w.rates.get(Opm::data::Rates::opt::gas) * f);
            xc.pressure = w.bhp + 1.0e4 * static_cast<double>(c);
            xc.reservoir_rate = sgn * (qo + qw) * f;
            xc.trans_factor = conn.CF() * (with_conn_results ? (0.5 + rng.unit()) : 1.0);
            xc.compact_mult = 1.0;
            if (with_conn_results) w.connections.push_back(xc);
            // connection level summary vectors (output units)
            auto cset = [&](const std::string& key, M m, double si) {
                dyn.st.update_conn_var(wname, key, conn.global_index() + 1, us.from_si(m, si));
            };
            const char dch = prod ? 'P' : 'I';
            cset(std::string("CO") + dch + "R", M::liquid_surface_rate, std::abs(xc.rates.get(Opm::data::Rates::opt::oil)));
            cset(std::string("CW") + dch + "R", M::liquid_surface_rate, std::abs(xc.rates.get(Opm::data::Rates::opt::wat)));
            cset(std::string("CG") + dch + "R", M::gas_surface_rate,    std::abs(xc.rates.get(Opm::data::Rates::opt::gas)));
            cset(std::string("CV") + dch + "R", M::rate,                std::abs(xc.reservoir_rate));
            cset("CPR", M::pressure, xc.pressure);
            cset(std::string("CO") + dch + "T", M::liquid_surface_volume, 1.0e3 * rng.unit());
            cset(std::string("CW") + dch + "T", M::liquid_surface_volume, 1.0e3 * rng.unit());
            cset(std::string("CG") + dch + "T", M::gas_surface_volume,    1.0e5 * rng.unit());
            cset(std::string("CV") + dch + "T", M::volume,                1.0e3 * rng.unit());
            cset("CGOR", M::gas_oil_ratio, 100.0 * rng.unit());
        }
        if (!with_conn_results) {
            // still tell the writer whether something flows
        }
        dyn.xw[wname] = w;
        auto wset = [&](const std::string& key, M m, double si) { dyn.st.update_well_var(wname, key, us.from_si(m, si)); };
        if (prod) {
            wset("WOPR", M::liquid_surface_rate, qo); wset("WWPR", M::liquid_surface_rate, qw); wset("WGPR", M::gas_surface_rate, qg);
            wset("WVPR", M::rate, qo + qw + qg * 1e-3);
            wset("WWCT", M::water_cut, qw / (qo + qw + 1e-30)); wset("WGOR", M::gas_oil_ratio, qg / (qo + 1e-30));
            wset("WOPGR", M::liquid_surface_rate, rng.unit() * 1e-2); wset("WWPGR", M::liquid_surface_rate, rng.unit() * 1e-2);
            wset("WGPGR", M::gas_surface_rate, rng.unit()); wset("WVPGR", M::rate, rng.unit() * 1e-2);
        } else if (inj_w) {
            wset("WWIR", M::liquid_surface_rate, qw); wset("WWVIR", M::rate, qw * 1.01); wset("WWIGR", M::liquid_surface_rate, rng.unit() * 1e-2);
        } else {
            wset("WGIR", M::gas_surface_rate, qg); wset("WGVIR", M::rate, qg * 4e-3); wset("WGIGR", M::gas_surface_rate, rng.unit());
        }
        wset("WBHP", M::pressure, w.bhp); wset("WTHP", M::pressure, w.thp);
        for (const char* k : {"WOPT", "WWPT", "WOPTH", "WWPTH", "WWIT", "WWITH", "WOPTS"}) wset(k, M::liquid_surface_volume, 1.0e4 * rng.unit());
        for (const char* k : {"WGPT", "WGPTH", "WGIT", "WGITH", "WGPTS"}) wset(k, M::gas_surface_volume, 1.0e6 * rng.unit());
        for (const char* k : {"WVPT", "WVIT"}) wset(k, M::volume, 1.0e4 * rng.unit());
    }
    // group / field level vectors the XGRP writer copies (every listed vector gets its own value), and the control mode
    // vectors the IGRP writer reads
    static const char* gkeys[] = {"OPP", "WPP", "OPR", "WPR", "GPR", "VPR", "WIR", "GIR", "WCT", "GOR", "OPT", "WPT", "GPT", "VPT", "OPTS", "GPTS",
                                  "WIT", "GIT", "VIT", "OPTH", "WPTH", "GPTH", "WITH", "GITH", "OPGR", "WPGR", "GPGR", "VPGR", "OIGR", "WIGR", "GIGR",
                                  "GCR", "GIMR", "GCT", "GIMT"};
    for (const auto& gname : cs.sched.groupNames(step)) {
        const bool field = gname == "FIELD";
        const auto& grp = cs.sched.getGroup(gname, step);
        for (const char* k : gkeys) {
            const double v = 1.0 + 1.0e3 * rng.unit();
            if (field) dyn.st.update(std::string("F") + k, v); else dyn.st.update_group_var(gname, std::string("G") + k, v);
        }
        const int pc = grp.isProductionGroup() ? Opm::Group::ProductionCMode2Int(grp.prod_cmode()) : 0;
        auto icm = [&](Opm::Phase ph) { return grp.hasInjectionControl(ph) ? Opm::Group::InjectionCMode2Int(grp.injectionControls(ph, dyn.st).cmode) : 0; };
        if (field) { dyn.st.update("FMCTP", pc); dyn.st.update("FMCTW", icm(Opm::Phase::WATER)); dyn.st.update("FMCTG", icm(Opm::Phase::GAS)); dyn.st.update("FMWPR", 1); dyn.st.update("FMWIN", 1); }
        else { dyn.st.update_group_var(gname, "GMCTP", pc); dyn.st.update_group_var(gname, "GMCTW", icm(Opm::Phase::WATER)); dyn.st.update_group_var(gname, "GMCTG", icm(Opm::Phase::GAS));
               dyn.st.update_group_var(gname, "GMWPR", 1); dyn.st.update_group_var(gname, "GMWIN", 0); }
    }
}

// ---------------------------------------------------------------------------------------------
// correspondence

#define MEASURES(X) X(identity) X(length) X(time) X(pressure) X(liquid_surface_rate) X(gas_surface_rate) X(rate) \
    X(liquid_surface_volume) X(gas_surface_volume) X(volume) X(transmissibility) X(effective_Kh) X(gas_oil_ratio) \
    X(oil_gas_ratio) X(water_cut) X(viscosity) X(dfactor) X(temperature) X(density) X(permeability) X(geometric_volume)

std::string ublock(const Opm::UnitSystem& us)
{
    std::ostringstream o;
    int k = 0;
#define CNT(m) ++k;
    MEASURES(CNT)
#undef CNT
    o << "U " << k;
    // from_si(m, x) = f * (x - off), to_si(m, y) = t * y + off
#define ONE(m) { const double off = us.to_si(M::m, 0.0); const double f = us.from_si(M::m, off + 1.0); const double t = us.to_si(M::m, 1.0) - off; \
                 o << " " #m " " << vh::hexF64(f) << " " << vh::hexF64(t) << " " << vh::hexF64(off); }
    MEASURES(ONE)
#undef ONE
    return o.str();
}

struct EncItems {
    std::ostringstream op, ans; int n = 0;
    void add(const std::string& fn, const std::string& slot, const std::string& src, const std::string& value, std::size_t idx, const std::string& stored) {
        op << " " << fn << " " << slot << " " << src << " " << value;
        ans << (n ? " " : "") << idx << ":" << stored;
        ++n;
    }
};

const char* statusLabel(Opm::Well::Status s) {
    switch (s) { case Opm::Well::Status::OPEN: return "OPEN"; case Opm::Well::Status::STOP: return "STOP";
                 case Opm::Well::Status::SHUT: return "SHUT"; case Opm::Well::Status::AUTO: return "AUTO"; }
    return "?";
}
const char* phaseLabel(Opm::Phase p) {
    switch (p) { case Opm::Phase::OIL: return "OIL"; case Opm::Phase::GAS: return "GAS"; case Opm::Phase::WATER: return "WATER"; default: return "?"; }
}
const char* orderLabel(Opm::Connection::Order o) {
    switch (o) { case Opm::Connection::Order::TRACK: return "TRACK"; case Opm::Connection::Order::DEPTH: return "DEPTH"; case Opm::Connection::Order::INPUT: return "INPUT"; }
    return "?";
}
const char* grLabel(Opm::Well::GuideRateTarget t) {
    using G = Opm::Well::GuideRateTarget;
    switch (t) { case G::OIL: return "OIL"; case G::WAT: return "WAT"; case G::GAS: return "GAS"; case G::LIQ: return "LIQ";
                 case G::RAT: return "RAT"; case G::RES: return "RES"; case G::UNDEFINED: return "UNDEFINED"; default: return "?"; }
}
const char* woLabel(Opm::WellEconProductionLimits::EconWorkover w) {
    using W = Opm::WellEconProductionLimits::EconWorkover;
    switch (w) { case W::NONE: return "NONE"; case W::CON: return "CON"; case W::CONP: return "CONP"; case W::WELL: return "WELL"; case W::PLUG: return "PLUG"; default: return "?"; }
}
const char* qlLabel(Opm::WellEconProductionLimits::QuantityLimit q) {
    return q == Opm::WellEconProductionLimits::QuantityLimit::RATE ? "RATE" : "POTN";
}

template <class T> std::string elem(T v);
template <> std::string elem<int>(int v) { return std::to_string(v); }
template <> std::string elem<float>(float v) { return vh::hexF32(v); }
template <> std::string elem<double>(double v) { return vh::hexF64(v); }

template <class T>
std::string wblock(const T* p, std::size_t n) {
    std::ostringstream o; o << "W " << n;
    for (std::size_t i = 0; i < n; ++i) o << " " << elem<T>(p[i]);
    return o.str();
}

std::string dval(double v) { return vh::hexF64(v); }
std::string ival(long v) { return std::to_string(v); }

void corr_windows(vh::Rng& rng, vh::Sink& sink, int count)
{
    for (int c = 0; c < count; ++c) {
        const std::size_t n = rng.range(1, 7), w = rng.range(1, 9), i = rng.below(n), s = rng.below(w);
        Opm::RestartIO::Helpers::WindowedArray<int> wa {
            Opm::RestartIO::Helpers::WindowedArray<int>::NumWindows{n}, Opm::RestartIO::Helpers::WindowedArray<int>::WindowSize{w}, 0 };
        wa[i][s] = 1;
        const auto& d = wa.data();
        std::size_t pos = 0; while (pos < d.size() && d[pos] != 1) ++pos;
        sink.emit("rstslots.pos " + ival(w) + " " + ival(i) + " " + ival(s), ival(pos));
        const std::size_t rows = rng.range(1, 5), cols = rng.range(1, 5), r = rng.below(rows), cc = rng.below(cols);
        using WM = Opm::RestartIO::Helpers::WindowedMatrix<int>;
        WM wm { WM::NumRows{rows}, WM::NumCols{cols}, WM::WindowSize{w}, 0 };
        wm(r, cc)[s] = 1;
        const auto& dm = wm.data();
        pos = 0; while (pos < dm.size() && dm[pos] != 1) ++pos;
        sink.emit("rstslots.mat " + ival(cols) + " " + ival(w) + " " + ival(r) + " " + ival(cc) + " " + ival(s), ival(pos));
        sink.count("window_ops", 2);
    }
}

void corr_enums(vh::Sink& sink)
{
#define X(q, n, e) sink.emit(std::string("rstslots.enum ") + q + " " + n, std::to_string(static_cast<long>(e))); sink.count("enumerators");
#include "restart_enums.inc"
#undef X
}

void corr_groups(vh::Sink& sink, const Case& cs, const Dyn& dyn, std::size_t sim_step, const std::vector<int>& ih);

void corr_case(vh::Rng& rng, vh::Sink& sink, int unit_choice)
{
    const auto spec = make_model(rng, unit_choice);
    std::unique_ptr<Case> csp;
    try { csp = std::make_unique<Case>(spec.deck); }
    catch (const std::exception& e) { sink.count("deck_rejected"); std::cerr << "deck rejected: " << e.what() << "\n" << spec.deck; return; }
    const Case& cs = *csp;
    const auto& us = cs.es.getUnits();
    const std::size_t sim_step = static_cast<std::size_t>(rng.range(1, spec.nsteps - 1));   // schedule step (>= 1: step 0 has no dynamic well dims)
    Dyn dyn;
    const bool with_conn = rng.coin();
    make_dyn(rng, cs, sim_step, dyn, with_conn);
    const auto ih = Opm::RestartIO::Helpers::createInteHead(cs.es, cs.grid, cs.sched, 0.0, static_cast<int>(sim_step), static_cast<int>(sim_step), static_cast<int>(sim_step));

    for (auto [name, ix] : { std::pair<const char*, int>{"IWEL", VI::intehead::NIWELZ}, {"SWEL", VI::intehead::NSWELZ}, {"XWEL", VI::intehead::NXWELZ},
                             {"ZWEL", VI::intehead::NZWELZ}, {"ICON", VI::intehead::NICONZ}, {"SCON", VI::intehead::NSCONZ}, {"XCON", VI::intehead::NXCONZ} })
        sink.emit(std::string("rstslots.size ") + name + " 0", std::to_string(ih[ix]));

    auto wd = Opm::RestartIO::Helpers::AggregateWellData(ih);
    const Opm::Action::State action_state;
    const Opm::WellTestState wtest_state;
    wd.captureDeclaredWellData(cs.sched, cs.es.tracer(), sim_step, action_state, wtest_state, dyn.st, ih);
    wd.captureDynamicWellData(cs.sched, cs.es.tracer(), sim_step, dyn.xw, dyn.st);
    auto cd = Opm::RestartIO::Helpers::AggregateConnectionData(ih);
    cd.captureDeclaredConnData(cs.sched, cs.grid, us, dyn.xw, dyn.st, sim_step);

    const auto& iwel = wd.getIWell(); const auto& swel = wd.getSWell(); const auto& xwel = wd.getXWell();
    const auto& icon = cd.getIConn(); const auto& scon = cd.getSConn(); const auto& xcon = cd.getXConn();
    const auto header = Opm::RestartIO::RstHeader { cs.es.runspec(), us, ih, std::vector<bool>(200), std::vector<double>(1000) };
    std::vector<std::string> zwel;
    for (const auto& s8 : wd.getZWell()) zwel.push_back(s8.c_str());

    const std::string U = ublock(us);
    sink.count("case." + spec.units);
    sink.count("wells", header.num_wells);
    corr_groups(sink, cs, dyn, sim_step, ih);

    for (const auto& wname : cs.sched.wellNames(sim_step)) {
        const auto& well = cs.sched.getWell(wname, sim_step);
        const std::size_t iw = well.seqIndex();
        const int* IW = iwel.data() + header.niwelz * iw;
        const float* SW = swel.data() + header.nswelz * iw;
        const double* XW = xwel.data() + header.nxwelz * iw;
        const bool prod = well.isProducer();
        sink.count(prod ? "well.producer" : "well.injector");

        // ---- writer tables: IWEL
        {
            EncItems e;
            using Ix = VI::IWell::index;
            auto I = [&](const char* fn, const char* slot, const std::string& src, const std::string& v, std::size_t idx) {
                e.add(fn, slot, src, v, idx, std::to_string(IW[idx])); };
            I("staticContrib", "IHead", "well.getHeadI()", ival(well.getHeadI()), Ix::IHead);
            I("staticContrib", "JHead", "well.getHeadJ()", ival(well.getHeadJ()), Ix::JHead);
            I("staticContrib", "NConn", "conn.size()", ival(well.getConnections().size()), Ix::NConn);
            if (well.getConnections().size() > 0 && !well.isMultiSegment()) {
                I("staticContrib", "FirstK", "conn.get(0).getK()", ival(well.getConnections().get(0).getK()), Ix::FirstK);
                I("staticContrib", "LastK", "conn.get(conn.size()-1).getK()", ival(well.getConnections().get(well.getConnections().size() - 1).getK()), Ix::LastK);
            }
            I("staticContrib", "WType", "well.wellType().ecl_wtype()", ival(well.wellType().ecl_wtype()), Ix::WType);
            I("staticContrib", "VFPTab", "wellVFPTab(well,st)", ival(well.isInjector() ? well.injectionControls(dyn.st).vfp_table_number : well.productionControls(dyn.st).vfp_table_number), Ix::VFPTab);
            I("staticContrib", "XFlow", "well.getAllowCrossFlow()", ival(well.getAllowCrossFlow()), Ix::XFlow);
            I("staticContrib", "PreferredPhase", "well", phaseLabel(well.getPreferredPhase()), Ix::PreferredPhase);
            I("staticContrib", "CompOrd", "well", orderLabel(well.getConnections().ordering()), Ix::CompOrd);
            I("assignWGrupCon", "WGrupConControllable", "well.isAvailableForGroupControl()", ival(well.isAvailableForGroupControl()), Ix::WGrupConControllable);
            I("assignWGrupCon", "WGrupConGRPhase", "well.getRawGuideRatePhase()", grLabel(well.getRawGuideRatePhase()), Ix::WGrupConGRPhase);
            const auto& lim = well.getEconLimits();
            I("assignEconomicLimits", "EconWorkoverProcedure", "limits.workover()", woLabel(lim.workover()), Ix::EconWorkoverProcedure);
            I("assignEconomicLimits", "EconWorkoverProcedure_2", "limits.workoverSecondary()", woLabel(lim.workoverSecondary()), Ix::EconWorkoverProcedure_2);
            I("assignEconomicLimits", "EconLimitEndRun", "limits.endRun()", ival(lim.endRun()), Ix::EconLimitEndRun);
            I("assignEconomicLimits", "EconLimitQuantity", "limits.quantityLimit()", qlLabel(lim.quantityLimit()), Ix::EconLimitQuantity);
            const auto& vfpexp = well.getWVFPEXP();
            I("assignTHPLookupOptions", "THPLookupVFPTable", "options.explicit_lookup()", ival(vfpexp.explicit_lookup()), Ix::THPLookupVFPTable);
            I("assignTHPLookupOptions", "CloseWellIfTHPStabilised", "options.shut()", ival(vfpexp.shut()), Ix::CloseWellIfTHPStabilised);
            // dynamic status
            auto xi = dyn.xw.find(wname);
            const bool any_flow = xi != dyn.xw.end() && std::any_of(xi->second.connections.begin(), xi->second.connections.end(),
                                                                   [](const Opm::data::Connection& c) { return c.rates.flowing(); });
            if (xi == dyn.xw.end() || xi->second.dynamicStatus == Opm::Well::Status::SHUT) { sink.count("dyn.shut"); }
            else if (xi->second.dynamicStatus == Opm::Well::Status::STOP) {
                I("dynamicContribStop", "Status", "any_flowing_conn", ival(any_flow), Ix::Status);
                I("dynamicContribStop", "item9", "any_flowing_conn", ival(any_flow), Ix::item9);
                sink.count("dyn.stop");
            } else {
                I("dynamicContribOpen", "Status", "any_flowing_conn", ival(any_flow), Ix::Status);
                sink.count(any_flow ? "dyn.open.flowing" : "dyn.open.noflow");
            }
            sink.emit("rstslots.enc IWEL " + U + " E " + ival(e.n) + e.op.str(), e.ans.str());
            sink.count("enc.items", e.n);
        }
        // ---- writer tables: SWEL
        {
            EncItems e;
            using Ix = VI::SWell::index;
            auto S = [&](const char* fn, const char* slot, const std::string& src, double v, std::size_t idx) {
                e.add(fn, slot, src, dval(v), idx, vh::hexF32(SW[idx])); };
            S("staticContrib", "DrainageRadius", "well.getDrainageRadius()", well.getDrainageRadius(), Ix::DrainageRadius);
            S("assignEfficiencyFactors", "EfficiencyFactor1", "well.getEfficiencyFactor()", well.getEfficiencyFactor(), Ix::EfficiencyFactor1);
            S("assignWGrupCon", "WGrupConGRScaling", "well.getGuideRateScalingFactor()", well.getGuideRateScalingFactor(), Ix::WGrupConGRScaling);
            if (well.getGuideRate() > 0.0) S("assignWGrupCon", "WGrupConGuideRate", "gr", well.getGuideRate(), Ix::WGrupConGuideRate);
            S("assignBhpVfpAdjustment", "VfpBhpAdjustment", "options.getPressureAdjustment()", well.getWVFPDP().getPressureAdjustment(), Ix::VfpBhpAdjustment);
            S("assignBhpVfpAdjustment", "VfpBhpScalingFact", "options.getPLossScalingFactor()", well.getWVFPDP().getPLossScalingFactor(), Ix::VfpBhpScalingFact);
            const auto& corr = well.getWDFAC().getDFactorCorrelationCoefficients();
            S("assignDFactorCorrelation", "DFacCorrExpB", "corr.exponent_b", corr.exponent_b, Ix::DFacCorrExpB);
            S("assignDFactorCorrelation", "DFacCorrExpC", "corr.exponent_c", corr.exponent_c, Ix::DFacCorrExpC);
            if (!well.isMultiSegment() && well.hasRefDepth())
                S("assignReferenceDepth", "DatumDepth", "depth.value()", static_cast<float>(well.getRefDepth()), Ix::DatumDepth);
            const auto& lim = well.getEconLimits();
            if (lim.onMinOilRate()) S("assignEconomicLimits", "EconLimitMinOil", "limits.minOilRate()", lim.minOilRate(), Ix::EconLimitMinOil);
            if (lim.onMinGasRate()) S("assignEconomicLimits", "EconLimitMinGas", "limits.minGasRate()", lim.minGasRate(), Ix::EconLimitMinGas);
            if (lim.onMaxWaterCut()) S("assignEconomicLimits", "EconLimitMaxWct", "limits.maxWaterCut()", lim.maxWaterCut(), Ix::EconLimitMaxWct);
            if (lim.onMaxGasOilRatio()) S("assignEconomicLimits", "EconLimitMaxGor", "limits.maxGasOilRatio()", lim.maxGasOilRatio(), Ix::EconLimitMaxGor);
            if (prod && !well.predictionMode()) {
                const auto pc = well.productionControls(dyn.st);
                S("assignOWGRateTargetsProd", "OilRateTarget", "pc.oil_rate", pc.oil_rate, Ix::OilRateTarget);
                S("assignOWGRateTargetsProd", "WatRateTarget", "pc.water_rate", pc.water_rate, Ix::WatRateTarget);
                S("assignOWGRateTargetsProd", "GasRateTarget", "pc.gas_rate", pc.gas_rate, Ix::GasRateTarget);
                sink.count("swel.history_producer");
            }
            if (well.isInjector()) {
                const auto ic = well.injectionControls(dyn.st);
                if (ic.hasControl(Opm::Well::InjectorCMode::RATE)) {
                    if (ic.injector_type == Opm::InjectorType::WATER) S("assignInjectionTargets", "WatRateTarget", "ic.surface_rate", ic.surface_rate, Ix::WatRateTarget);
                    if (ic.injector_type == Opm::InjectorType::GAS) S("assignInjectionTargets", "GasRateTarget", "ic.surface_rate", ic.surface_rate, Ix::GasRateTarget);
                }
                if (ic.hasControl(Opm::Well::InjectorCMode::BHP)) S("assignInjectionTargets", "BHPTarget", "ic.bhp_limit", ic.bhp_limit, Ix::BHPTarget);
                sink.count("swel.injector");
            }
            sink.emit("rstslots.enc SWEL " + U + " E " + ival(e.n) + e.op.str(), e.ans.str());
            sink.count("enc.items", e.n);
        }
        // ---- writer tables: XWEL
        {
            EncItems e;
            using Ix = VI::XWell::index;
            auto X = [&](const char* fn, const char* slot, const std::string& src, double v, std::size_t idx) {
                e.add(fn, slot, src, dval(v), idx, vh::hexF64(XW[idx])); };
            auto K = [&](const char* fn, const char* slot, const char* key, std::size_t idx) { X(fn, slot, key, dyn.st.get_well_var(wname, key, 0.0), idx); };
            X("staticContrib", "BHPTarget", "bhpTarget", well.isInjector() ? well.injectionControls(dyn.st).bhp_limit : well.productionControls(dyn.st).bhp_limit, Ix::BHPTarget);
            K("assignCumulatives", "OilPrTotal", "WOPT", Ix::OilPrTotal); K("assignCumulatives", "WatPrTotal", "WWPT", Ix::WatPrTotal);
            K("assignCumulatives", "GasPrTotal", "WGPT", Ix::GasPrTotal); K("assignCumulatives", "VoidPrTotal", "WVPT", Ix::VoidPrTotal);
            K("assignCumulatives", "WatInjTotal", "WWIT", Ix::WatInjTotal); K("assignCumulatives", "GasInjTotal", "WGIT", Ix::GasInjTotal);
            K("assignCumulatives", "VoidInjTotal", "WVIT", Ix::VoidInjTotal); K("assignCumulatives", "HistOilPrTotal", "WOPTH", Ix::HistOilPrTotal);
            K("assignCumulatives", "HistWatPrTotal", "WWPTH", Ix::HistWatPrTotal); K("assignCumulatives", "HistGasPrTotal", "WGPTH", Ix::HistGasPrTotal);
            K("assignCumulatives", "HistWatInjTotal", "WWITH", Ix::HistWatInjTotal); K("assignCumulatives", "HistGasInjTotal", "WGITH", Ix::HistGasInjTotal);
            K("assignCumulatives", "OilPrTotalSolution", "WOPTS", Ix::OilPrTotalSolution); K("assignCumulatives", "GasPrTotalSolution", "WGPTS", Ix::GasPrTotalSolution);
            if (prod) {
                K("assignProducer", "OilPrRate", "WOPR", Ix::OilPrRate); K("assignProducer", "WatPrRate", "WWPR", Ix::WatPrRate);
                K("assignProducer", "GasPrRate", "WGPR", Ix::GasPrRate); K("assignProducer", "VoidPrRate", "WVPR", Ix::VoidPrRate);
                K("assignProducer", "TubHeadPr", "WTHP", Ix::TubHeadPr); K("assignProducer", "FlowBHP", "WBHP", Ix::FlowBHP);
                K("assignProducer", "WatCut", "WWCT", Ix::WatCut); K("assignProducer", "GORatio", "WGOR", Ix::GORatio);
                K("assignProducer", "PrimGuideRate_2", "WOPGR", Ix::PrimGuideRate_2); K("assignProducer", "WatPrGuideRate_2", "WWPGR", Ix::WatPrGuideRate_2);
                K("assignProducer", "GasPrGuideRate_2", "WGPGR", Ix::GasPrGuideRate_2); K("assignProducer", "VoidPrGuideRate_2", "WVPGR", Ix::VoidPrGuideRate_2);
            } else {
                K("assignCommonInjector", "WatPrRate", "WWIR", Ix::WatPrRate); K("assignCommonInjector", "GasPrRate", "WGIR", Ix::GasPrRate);
                K("assignCommonInjector", "OilPrRate", "WOIR", Ix::OilPrRate);
                K("assignCommonInjector", "TubHeadPr", "WTHP", Ix::TubHeadPr); K("assignCommonInjector", "FlowBHP", "WBHP", Ix::FlowBHP);
                const auto it = well.injectionControls(dyn.st).injector_type;
                if (it == Opm::InjectorType::WATER) { K("assignWaterInjector", "WatVoidPrRate", "WWVIR", Ix::WatVoidPrRate); K("assignWaterInjector", "VoidPrRate", "WWVIR", Ix::VoidPrRate);
                                                      K("assignWaterInjector", "PrimGuideRate_2", "WWIGR", Ix::PrimGuideRate_2); }
                if (it == Opm::InjectorType::GAS) { K("assignGasInjector", "VoidPrRate", "WGVIR", Ix::VoidPrRate); K("assignGasInjector", "PrimGuideRate_2", "WGIGR", Ix::PrimGuideRate_2); }
            }
            sink.emit("rstslots.enc XWEL " + U + " E " + ival(e.n) + e.op.str(), e.ans.str());
            sink.count("enc.items", e.n);
        }

        // ---- reader tables: the real RstWell against the model's decoding of the same windows
        const std::size_t zo = header.nzwelz * iw, co = header.ncwmax * iw;
        const Opm::RestartIO::RstWell rw(us, header, well.groupName(), zwel.data() + zo, IW, SW, XW,
                                         icon.data() + header.niconz * co, scon.data() + header.nsconz * co, xcon.data() + header.nxconz * co);
        {
            std::ostringstream f, a; int n = 0;
            auto FI = [&](const char* name, long v) { f << " " << name; a << (n++ ? " " : "") << v; };
#define RI(member) FI("well." #member, static_cast<long>(rw.member));
            FI("well.ij.0", rw.ij[0]); FI("well.ij.1", rw.ij[1]); FI("well.k1k2.0", rw.k1k2.first); FI("well.k1k2.1", rw.k1k2.second);
            FI("well.wtype.0", rw.wtype.ecl_wtype());
            RI(well_status) RI(vfp_table) RI(econ_workover_procedure) RI(preferred_phase) RI(allow_xflow) RI(group_controllable_flag)
            RI(econ_limit_end_run) RI(grupcon_gr_phase) RI(hist_requested_control) RI(msw_index) RI(completion_ordering) RI(msw_pressure_drop_model)
            RI(wtest_config_reasons) RI(wtest_close_reason) RI(wtest_remaining) RI(econ_limit_quantity) RI(econ_workover_procedure_2)
            RI(thp_lookup_procedure_vfptable) RI(close_if_thp_stabilised) RI(prevent_thpctrl_if_unstable) RI(glift_active) RI(glift_alloc_extra_gas)
#undef RI
            if (rw.group_controllable_flag <= 0) FI("well.active_control", rw.active_control);
            sink.emit("rstslots.dec IWEL reader " + U + " " + wblock(IW, header.niwelz) + " F " + ival(n) + f.str(), a.str());
            sink.count("dec.fields", n);
        }
        {
            std::ostringstream f, a; int n = 0;
#define RD(member) { f << " well." #member; a << (n++ ? " " : "") << vh::hexF64(static_cast<double>(rw.member)); }
            RD(orat_target) RD(wrat_target) RD(grat_target) RD(lrat_target) RD(resv_target) RD(thp_target) RD(bhp_target_float)
            RD(vfp_bhp_adjustment) RD(vfp_bhp_scaling_factor) RD(hist_lrat_target) RD(hist_grat_target) RD(hist_bhp_target) RD(datum_depth)
            RD(drainage_radius) RD(grupcon_gr_value) RD(efficiency_factor) RD(alq_value) RD(econ_limit_min_oil) RD(econ_limit_min_gas)
            RD(econ_limit_max_wct) RD(econ_limit_max_gor) RD(econ_limit_max_wgr) RD(econ_limit_max_wct_2) RD(econ_limit_min_liq)
            RD(wtest_interval) RD(wtest_startup) RD(grupcon_gr_scaling) RD(glift_max_rate) RD(glift_min_rate) RD(glift_weight_factor)
            RD(glift_inc_weight_factor) RD(dfac_corr_exponent_b) RD(dfac_corr_exponent_c)
            sink.emit("rstslots.dec SWEL reader " + U + " " + wblock(SW, header.nswelz) + " F " + ival(n) + f.str(), a.str());
            sink.count("dec.fields", n);
            std::ostringstream f2, a2; n = 0;
#define RX(member) { f2 << " well." #member; a2 << (n++ ? " " : "") << vh::hexF64(static_cast<double>(rw.member)); }
            RX(oil_rate) RX(water_rate) RX(gas_rate) RX(liquid_rate) RX(void_rate) RX(thp) RX(flow_bhp) RX(wct) RX(gor) RX(oil_total) RX(water_total)
            RX(gas_total) RX(void_total) RX(water_inj_total) RX(gas_inj_total) RX(void_inj_total) RX(gas_fvf) RX(bhp_target_double) RX(hist_oil_total)
            RX(hist_wat_total) RX(hist_gas_total) RX(hist_water_inj_total) RX(hist_gas_inj_total) RX(water_void_rate) RX(gas_void_rate)
#undef RX
#undef RD
            sink.emit("rstslots.dec XWEL reader " + U + " " + wblock(XW, header.nxwelz) + " F " + ival(n) + f2.str(), a2.str());
            sink.count("dec.fields", n);
        }

        // ---- connections
        std::size_t connID = 0;
        for (const auto* cp : well.getConnections().output(cs.grid)) {
            const auto& conn = *cp;
            const std::size_t win = header.ncwmax * iw + connID;
            const int* IC = icon.data() + header.niconz * win;
            const float* SC = scon.data() + header.nsconz * win;
            const double* XC = xcon.data() + header.nxconz * win;
            {
                EncItems e; using Ix = VI::IConn::index;
                auto I = [&](const char* slot, const std::string& src, const std::string& v, std::size_t idx) { e.add("staticContrib", slot, src, v, idx, std::to_string(IC[idx])); };
                I("SeqIndex", "connID", ival(connID), Ix::SeqIndex);
                I("CellI", "conn.getI()", ival(conn.getI()), Ix::CellI); I("CellJ", "conn.getJ()", ival(conn.getJ()), Ix::CellJ); I("CellK", "conn.getK()", ival(conn.getK()), Ix::CellK);
                I("ConnStat", "conn.state()==ConnState::OPEN", ival(conn.state() == Opm::Connection::State::OPEN), Ix::ConnStat);
                I("ComplNum", "conn.complnum()", ival(conn.complnum()), Ix::ComplNum);
                I("ConnDir", "conn.dir()", ival(static_cast<int>(conn.dir())), Ix::ConnDir);
                if (!conn.getDefaultSatTabId()) I("Drainage", "conn.satTableId()", ival(conn.satTableId()), Ix::Drainage);
                sink.emit("rstslots.enc ICON " + U + " E " + ival(e.n) + e.op.str(), e.ans.str());
                sink.count("enc.items", e.n);
            }
            {
                EncItems e; using Ix = VI::SConn::index;
                auto S = [&](const char* fn, const char* slot, const std::string& src, const std::string& v, std::size_t idx) { e.add(fn, slot, src, v, idx, vh::hexF32(SC[idx])); };
                const bool dynres = with_conn && dyn.xw.count(wname) && dyn.xw.at(wname).find_connection(conn.global_index()) != nullptr;
                if (!dynres) S("staticContrib", "ConnTrans", "conn.CF()", dval(conn.CF()), Ix::ConnTrans);
                else S("dynamicContrib", "EffConnTrans", "xconn.trans_factor", "skip", Ix::EffConnTrans);
                S("staticContrib", "Depth", "conn.depth()", dval(conn.depth()), Ix::Depth);
                S("staticContrib", "Diameter", "conn.rw()", dval(conn.rw()), Ix::Diameter);
                S("staticContrib", "EffectiveKH", "conn.Kh()", dval(conn.Kh()), Ix::EffectiveKH);
                S("staticContrib", "SkinFactor", "conn.skinFactor()", dval(conn.skinFactor()), Ix::SkinFactor);
                S("staticContrib", "CFDenom", "conn.ctfProperties().peaceman_denom", dval(conn.ctfProperties().peaceman_denom), Ix::CFDenom);
                S("staticContrib", "EffectiveLength", "conn.connectionLength()", dval(conn.connectionLength()), Ix::EffectiveLength);
                S("staticContrib", "CFInDeck", "conn.ctfAssignedFromInput()", ival(conn.ctfAssignedFromInput()), Ix::CFInDeck);
                // nested conversion [D]·[viscosity] (helper staticDFacCorrCoeff inlined by the translator)
                S("staticContrib", "StaticDFacCorrCoeff", "(conn.ctfProperties()).static_dfac_corr_coeff", dval(conn.ctfProperties().static_dfac_corr_coeff), Ix::StaticDFacCorrCoeff);
                // the dynamic EffConnTrans item above is a copy entry in the table: drop it from the op (it has no source of its own)
                std::string op = e.op.str(), ans = e.ans.str();
                if (dynres) {
                    // remove first item (5 tokens in op incl. leading space, 1 in ans)
                    std::istringstream io(op); std::string t; std::vector<std::string> toks; while (io >> t) toks.push_back(t);
                    std::ostringstream no; for (std::size_t q = 4; q < toks.size(); ++q) no << " " << toks[q];
                    op = no.str(); ans = ans.substr(ans.find(' ') + 1); e.n -= 1;
                }
                sink.emit("rstslots.enc SCON " + U + " E " + ival(e.n) + op, ans);
                sink.count("enc.items", e.n);
            }
            {
                EncItems e; using Ix = VI::XConn::index;
                auto get = [&](const std::string& k) { return dyn.st.get_conn_var(wname, k, conn.global_index() + 1, 0.0); };
                auto K = [&](const char* slot, const std::string& key, std::size_t idx) { e.add("dynamicContrib", slot, key, dval(get(key)), idx, vh::hexF64(XC[idx])); };
                auto R = [&](const char* slot, char ph, std::size_t idx) {
                    const std::string kp = std::string("C") + ph + "PR", ki = std::string("C") + ph + "IR";
                    e.add("dynamicContrib", slot, kp + "|" + ki, std::string(prod ? "P" : "I") + dval(get(prod ? kp : ki)), idx, vh::hexF64(XC[idx])); };
                K("Pressure", "CPR", Ix::Pressure); R("OilRate", 'O', Ix::OilRate); R("WaterRate", 'W', Ix::WaterRate); R("GasRate", 'G', Ix::GasRate); R("ResVRate", 'V', Ix::ResVRate);
                K("OilPrTotal", "COPT", Ix::OilPrTotal); K("WatPrTotal", "CWPT", Ix::WatPrTotal); K("GasPrTotal", "CGPT", Ix::GasPrTotal); K("VoidPrTotal", "CVPT", Ix::VoidPrTotal);
                K("OilInjTotal", "COIT", Ix::OilInjTotal); K("WatInjTotal", "CWIT", Ix::WatInjTotal); K("GasInjTotal", "CGIT", Ix::GasInjTotal); K("VoidInjTotal", "CVIT", Ix::VoidInjTotal);
                K("GORatio", "CGOR", Ix::GORatio);
                sink.emit("rstslots.enc XCON " + U + " E " + ival(e.n) + e.op.str(), e.ans.str());
                sink.count("enc.items", e.n);
            }
            if (connID < rw.connections.size()) {
                const auto& rc = rw.connections[connID];
                std::ostringstream f, a; int n = 0;
                auto FI = [&](const char* name, const std::string& v) { f << " " << name; a << (n++ ? " " : "") << v; };
                FI("conn.ijk.0", ival(rc.ijk[0])); FI("conn.ijk.1", ival(rc.ijk[1])); FI("conn.ijk.2", ival(rc.ijk[2]));
                FI("conn.state", rc.state == Opm::Connection::State::OPEN ? "OPEN" : "SHUT");
                FI("conn.drain_sat_table", ival(rc.drain_sat_table)); FI("conn.imb_sat_table", ival(rc.imb_sat_table)); FI("conn.completion", ival(rc.completion));
                FI("conn.dir", rc.dir == Opm::Connection::Direction::X ? "X" : rc.dir == Opm::Connection::Direction::Y ? "Y" : "Z");
                FI("conn.segment", ival(rc.segment));
                sink.emit("rstslots.dec ICON reader " + U + " " + wblock(IC, header.niconz) + " F " + ival(n) + f.str(), a.str());
                sink.count("dec.fields", n);
                std::ostringstream f2, a2; n = 0;
                auto FD = [&](std::ostringstream& ff, std::ostringstream& aa, const char* name, double v) { ff << " " << name; aa << (n++ ? " " : "") << vh::hexF64(v); };
                FD(f2, a2, "conn.skin_factor", rc.skin_factor); FD(f2, a2, "conn.cf", rc.cf); FD(f2, a2, "conn.depth", rc.depth); FD(f2, a2, "conn.diameter", rc.diameter);
                FD(f2, a2, "conn.kh", rc.kh); FD(f2, a2, "conn.denom", rc.denom); FD(f2, a2, "conn.length", rc.length);
                FD(f2, a2, "conn.segdist_end", rc.segdist_end); FD(f2, a2, "conn.segdist_start", rc.segdist_start);
                FD(f2, a2, "conn.static_dfac_corr_coeff", rc.static_dfac_corr_coeff);
                f2 << " conn.cf_kind"; a2 << " " << (rc.cf_kind == Opm::Connection::CTFKind::Defaulted ? "Defaulted" : "DeckValue"); ++n;
                sink.emit("rstslots.dec SCON reader " + U + " " + wblock(SC, header.nsconz) + " F " + ival(n) + f2.str(), a2.str());
                sink.count("dec.fields", n);
                std::ostringstream f3, a3; n = 0;
                FD(f3, a3, "conn.oil_rate", rc.oil_rate); FD(f3, a3, "conn.water_rate", rc.water_rate); FD(f3, a3, "conn.gas_rate", rc.gas_rate);
                FD(f3, a3, "conn.pressure", rc.pressure); FD(f3, a3, "conn.resv_rate", rc.resv_rate);
                sink.emit("rstslots.dec XCON reader " + U + " " + wblock(XC, header.nxconz) + " F " + ival(n) + f3.str(), a3.str());
                sink.count("dec.fields", n);
            }
            ++connID;
            sink.count("connections");
        }
    }
}

// ---- groups: IGRP / SGRP / XGRP against Gen/RstGroup.lean (named slots) and the hand model of the child list prefix
void corr_groups(vh::Sink& sink, const Case& cs, const Dyn& dyn, std::size_t sim_step, const std::vector<int>& ih)
{
    const auto& us = cs.es.getUnits();
    const std::string U = ublock(us);
    auto gd = Opm::RestartIO::Helpers::AggregateGroupData(ih);
    gd.captureDeclaredGroupData(cs.sched, us, sim_step, dyn.st, ih);
    const auto& igrp = gd.getIGroup(); const auto& sgrp = gd.getSGroup(); const auto& xgrp = gd.getXGroup();
    const auto header = Opm::RestartIO::RstHeader { cs.es.runspec(), us, ih, std::vector<bool>(200), std::vector<double>(1000) };
    const std::size_t nwgmax = ih[VI::intehead::NWGMAX], ngmaxz = ih[VI::intehead::NGMAXZ];
    sink.emit("rstgroup.size " + ival(nwgmax) + " " + ival(ngmaxz),
              ival(ih[VI::intehead::NIGRPZ]) + " " + ival(ih[VI::intehead::NSGRPZ]) + " " + ival(ih[VI::intehead::NXGRPZ]));
    std::vector<std::string> zgrp;
    for (const auto& s8 : gd.getZGroup()) zgrp.push_back(s8.c_str());
    const auto groups = cs.sched.restart_groups(sim_step);
    for (std::size_t gi = 0; gi < groups.size(); ++gi) {
        if (groups[gi] == nullptr) continue;
        const auto& group = *groups[gi];
        const bool field = group.name() == "FIELD";
        const int* IG = igrp.data() + header.nigrpz * gi;
        const float* SG = sgrp.data() + header.nsgrpz * gi;
        const double* XG = xgrp.data() + header.nxgrpz * gi;
        sink.count(field ? "group.field" : (group.wellgroup() ? "group.wellgroup" : "group.node"));
        // child list prefix (hand model)
        {
            std::ostringstream op, ans;
            std::vector<long> children;
            if (group.wellgroup()) for (const auto& wn : group.wells()) children.push_back(cs.sched.getWell(wn, sim_step).seqIndex() + 1);
            else for (const auto& gn : group.groups()) children.push_back(cs.sched.getGroup(gn, sim_step).insert_index());
            op << "rstgroup.prefix " << nwgmax << " " << children.size();
            for (auto c : children) op << " " << c;
            for (std::size_t i = 0; i < children.size(); ++i) ans << i << ":" << IG[i] << " ";
            ans << nwgmax << ":" << IG[nwgmax];
            sink.emit(op.str(), ans.str());
        }
        // XGRP: the item each summary vector went to (every vector has its own value)
        for (const char* k : {"OPR", "WPR", "GPR", "VPR", "WIR", "GIR", "WCT", "GOR", "OPT", "WPT", "GPT", "VPT", "WIT", "GIT", "VIT", "GCR", "GCT", "OPP", "WPP",
                              "GIMR", "GIMT", "OPTS", "GPTS", "OPTH", "WPTH", "WITH", "GPTH", "GITH"}) {
            const std::string key = std::string(field ? "F" : "G") + k;
            const double v = field ? dyn.st.get(key) : dyn.st.get_group_var(group.name(), key);
            long pos = -1; int hits = 0;
            for (int q = 0; q < header.nxgrpz; ++q) if (XG[q] == v) { if (pos < 0) pos = q; ++hits; }
            sink.emit(std::string("rstgroup.xkey ") + (field ? "F " : "G ") + key, hits >= 1 ? ival(pos) : std::string("none"));
            sink.count("group.xkeys");
        }
        // SGRP named entries with a source the harness can evaluate
        {
            EncItems e;
            auto S = [&](const char* fn, const char* slot, const std::string& src, double v, std::size_t idx) { e.add(fn, slot, src, dval(v), idx, vh::hexF32(SG[idx])); };
            S("staticContrib", "EfficiencyFactor", "group.getGroupEfficiencyFactor()", group.getGroupEfficiencyFactor(), VI::SGroup::EfficiencyFactor);
            if (group.isProductionGroup()) {
                const auto& prop = group.productionProperties(); const auto cntl = group.productionControls(dyn.st);
                if (prop.oil_target.is_numeric() || cntl.oil_target > 0.0) S("assignGroupProductionTargets", "OilRateLimit", "cntl.oil_target", cntl.oil_target, VI::SGroup::OilRateLimit);
                if (prop.water_target.is_numeric() || cntl.water_target > 0.0) S("assignGroupProductionTargets", "WatRateLimit", "cntl.water_target", cntl.water_target, VI::SGroup::WatRateLimit);
                if (prop.gas_target.is_numeric() || cntl.gas_target > 0.0) S("assignGroupProductionTargets", "GasRateLimit", "cntl.gas_target", cntl.gas_target, VI::SGroup::GasRateLimit);
                if (prop.liquid_target.is_numeric() || cntl.liquid_target > 0.0) S("assignGroupProductionTargets", "LiqRateLimit", "cntl.liquid_target", cntl.liquid_target, VI::SGroup::LiqRateLimit);
                sink.count("group.production");
            }
            for (auto [ph, fn, i0] : { std::tuple<Opm::Phase, const char*, int>{Opm::Phase::WATER, "assignGroupWaterInjectionTargets", 0}, {Opm::Phase::GAS, "assignGroupGasInjectionTargets", 1} }) {
                if (!group.hasInjectionControl(ph)) continue;
                const auto& prop = group.injectionProperties(ph); const auto cntl = group.injectionControls(ph, dyn.st);
                const char* names[2][5] = {{"waterSurfRateLimit", "waterResRateLimit", "waterReinjectionLimit", "waterVoidageLimit", "waterGuideRate"},
                                           {"gasSurfRateLimit", "gasResRateLimit", "gasReinjectionLimit", "gasVoidageLimit", "gasGuideRate"}};
                const std::size_t idx[2][5] = {{VI::SGroup::waterSurfRateLimit, VI::SGroup::waterResRateLimit, VI::SGroup::waterReinjectionLimit, VI::SGroup::waterVoidageLimit, VI::SGroup::waterGuideRate},
                                               {VI::SGroup::gasSurfRateLimit, VI::SGroup::gasResRateLimit, VI::SGroup::gasReinjectionLimit, VI::SGroup::gasVoidageLimit, VI::SGroup::gasGuideRate}};
                if (prop.surface_max_rate.is_numeric() || cntl.surface_max_rate > 0.0) S(fn, names[i0][0], "cntl.surface_max_rate", cntl.surface_max_rate, idx[i0][0]);
                if (prop.resv_max_rate.is_numeric() || cntl.resv_max_rate > 0.0) S(fn, names[i0][1], "cntl.resv_max_rate", cntl.resv_max_rate, idx[i0][1]);
                if (prop.target_reinj_fraction.is_numeric() || cntl.target_reinj_fraction > 0.0) S(fn, names[i0][2], "cntl.target_reinj_fraction", cntl.target_reinj_fraction, idx[i0][2]);
                if (prop.target_void_fraction.is_numeric() || cntl.target_void_fraction > 0.0) S(fn, names[i0][3], "cntl.target_void_fraction", cntl.target_void_fraction, idx[i0][3]);
                S(fn, names[i0][4], "cntl.guide_rate", cntl.guide_rate, idx[i0][4]);
                sink.count("group.injection");
            }
            const auto& gcs = cs.sched[sim_step].gconsump();
            if (gcs.has(group.name())) {
                const auto gc = gcs.get(group.name(), dyn.st);
                S("staticContrib", "GasConsumptionRate", "gc.consumption_rate", gc.consumption_rate, VI::SGroup::GasConsumptionRate);
                S("staticContrib", "GasImportRate", "gc.import_rate", gc.import_rate, VI::SGroup::GasImportRate);
            }
            sink.emit("rstgroup.enc SGRP " + U + " E " + ival(e.n) + e.op.str(), e.ans.str());
            sink.count("group.enc.items", e.n);
        }
        // IGRP named positions written through `nwgmax + item`
        for (auto [nm, ix] : { std::pair<const char*, int>{"ParentGroup", VI::IGroup::ParentGroup}, {"GConProdCMode", VI::IGroup::GConProdCMode},
                               {"VoidageGroupIndex", VI::IGroup::VoidageGroupIndex}, {"GroupLevel", VI::IGroup::GroupLevel} })
            sink.emit(std::string("rstgroup.pos ") + ival(nwgmax) + " " + nm, ival(nwgmax + ix));
        // reader: the real RstGroup against the model's decoding of the same windows
        const Opm::RestartIO::RstGroup rg(us, header, zgrp.data() + header.nzgrpz * gi, IG, SG, XG);
        {
            std::ostringstream f, a; int n = 0;
#define GI(member) { f << " group." #member; a << (n++ ? " " : "") << static_cast<long>(rg.member); }
            GI(parent_group) GI(prod_cmode) GI(winj_cmode) GI(ginj_cmode) GI(prod_guide_rate_def) GI(exceed_action) GI(inj_water_guide_rate_def)
            GI(inj_gas_guide_rate_def) GI(voidage_group_index)
#undef GI
            sink.emit("rstgroup.dec IGRP " + ival(nwgmax) + " " + U + " " + wblock(IG, header.nigrpz) + " F " + ival(n) + f.str(), a.str());
            sink.count("group.dec.fields", n);
        }
        {
            std::ostringstream f, a; int n = 0;
#define GD(member) { f << " group." #member; a << (n++ ? " " : "") << vh::hexF64(static_cast<double>(rg.member)); }
            GD(oil_rate_limit) GD(water_rate_limit) GD(gas_rate_limit) GD(liquid_rate_limit) GD(water_surface_limit) GD(water_reservoir_limit)
            GD(water_reinject_limit) GD(water_voidage_limit) GD(gas_surface_limit) GD(gas_reservoir_limit) GD(gas_reinject_limit) GD(gas_voidage_limit)
            GD(glift_max_supply) GD(glift_max_rate) GD(efficiency_factor) GD(inj_water_guide_rate) GD(inj_gas_guide_rate) GD(gas_consumption_rate) GD(gas_import_rate)
            sink.emit("rstgroup.dec SGRP " + ival(nwgmax) + " " + U + " " + wblock(SG, header.nsgrpz) + " F " + ival(n) + f.str(), a.str());
            sink.count("group.dec.fields", n);
            std::ostringstream f2, a2; n = 0;
#define GX(member) { f2 << " group." #member; a2 << (n++ ? " " : "") << vh::hexF64(static_cast<double>(rg.member)); }
            GX(oil_production_rate) GX(water_production_rate) GX(gas_production_rate) GX(liquid_production_rate) GX(water_injection_rate) GX(gas_injection_rate)
            GX(wct) GX(gor) GX(oil_production_total) GX(water_production_total) GX(gas_production_total) GX(voidage_production_total) GX(water_injection_total)
            GX(gas_injection_total) GX(voidage_injection_total) GX(oil_production_potential) GX(water_production_potential) GX(history_total_oil_production)
            GX(history_total_water_production) GX(history_total_water_injection) GX(history_total_gas_production) GX(history_total_gas_injection)
            GX(gas_consumption_total) GX(gas_import_total)
#undef GX
#undef GD
            sink.emit("rstgroup.dec XGRP " + ival(nwgmax) + " " + U + " " + wblock(XG, header.nxgrpz) + " F " + ival(n) + f2.str(), a2.str());
            sink.count("group.dec.fields", n);
        }
    }
}

int run_corr(uint64_t seed, const std::string& tier, const std::string& outdir)
{
    vh::Sink sink(outdir);
    vh::Rng rng(seed);
    corr_enums(sink);
    corr_windows(rng, sink, tier == "thorough" ? 2000 : 300);
    const int ncases = tier == "thorough" ? 400 : 24;
    for (int c = 0; c < ncases; ++c) corr_case(rng, sink, c);
    sink.writeStats(outdir + "/stats.json");
    return 0;
}

// ---------------------------------------------------------------------------------------------
// property mode: real save -> real load

bool close(double a, double b, double rel, double abs_tol = 0.0)
{
    if (a == b) return true;
    if (std::isnan(a) || std::isnan(b)) return false;
    return std::abs(a - b) <= rel * std::max(std::abs(a), std::abs(b)) + abs_tol;
}

void prop_case(vh::Rng& rng, vh::PropLog& log, std::map<std::string, long>& stats, int variant, const std::string& workdir)
{
    const int unit_choice = variant % 4;
    const bool formatted = (variant / 4) % 2, unified = (variant / 8) % 2, write_double = (variant / 16) % 2;
    const auto spec = make_model(rng, unit_choice);
    std::unique_ptr<Case> csp;
    try { csp = std::make_unique<Case>(spec.deck); }
    catch (const std::exception& e) { stats["deck_rejected"]++; std::cerr << "deck rejected: " << e.what() << "\n"; return; }
    Case& cs = *csp;
    cs.es.getIOConfig().setEclCompatibleRST(false);
    const auto& us = cs.es.getUnits();
    const std::string tag = spec.units + (formatted ? ".fmt" : ".unf") + (unified ? ".unif" : ".sep") + (write_double ? ".dbl" : ".sgl");
    stats["case." + tag]++;
    namespace OS = Opm::EclIO::OutputStream;
    std::filesystem::remove_all(workdir);
    std::filesystem::create_directories(workdir);
    const int nact = static_cast<int>(cs.grid.getNumActive());
    const double relsol = write_double ? 1e-13 : 4e-7;

    struct Saved { Opm::data::Solution sol; Dyn dyn; std::vector<double> extra; };
    std::vector<std::unique_ptr<Saved>> saved;
    std::optional<Opm::RestartIO::Helpers::AggregateAquiferData> aquiferData { std::nullopt };
    for (int step = 1; step <= spec.nsteps; ++step) {
        auto sv = std::make_unique<Saved>();
        make_dyn(rng, cs, step - 1, sv->dyn, true);
        auto mk = [&](const char* key, M m, double lo, double hi) {
            std::vector<double> v(nact);
            for (auto& x : v) x = lo + (hi - lo) * rng.unit();
            sv->sol.insert(key, m, v, Opm::data::TargetType::RESTART_SOLUTION);
        };
        mk("PRESSURE", M::pressure, 1.0e7, 4.0e7); mk("SWAT", M::identity, 0.0, 1.0); mk("SGAS", M::identity, 0.0, 1.0);
        mk("RS", M::gas_oil_ratio, 0.0, 300.0); mk("RV", M::oil_gas_ratio, 0.0, 1e-3); mk("TEMP", M::temperature, 280.0, 400.0);
        sv->extra = { 1.0e5 * rng.unit(), 2.0e5 * rng.unit(), 3.0e5 };
        Opm::RestartValue value(sv->sol, sv->dyn.xw, Opm::data::GroupAndNetworkValues{}, {});
        value.addExtra("EXTRA", M::pressure, sv->extra);
        try {
            OS::Restart rst { OS::ResultSet{ workdir, "C05" }, step, OS::Formatted{ formatted }, OS::Unified{ unified } };
            const Opm::Action::State action_state; const Opm::WellTestState wtest; const Opm::UDQState udq(0.0);
            Opm::RestartIO::save(rst, step, 86400.0 * 31 * step, value, cs.es, cs.grid, cs.sched, action_state, wtest, sv->dyn.st, udq, aquiferData, write_double);
        } catch (const std::exception& e) {
            log.fail("save-throws." + tag, std::string("step ") + std::to_string(step) + ": " + e.what());
            return;
        }
        saved.push_back(std::move(sv));
    }
    for (int step = 1; step <= spec.nsteps; ++step) {
        const auto& sv = *saved[step - 1];
        const std::string fname = OS::outputFileName(OS::ResultSet{ workdir, "C05" },
            unified ? (formatted ? "FUNRST" : "UNRST") : ((formatted ? "F" : "X") + [&]{ char b[8]; std::snprintf(b, sizeof b, "%04d", step); return std::string(b); }()));
        Opm::SummaryState st2 { Opm::TimeService::now(), 0.0 };
        Opm::Action::State as2;
        std::optional<Opm::RestartValue> lv;
        try {
            lv = Opm::RestartIO::load(fname, step, as2, st2,
                { Opm::RestartKey("PRESSURE", M::pressure), Opm::RestartKey("SWAT", M::identity), Opm::RestartKey("SGAS", M::identity),
                  Opm::RestartKey("RS", M::gas_oil_ratio), Opm::RestartKey("RV", M::oil_gas_ratio), Opm::RestartKey("TEMP", M::temperature) },
                cs.es, cs.grid, cs.sched, { Opm::RestartKey("EXTRA", M::pressure, true) });
        } catch (const std::exception& e) {
            log.fail("load-throws." + tag, std::string("step ") + std::to_string(step) + ": " + e.what());
            continue;
        }
        const std::string at = tag + " step=" + std::to_string(step) + " units=" + spec.units;
        // solution arrays
        for (const char* key : {"PRESSURE", "SWAT", "SGAS", "RS", "RV", "TEMP"}) {
            const auto& a = sv.sol.data<double>(key);
            if (!lv->solution.has(key)) { log.fail(std::string("solution-missing.") + key, at); continue; }
            const auto& b = lv->solution.data<double>(key);
            if (a.size() != b.size()) { log.fail(std::string("solution-size.") + key, at); continue; }
            bool ok = true; std::size_t bad = 0;
            for (std::size_t i = 0; i < a.size(); ++i) if (!close(a[i], b[i], relsol, 1e-300)) { ok = false; bad = i; break; }
            if (!ok) log.fail(std::string("solution-value.") + key, at + " cell=" + std::to_string(bad) + " saved=" + vh::hexF64(a[bad]) + " loaded=" + vh::hexF64(b[bad]));
            else log.ok();
        }
        {
            bool found = false;
            for (const auto& ex : lv->extra) if (ex.first.key == "EXTRA") {
                found = true;
                bool ok = ex.second.size() == sv.extra.size();
                for (std::size_t i = 0; ok && i < sv.extra.size(); ++i) ok = close(sv.extra[i], ex.second[i], 1e-13);
                if (!ok) log.fail("extra-value", at); else log.ok();
            }
            if (!found) log.fail("extra-missing", at);
        }
        // wells
        for (const auto& [wname, xw] : sv.dyn.xw) {
            const auto& well = cs.sched.getWell(wname, step - 1);
            auto li = lv->wells.find(wname);
            if (li == lv->wells.end()) { log.fail("well-missing", at + " well=" + wname); continue; }
            const auto& lw = li->second;
            const bool shut = xw.dynamicStatus == Opm::Well::Status::SHUT;
            using RO = Opm::data::Rates::opt;
            for (auto [p, nm] : { std::pair<RO, const char*>{RO::oil, "oil"}, {RO::wat, "wat"}, {RO::gas, "gas"} }) {
                if (!close(xw.rates.get(p, 0.0), lw.rates.get(p, 0.0), 1e-12, 1e-300))
                    log.fail(std::string("well-rate.") + nm, at + " well=" + wname + " saved=" + vh::hexF64(xw.rates.get(p, 0.0)) + " loaded=" + vh::hexF64(lw.rates.get(p, 0.0)));
                else log.ok();
            }
            if (!close(xw.bhp, lw.bhp, 1e-12)) log.fail("well-bhp", at + " well=" + wname); else log.ok();
            if (!close(xw.thp, lw.thp, 1e-12)) log.fail("well-thp", at + " well=" + wname); else log.ok();
            if (!shut) {
                const bool flowing = std::any_of(xw.connections.begin(), xw.connections.end(), [](const Opm::data::Connection& c) { return c.rates.flowing(); });
                if (flowing && xw.dynamicStatus == Opm::Well::Status::OPEN) {
                    const bool same = xw.current_control.isProducer == lw.current_control.isProducer &&
                        (xw.current_control.isProducer ? xw.current_control.prod == lw.current_control.prod : xw.current_control.inj == lw.current_control.inj);
                    if (!same) log.fail("well-control", at + " well=" + wname + " saved=" + std::to_string(xw.current_control.isProducer ? static_cast<int>(xw.current_control.prod) : static_cast<int>(xw.current_control.inj))
                                        + " loaded=" + std::to_string(lw.current_control.isProducer ? static_cast<int>(lw.current_control.prod) : static_cast<int>(lw.current_control.inj)));
                    else log.ok();
                }
            }
            // connections
            for (const auto& xc : xw.connections) {
                const auto* lc = lw.find_connection(xc.index);
                if (lc == nullptr) { log.fail("conn-missing", at + " well=" + wname + " cell=" + std::to_string(xc.index)); continue; }
                bool ok = true;
                for (auto p : { RO::oil, RO::wat, RO::gas }) ok = ok && close(xc.rates.get(p, 0.0), lc->rates.get(p, 0.0), 1e-12, 1e-300);
                if (!ok) log.fail("conn-rate", at + " well=" + wname + " cell=" + std::to_string(xc.index)); else log.ok();
                if (!close(xc.pressure, lc->pressure, 1e-12)) log.fail("conn-pressure", at + " well=" + wname); else log.ok();
                for (const char* k : {"COPT", "CWPT", "CGPT", "CVPT", "COIT", "CWIT", "CGIT", "CVIT"}) {
                    const double a = sv.dyn.st.get_conn_var(wname, k, xc.index + 1, 0.0), b = st2.get_conn_var(wname, k, xc.index + 1, 0.0);
                    if (!close(a, b, 1e-13)) log.fail(std::string("conn-cumulative.") + k, at + " well=" + wname); else log.ok();
                }
            }
            // cumulatives restored into the summary state
            for (const char* k : {"WOPT", "WWPT", "WGPT", "WVPT", "WWIT", "WGIT", "WVIT", "WOPTH", "WWPTH", "WGPTH", "WWITH", "WGITH", "WOPTS", "WGPTS"}) {
                const double a = sv.dyn.st.get_well_var(wname, k, 0.0), b = st2.get_well_var(wname, k, 0.0);
                if (!close(a, b, 1e-13)) log.fail(std::string("well-cumulative.") + k, at + " well=" + wname + " saved=" + vh::hexF64(a) + " loaded=" + vh::hexF64(b)); else log.ok();
            }
            (void) well; (void) us;
        }
        stats["steps_loaded"]++;

        // ---- the schedule side, at the level the restarted Schedule is built from: RstState vs the original Schedule
        try {
            auto erst = std::make_shared<Opm::EclIO::ERst>(fname);
            auto view = std::make_shared<Opm::EclIO::RestartFileView>(erst, step);
            const auto state = Opm::RestartIO::RstState::load(view, cs.es.runspec(), Opm::Parser{}, &cs.grid);
            const double rf = 5e-7;   // SWEL / SCON are single precision whatever write_double says
            for (const auto& wname : cs.sched.wellNames(step - 1)) {
                const auto& well = cs.sched.getWell(wname, step - 1);
                const auto& rw = state.get_well(wname);
                auto chk = [&](const char* what, bool ok, const std::string& detail = "") {
                    if (ok) log.ok(); else log.fail(std::string("rst-well.") + what, at + " well=" + wname + " " + detail); };
                chk("head", rw.ij[0] == well.getHeadI() && rw.ij[1] == well.getHeadJ());
                chk("group", rw.group == well.groupName(), rw.group);
                chk("xflow", rw.allow_xflow == well.getAllowCrossFlow());
                chk("efficiency_factor", close(rw.efficiency_factor, well.getEfficiencyFactor(), rf), vh::hexF64(rw.efficiency_factor));
                chk("drainage_radius", close(rw.drainage_radius, well.getDrainageRadius(), rf, 1e-30), vh::hexF64(rw.drainage_radius) + " vs " + vh::hexF64(well.getDrainageRadius()));
                if (well.hasRefDepth()) chk("datum_depth", close(rw.datum_depth, well.getRefDepth(), rf), vh::hexF64(rw.datum_depth) + " vs " + vh::hexF64(well.getRefDepth()));
                chk("producer", rw.wtype.producer() == well.isProducer());
                chk("gr_scaling", close(rw.grupcon_gr_scaling, well.getGuideRateScalingFactor(), rf));
                const auto xwi = sv.dyn.xw.find(wname);
                const auto out = well.getConnections().output(cs.grid);
                chk("nconn", rw.connections.size() == out.size());
                for (std::size_t c = 0; c < out.size() && c < rw.connections.size(); ++c) {
                    const auto& conn = *out[c]; const auto& rc = rw.connections[c];
                    chk("conn.ijk", rc.ijk[0] == conn.getI() && rc.ijk[1] == conn.getJ() && rc.ijk[2] == conn.getK());
                    chk("conn.state", (rc.state == Opm::Connection::State::OPEN) == (conn.state() == Opm::Connection::State::OPEN));
                    chk("conn.dir", rc.dir == conn.dir());
                    chk("conn.depth", close(rc.depth, conn.depth(), rf), vh::hexF64(rc.depth) + " vs " + vh::hexF64(conn.depth()));
                    chk("conn.diameter", close(rc.diameter, 2 * conn.rw(), rf));
                    chk("conn.kh", close(rc.kh, conn.Kh(), rf), vh::hexF64(rc.kh) + " vs " + vh::hexF64(conn.Kh()));
                    chk("conn.skin", close(rc.skin_factor, conn.skinFactor(), rf, 1e-30));
                    chk("conn.length", close(rc.length, conn.connectionLength(), rf, 1e-30));
                    const Opm::data::Connection* xc = xwi == sv.dyn.xw.end() ? nullptr : xwi->second.find_connection(conn.global_index());
                    chk("conn.cf", close(rc.cf, xc ? xc->trans_factor / xc->compact_mult : conn.CF(), rf), vh::hexF64(rc.cf));
                    if (xc) {
                        chk("conn.pressure", close(rc.pressure, xc->pressure, 1e-12));
                        chk("conn.oil_rate", close(rc.oil_rate, -xc->rates.get(Opm::data::Rates::opt::oil, 0.0), 1e-12, 1e-300));
                    }
                }
                if (xwi != sv.dyn.xw.end()) {
                    chk("flow_bhp", close(rw.flow_bhp, xwi->second.bhp, 1e-12));
                    chk("thp", close(rw.thp, xwi->second.thp, 1e-12));
                    chk("oil_rate", close(rw.oil_rate, -xwi->second.rates.get(Opm::data::Rates::opt::oil, 0.0), 1e-12, 1e-300));
                }
            }
        } catch (const std::exception& e) {
            log.fail("rststate-throws." + tag, std::string("step ") + std::to_string(step) + ": " + e.what());
        }
    }
    std::filesystem::remove_all(workdir);
}

int run_prop(uint64_t seed, const std::string& tier, const std::string& outdir)
{
    vh::PropLog log(outdir + "/prop.txt");
    vh::Rng rng(seed * 7919 + 17);
    std::map<std::string, long> stats;
    const int rounds = tier == "thorough" ? 12 : 1;
    for (int r = 0; r < rounds; ++r)
        for (int v = 0; v < 32; ++v) prop_case(rng, log, stats, v, outdir + "/rst_work");
    std::ofstream f(outdir + "/prop_stats.json");
    f << "{\n  \"checked\": " << log.checked << ",\n  \"failed\": " << log.failed;
    for (auto& kv : stats) f << ",\n  \"" << kv.first << "\": " << kv.second;
    f << "\n}\n";
    return 0;
}

} // namespace

int main(int argc, char** argv)
{
    if (argc < 5) { std::cerr << "usage: restart corr|prop <seed> <tier> <outdir>\n"; return 2; }
    const std::string mode = argv[1], tier = argv[3], outdir = argv[4];
    const uint64_t seed = std::strtoull(argv[2], nullptr, 10);
    std::filesystem::create_directories(outdir);
    try {
        if (mode == "corr") return run_corr(seed, tier, outdir);
        if (mode == "prop") return run_prop(seed, tier, outdir);
    } catch (const std::exception& e) {
        std::cerr << "harness error: " << e.what() << "\n";
        return 3;
    }
    return 2;
}
