// C13 harness: drives the real GridDims / EclipseGrid / ZcornMapper / calculateCellVol /
// EclipseGrid::save + EclipseGrid(filename) of the working tree.
//
//   grid corr <seed> <tier> <outdir>   correspondence: ops.txt / impl.txt / stats.json
//   grid prop <seed> <tier> <outdir>   property mode on the implementation alone
//   grid vols <seed> <tier> <outfile>  (internal) per-cell activeVolume() bits, used by prop
//                                      mode to compare OMP_NUM_THREADS = 1, 4, 16 runs
//
// Doubles cross the protocol as 16 hex digits of their bit pattern.
#include "common/vh.hpp"

#include <opm/common/utility/numeric/calculateCellVol.hpp>
#include <opm/input/eclipse/Deck/Deck.hpp>
#include <opm/input/eclipse/Deck/DeckKeyword.hpp>
#include <opm/input/eclipse/EclipseState/Grid/GridDims.hpp>
#include <opm/input/eclipse/EclipseState/Grid/MapAxes.hpp>
#include <opm/input/eclipse/EclipseState/Grid/MinpvMode.hpp>
#include <opm/input/eclipse/EclipseState/Grid/PinchMode.hpp>
#include <opm/input/eclipse/EclipseState/Grid/NNC.hpp>
#include <opm/input/eclipse/Parser/Parser.hpp>
#include <opm/input/eclipse/Units/UnitSystem.hpp>
#include <opm/io/eclipse/EclFile.hpp>
#include <opm/io/eclipse/EGrid.hpp>

#include <algorithm>
#include <array>
#include <cmath>
#include <cstdlib>
#include <filesystem>
#include <iostream>
#include <map>
#include <memory>
#include <omp.h>
#include <sstream>
#include <optional>
#include <set>
#include <string>
#include <tuple>
#include <unordered_map>
#include <unordered_set>
#include <vector>

// Fourth round: `createTOPSVector` is a private static member whose result reaches no public
// query beyond its first layer (see design.d/C13.md); the harness calls it directly.  Access
// specifiers change neither layout nor mangled names under the Itanium ABI.
#define private public
#include <opm/input/eclipse/EclipseState/Grid/EclipseGrid.hpp>
#undef private

using namespace Opm;
namespace fs = std::filesystem;

namespace {

using V = std::vector<double>;
using A8 = std::array<double, 8>;

std::string hexV(const V& v) {
    if (v.empty()) return "-";
    std::string s; s.reserve(16 * v.size());
    for (double d : v) s += vh::hexF64(d);
    return s;
}
std::string hexA(const A8& v) { std::string s; for (double d : v) s += vh::hexF64(d); return s; }
std::string hexF(const std::vector<float>& v) {
    if (v.empty()) return "-";
    std::string s; for (float f : v) s += vh::hexF32(f); return s;
}
std::string joinI(const std::vector<int>& v) {
    if (v.empty()) return "-";
    std::string s; for (size_t i = 0; i < v.size(); ++i) { if (i) s += ","; s += std::to_string(v[i]); } return s;
}
std::string dims3(int nx, int ny, int nz) { return std::to_string(nx) + " " + std::to_string(ny) + " " + std::to_string(nz); }

std::string num(double d) { char b[40]; std::snprintf(b, sizeof b, "%.17g", d); return b; }

// A random positive length with a "nasty" mantissa.
double rlen(vh::Rng& r, double lo, double hi) { return lo + (hi - lo) * r.unit(); }

std::string kwData(const std::string& name, const V& v) {
    std::ostringstream s; s << name << "\n";
    for (size_t i = 0; i < v.size(); ++i) s << " " << num(v[i]) << ((i % 4 == 3) ? "\n" : "");
    s << " /\n\n";
    return s.str();
}
std::string kwInt(const std::string& name, const std::vector<int>& v) {
    std::ostringstream s; s << name << "\n";
    for (size_t i = 0; i < v.size(); ++i) s << " " << v[i] << ((i % 16 == 15) ? "\n" : "");
    s << " /\n\n";
    return s.str();
}

const char* unitKw(int u) { return u == 0 ? "METRIC" : u == 1 ? "FIELD" : "LAB"; }
UnitSystem unitSys(int u) {
    return UnitSystem(u == 0 ? UnitSystem::UnitType::UNIT_TYPE_METRIC : u == 1 ? UnitSystem::UnitType::UNIT_TYPE_FIELD : UnitSystem::UnitType::UNIT_TYPE_LAB);
}
const char* gridUnitName(int u) { return u == 0 ? "METRES" : u == 1 ? "FEET" : "CM"; }

std::string deckHead(int nx, int ny, int nz, int unit) {
    std::ostringstream s;
    s << "RUNSPEC\n\nDIMENS\n " << nx << " " << ny << " " << nz << " /\n\n" << unitKw(unit) << "\n\nGRID\n\n";
    return s.str();
}

Deck parse(const std::string& text) {
    Parser parser;
    return parser.parseString(text);
}

// ---- block-centred input ------------------------------------------------------------------
struct Block {
    int nx, ny, nz, unit;
    V dxv, dyv, dzv;      // per-direction
    V dz;                 // per cell (may vary per column when !uniformDz)
    V tops;               // first layer, nx*ny
    double top0;
};

Block genBlock(vh::Rng& r, int maxn, bool flatTop, bool dzPerCell) {
    Block b;
    b.nx = r.range(1, maxn); b.ny = r.range(1, maxn); b.nz = r.range(1, maxn);
    b.unit = r.range(0, 2);
    for (int i = 0; i < b.nx; ++i) b.dxv.push_back(rlen(r, 5, 200));
    for (int j = 0; j < b.ny; ++j) b.dyv.push_back(rlen(r, 5, 200));
    for (int k = 0; k < b.nz; ++k) b.dzv.push_back(rlen(r, 0.5, 30));
    b.top0 = rlen(r, 500, 3000);
    for (int n = 0; n < b.nx * b.ny; ++n) b.tops.push_back(flatTop ? b.top0 : b.top0 + rlen(r, 0, 50));
    for (int k = 0; k < b.nz; ++k)
        for (int n = 0; n < b.nx * b.ny; ++n) b.dz.push_back(dzPerCell ? rlen(r, 0.5, 30) : b.dzv[k]);
    return b;
}
V scatter(const Block& b, int dim) {
    V d(b.nx * b.ny * b.nz);
    for (int k = 0; k < b.nz; ++k) for (int j = 0; j < b.ny; ++j) for (int i = 0; i < b.nx; ++i)
        d[i + b.nx * (j + k * b.ny)] = dim == 0 ? b.dxv[i] : dim == 1 ? b.dyv[j] : b.dzv[k];
    return d;
}
std::string deckDTops(const Block& b, bool useV, const std::string& extra = "") {
    std::string s = deckHead(b.nx, b.ny, b.nz, b.unit);
    if (useV) s += kwData("DXV", b.dxv) + kwData("DYV", b.dyv) + kwData("DZV", b.dzv);
    else s += kwData("DX", scatter(b, 0)) + kwData("DY", scatter(b, 1)) + kwData("DZ", b.dz);
    s += kwData("TOPS", b.tops) + extra;
    return s;
}
std::string deckDepthz(const Block& b, const V& depthz, const std::string& extra = "") {
    return deckHead(b.nx, b.ny, b.nz, b.unit) + kwData("DXV", b.dxv) + kwData("DYV", b.dyv) + kwData("DZV", b.dzv)
         + kwData("DEPTHZ", depthz) + extra;
}

// ---- corner-point input -------------------------------------------------------------------
struct CP {
    int nx, ny, nz;
    V coord, zcorn;
    std::vector<int> actnum;
};

size_t zind(int nx, int ny, int i, int j, int k, int c) {
    return size_t(i) * 2 + size_t(j) * 4 * nx + size_t(k) * 8 * nx * ny + (c & 1) + ((c >> 1) & 1) * 2 * nx + ((c >> 2) & 1) * 4 * nx * ny;
}

// Sheared (all pillars parallel) and faulted (per-column depth offsets) grid with planar cell
// faces: every layer surface is a plane over each column.
CP genPlanarCP(vh::Rng& r, int maxn, bool shear, bool fault, bool degeneratePillars) {
    CP g;
    g.nx = r.range(1, maxn); g.ny = r.range(1, maxn); g.nz = r.range(1, maxn);
    const int nx = g.nx, ny = g.ny, nz = g.nz;
    const double zt = rlen(r, 900, 1100), H = 500 + rlen(r, 0, 100), zb = zt + H;
    const double sx = shear ? (r.unit() - 0.5) * 0.5 : 0.0, sy = shear ? (r.unit() - 0.5) * 0.5 : 0.0;
    V px((nx + 1) * (ny + 1)), py((nx + 1) * (ny + 1));
    V xs(nx + 1, 0.0), ys(ny + 1, 0.0);
    for (int i = 0; i < nx; ++i) xs[i + 1] = xs[i] + rlen(r, 20, 120);
    for (int j = 0; j < ny; ++j) ys[j + 1] = ys[j] + rlen(r, 20, 120);
    const bool wobble = r.coin();
    for (int j = 0; j <= ny; ++j) for (int i = 0; i <= nx; ++i) {
        px[i + j * (nx + 1)] = xs[i] + (wobble ? (r.unit() - 0.5) * 8 : 0.0);
        py[i + j * (nx + 1)] = ys[j] + (wobble ? (r.unit() - 0.5) * 8 : 0.0);
    }
    g.coord.resize(6 * (nx + 1) * (ny + 1));
    for (int p = 0; p < (nx + 1) * (ny + 1); ++p) {
        const bool degen = degeneratePillars && !shear && r.coin(1, 4);
        g.coord[6 * p + 0] = px[p]; g.coord[6 * p + 1] = py[p]; g.coord[6 * p + 2] = zt;
        g.coord[6 * p + 3] = px[p] + sx * H; g.coord[6 * p + 4] = py[p] + sy * H; g.coord[6 * p + 5] = degen ? zt : zb;
    }
    g.zcorn.assign(size_t(8) * nx * ny * nz, 0.0);
    V base(nz + 1); base[0] = zt + 20 + rlen(r, 0, 30);
    for (int k = 0; k < nz; ++k) base[k + 1] = base[k] + rlen(r, 1, 25);
    for (int j = 0; j < ny; ++j) for (int i = 0; i < nx; ++i) {
        const double off = fault && r.coin(1, 3) ? rlen(r, -15, 15) : 0.0;
        const double b = (r.unit() - 0.5) * 0.1, c = (r.unit() - 0.5) * 0.1;
        for (int k = 0; k < nz; ++k) for (int cc = 0; cc < 8; ++cc) {
            const int p = (i + (cc & 1)) + (j + ((cc >> 1) & 1)) * (nx + 1);
            const int s = k + ((cc >> 2) & 1);
            // pillar: x = px + sx (z - zt), y = py + sy (z - zt); plane: z = a + b x + c y
            const double a = base[s] + off;
            const double z = (a + b * px[p] + c * py[p] - (b * sx + c * sy) * zt) / (1.0 - b * sx - c * sy);
            g.zcorn[zind(nx, ny, i, j, k, cc)] = z;
        }
    }
    g.actnum.assign(nx * ny * nz, 1);
    return g;
}

std::vector<int> genActnum(vh::Rng& r, int n) {
    std::vector<int> a(n);
    const int mode = r.range(0, 4);
    for (int i = 0; i < n; ++i) {
        switch (mode) {
        case 0: a[i] = 1; break;
        case 1: a[i] = r.coin() ? 1 : 0; break;
        case 2: a[i] = r.coin(1, 8) ? 0 : 1; break;
        case 3: a[i] = r.coin(1, 8) ? 1 : 0; break;
        default: a[i] = r.range(0, 3); break;       // dual-porosity style values 2, 3 count as active
        }
    }
    return a;
}

struct CellQ { double vol; std::array<double, 3> ctr; double depth; std::array<double, 3> dims; double thick; };
CellQ query(const EclipseGrid& g, size_t gi) {
    CellQ q;
    q.vol = g.getCellVolume(gi); q.ctr = g.getCellCenter(gi); q.depth = g.getCellDepth(gi);
    q.dims = g.getCellDims(gi); q.thick = g.getCellThickness(gi);
    return q;
}
std::string cellsHex(const EclipseGrid& g) {
    std::string s;
    for (size_t gi = 0; gi < g.getCartesianSize(); ++gi) {
        CellQ q = query(g, gi);
        for (double d : { q.vol, q.ctr[0], q.ctr[1], q.ctr[2], q.depth, q.dims[0], q.dims[1], q.dims[2], q.thick }) s += vh::hexF64(d);
    }
    return s;
}

void emitCells(vh::Sink& sink, const EclipseGrid& g, const std::string& tag) {
    const auto d = g.getNXYZ();
    sink.emit("grid.cells " + dims3(d[0], d[1], d[2]) + " " + hexV(g.getCOORD()) + " " + hexV(g.getZCORN()), cellsHex(g));
    sink.count("cells." + tag); sink.count("cells.total", (long) g.getCartesianSize());
}

void emitCorners(vh::Sink& sink, vh::Rng& r, const EclipseGrid& g) {
    const auto d = g.getNXYZ();
    const size_t gi = r.below(g.getCartesianSize());
    const auto ijk = g.getIJK(gi);
    A8 X, Y, Z;
    for (int c = 0; c < 8; ++c) { auto p = g.getCornerPos(ijk[0], ijk[1], ijk[2], c); X[c] = p[0]; Y[c] = p[1]; Z[c] = p[2]; }
    sink.emit("grid.corners " + dims3(d[0], d[1], d[2]) + " " + hexV(g.getCOORD()) + " " + hexV(g.getZCORN()) + " " + std::to_string(gi),
              hexA(X) + " " + hexA(Y) + " " + hexA(Z));
    sink.count("corners");
}

std::vector<NNCdata> genNnc(vh::Rng& r, size_t ncells, bool thorough);
std::string nncStr(const std::vector<NNCdata>& nnc);
long nncRepeats(const std::vector<NNCdata>& nnc);
long nncAdjacentRepeats(const std::vector<NNCdata>& nnc);

// EGRID save -> file image, and load back
void emitEgrid(vh::Sink& sink, vh::Rng& r, const EclipseGrid& g, const V& coordIn, const V& zcornIn,
               const std::string& tmp, long& fileNo, const std::string& mapaxesHex, const std::string& mapunitsHex) {
    const auto d = g.getNXYZ();
    const int unit = r.range(0, 2);
    UnitSystem us = unitSys(unit);
    const std::vector<NNCdata> nnc = genNnc(r, g.getCartesianSize(), false);
    const std::string nncs = nncStr(nnc);
    const std::string path = tmp + "/G" + std::to_string(fileNo++) + ".EGRID";
    g.save(path, false, nnc, us);
    const std::string bytes = vh::slurp(path);
    const double ffrom = us.from_si(UnitSystem::measure::length, 1.0) ;
    // from_si(m, x) = table_from_si[m] * (x - offset): the factor is recovered with x = 1 (offset 0 for length)
    sink.emit("grid.egrid " + dims3(d[0], d[1], d[2]) + " " + gridUnitName(unit) + " " + vh::hexF64(ffrom) + " " + hexV(coordIn) + " " + hexV(zcornIn) + " "
              + joinI(g.getACTNUM()) + " " + mapaxesHex + " " + mapunitsHex + " " + nncs, vh::hex(bytes));
    sink.count(std::string("egrid.") + gridUnitName(unit)); sink.count("egrid.nnc", (long) nnc.size());
    sink.count("egrid.nnc.repeated_pairs", nncRepeats(nnc)); sink.count("egrid.nnc.adjacent_repeats", nncAdjacentRepeats(nnc));
    // load
    std::string ans;
    try {
        EclipseGrid g2(path);
        const auto d2 = g2.getNXYZ();
        std::string ma = "-", mu = "-";
        if (g2.getMapAxes().has_value()) {
            ma = hexF(g2.getMapAxes()->input());
            if (g2.getMapAxes()->mapunits().has_value()) { std::string u = *g2.getMapAxes()->mapunits(); u.resize(8, ' '); mu = vh::hex(u); }
        }
        ans = dims3(d2[0], d2[1], d2[2]) + "|" + hexV(g2.getCOORD()) + "|" + hexV(g2.getZCORN()) + "|" + joinI(g2.getACTNUM()) + "|"
            + std::to_string(g2.getNumActive()) + "|" + ma + "|" + mu + "|" + std::to_string(g2.getZcornFixed());
    } catch (const std::exception&) { ans = "err"; }
    const double feet = unitSys(1).to_si(UnitSystem::measure::length, 1.0), cm = unitSys(2).to_si(UnitSystem::measure::length, 1.0);
    sink.emit("grid.load " + vh::hexF64(feet) + " " + vh::hexF64(cm) + " " + vh::hex(bytes), ans);
    sink.count("load");
}

// ---- independent exact volume of a hexahedron with planar faces (divergence theorem) -------
double det3(const double* a, const double* b, const double* c) {
    return a[0] * (b[1] * c[2] - b[2] * c[1]) - a[1] * (b[0] * c[2] - b[2] * c[0]) + a[2] * (b[0] * c[1] - b[1] * c[0]);
}
double polyVolume(const A8& X, const A8& Y, const A8& Z) {
    // faces as quads with outward orientation for the reference cube (corner n: i = n&1, j = n>>1&1, k = n>>2)
    static const int F[6][4] = { {0, 2, 3, 1}, {4, 5, 7, 6}, {0, 1, 5, 4}, {2, 6, 7, 3}, {0, 4, 6, 2}, {1, 3, 7, 5} };
    // translate to the first corner to limit cancellation
    double P[8][3];
    for (int n = 0; n < 8; ++n) { P[n][0] = X[n] - X[0]; P[n][1] = Y[n] - Y[0]; P[n][2] = Z[n] - Z[0]; }
    double v = 0;
    for (auto& f : F) {
        // average of the two triangulations: exact for planar faces, the trilinear value for bilinear faces
        v += det3(P[f[0]], P[f[1]], P[f[2]]) + det3(P[f[0]], P[f[2]], P[f[3]]);
        v += det3(P[f[1]], P[f[2]], P[f[3]]) + det3(P[f[1]], P[f[3]], P[f[0]]);
    }
    return std::fabs(v / 12.0);
}

bool close(double a, double b, double rel, double abs0 = 0.0) {
    return std::fabs(a - b) <= rel * std::max(std::fabs(a), std::fabs(b)) + abs0;
}

void corners(const EclipseGrid& g, size_t gi, A8& X, A8& Y, A8& Z) {
    const auto ijk = g.getIJK(gi);
    for (int c = 0; c < 8; ++c) { auto p = g.getCornerPos(ijk[0], ijk[1], ijk[2], c); X[c] = p[0]; Y[c] = p[1]; Z[c] = p[2]; }
}

// i-direction: edges (n, n+1), n even; j-direction: edges (n, n+2), bit 1 clear
void splitI(const A8& v, A8& lo, A8& up) {
    for (int n = 0; n < 8; n += 2) {
        const double m = (v[n] + v[n + 1]) / 2.0;
        lo[n] = v[n]; lo[n + 1] = m; up[n] = m; up[n + 1] = v[n + 1];
    }
}
void splitJ(const A8& v, A8& lo, A8& up) {
    for (int n : { 0, 1, 4, 5 }) {
        const double m = (v[n] + v[n + 2]) / 2.0;
        lo[n] = v[n]; lo[n + 2] = m; up[n] = m; up[n + 2] = v[n + 2];
    }
}

void splitK(const A8& v, A8& lo, A8& up) {
    for (int n = 0; n < 4; ++n) {
        const double m = (v[n] + v[n + 4]) / 2.0;
        lo[n] = v[n]; lo[n + 4] = m; up[n] = m; up[n + 4] = v[n + 4];
    }
}

// deterministic grids for the thread-count comparison
std::vector<EclipseGrid> omGrids(uint64_t seed, const std::string& tier) {
    vh::Rng r(seed ^ 0x5151);
    std::vector<EclipseGrid> gs;
    const int n = tier == "thorough" ? 6 : 3;
    for (int t = 0; t < n; ++t) {
        CP g = genPlanarCP(r, tier == "thorough" ? 14 : 9, r.coin(), r.coin(), false);
        std::vector<int> act = genActnum(r, g.nx * g.ny * g.nz);
        gs.emplace_back(std::array<int, 3>{ g.nx, g.ny, g.nz }, g.coord, g.zcorn, act.data());
    }
    {   // a RADIAL grid: the cylindrical branch of the OpenMP loop in activeVolume()
        const int nx = r.range(3, 9), ny = r.range(3, 9), nz = r.range(2, 6);
        V drv, dth, dzv, tops;
        for (int i = 0; i < nx; ++i) drv.push_back(rlen(r, 0.2, 30));
        for (int j = 0; j < ny; ++j) dth.push_back(rlen(r, 1, 360.0 / ny));
        for (int k = 0; k < nz; ++k) dzv.push_back(rlen(r, 0.5, 30));
        for (int n = 0; n < nx * ny; ++n) tops.push_back(rlen(r, 1000, 1020));
        std::ostringstream s;
        s << "RUNSPEC\n\nDIMENS\n " << nx << " " << ny << " " << nz << " /\n\nRADIAL\n\nMETRIC\n\nGRID\n\nINRAD\n " << num(rlen(r, 0.05, 1)) << " /\n\n"
          << kwData("DRV", drv) << kwData("DTHETAV", dth) << kwData("DZV", dzv) << kwData("TOPS", tops);
        gs.emplace_back(parse(s.str()));
    }
    return gs;
}


// ---- NNC lists ----------------------------------------------------------------------------
// none / a few random pairs / many / repeated pairs (scattered, possibly with the two cells
// swapped) / the same through the real NNC container (NNC::addNNC orders the list on
// (cell1, cell2) with cell1 <= cell2, so repeated pairs become neighbours) / runs of identical
// neighbours in unsorted raw input.
std::vector<NNCdata> genNnc(vh::Rng& r, size_t ncells, bool thorough) {
    std::vector<NNCdata> out;
    const int mode = r.range(0, 5);
    if (mode == 0) return out;
    const int n = mode == 1 ? r.range(1, 4) : r.range(3, thorough ? 60 : 24);
    std::vector<std::pair<size_t, size_t>> pool;
    for (int t = 0; t < n; ++t) {
        size_t c1 = r.below(ncells), c2 = r.below(ncells);
        if (mode >= 3 && !pool.empty() && r.coin()) {            // repeat an earlier pair
            const auto p = pool[r.below(pool.size())];
            c1 = p.first; c2 = p.second;
            if (r.coin(1, 3)) std::swap(c1, c2);
        }
        pool.emplace_back(c1, c2);
        out.emplace_back(c1, c2, r.unit());
    }
    if (mode == 4 || (mode == 5 && r.coin())) {
        NNC c;
        for (const auto& d : out) c.addNNC(d.cell1, d.cell2, d.trans);
        out = c.input();
    }
    if (mode == 5) {
        std::vector<NNCdata> o2;
        for (const auto& d : out) { int k = r.coin(1, 3) ? r.range(2, 3) : 1; while (k-- > 0) o2.push_back(d); }
        out = o2;
    }
    return out;
}
std::string nncStr(const std::vector<NNCdata>& nnc) {
    if (nnc.empty()) return "-";
    std::string s;
    for (size_t n = 0; n < nnc.size(); ++n) s += (n ? "," : "") + std::to_string(nnc[n].cell1) + ":" + std::to_string(nnc[n].cell2);
    return s;
}
long nncRepeats(const std::vector<NNCdata>& nnc) {
    std::map<std::pair<size_t, size_t>, int> seen; long rep = 0;
    for (const auto& d : nnc) if (seen[{ std::min(d.cell1, d.cell2), std::max(d.cell1, d.cell2) }]++ > 0) ++rep;
    return rep;
}
long nncAdjacentRepeats(const std::vector<NNCdata>& nnc) {
    long rep = 0;
    for (size_t n = 1; n < nnc.size(); ++n) if (nnc[n].cell1 == nnc[n - 1].cell1 && nnc[n].cell2 == nnc[n - 1].cell2) ++rep;
    return rep;
}

// ---- operation sequences on ONE EclipseGrid object ----------------------------------------
// V activeVolume()           Q all per-cell queries + index maps      q getCellVolume(g)
// A resetACTNUM()            R resetACTNUM(mask)                      Z EclipseGrid(src, zcorn, mask)
// C EclipseGrid(src, mask)   S save (object kept)                     L save, then continue with EclipseGrid(file)
struct SeqOp { char kind = 'Q'; std::vector<int> mask; V z; int unit = 0; size_t g = 0; bool formatted = false; };

std::vector<int> nextMask0(vh::Rng& r, const std::vector<int>& cur);
std::vector<int> nextMask(vh::Rng& r, const std::vector<int>& cur) {
    // the same-popcount transformations are the identity on all-active / all-inactive masks (and
    // sometimes by chance): start those from a half-active mask instead
    std::vector<int> m = nextMask0(r, cur);
    if (m == cur && cur.size() > 1 && r.coin(3, 4)) {
        std::vector<int> half(cur.size());
        for (auto& v : half) v = r.coin() ? 1 : 0;
        m = nextMask0(r, half);
    }
    return m;
}
std::vector<int> nextMask0(vh::Rng& r, const std::vector<int>& cur) {
    const size_t n = cur.size();
    std::vector<int> m = cur;
    switch (r.range(0, 9)) {
    case 0: return genActnum(r, (int) n);
    case 1: for (size_t i = n; i > 1; --i) std::swap(m[i - 1], m[r.below(i)]); return m;        // same popcount, shuffled
    case 2: {                                                                                    // same popcount, one cell exchanged
        std::vector<size_t> a, b;
        for (size_t i = 0; i < n; ++i) (m[i] > 0 ? a : b).push_back(i);
        if (!a.empty() && !b.empty()) std::swap(m[a[r.below(a.size())]], m[b[r.below(b.size())]]);
        return m; }
    case 3: for (auto& v : m) if (v <= 0 && r.coin(1, 3)) v = 1; return m;                       // growing
    case 4: for (auto& v : m) if (v > 0 && r.coin(1, 3)) v = 0; return m;                        // shrinking
    case 5: for (auto& v : m) v = v > 0 ? 0 : 1; return m;                                       // complement
    case 6: return m;                                                                            // identical
    case 7: if (n > 1) std::rotate(m.begin(), m.begin() + 1 + r.below(n - 1), m.end()); return m; // same popcount, rotated
    case 8: std::reverse(m.begin(), m.end()); return m;                                          // same popcount, mirrored
    default: m.assign(n, 0); if (r.coin()) m[r.below(n)] = 1; return m;                          // none / one active cell
    }
}

V nextZcorn(vh::Rng& r, const V& zc) {
    V z = zc;
    const double z0 = *std::min_element(zc.begin(), zc.end());
    switch (r.range(0, 4)) {
    case 0: { const double f = 1.25 + 1.5 * r.unit(); for (auto& v : z) v = z0 + f * (v - z0); break; }   // thicker
    case 1: { const double f = 0.2 + 0.6 * r.unit(); for (auto& v : z) v = z0 + f * (v - z0); break; }    // thinner
    case 2: { const double s = 20 + 200 * r.unit(); for (auto& v : z) v += s; break; }                      // shifted
    case 3: for (auto& v : z) if (r.coin(1, 5)) v += (r.unit() - 0.5) * 30; break;                          // perturbed: fix-up has work
    default: break;                                                                                          // identical
    }
    return z;
}

// a mask with the same number of active cells as `cur` but (when possible) other cells
std::vector<int> samePopMask(vh::Rng& r, const std::vector<int>& cur) {
    std::vector<int> m = cur;
    for (int attempt = 0; attempt < 4 && m == cur; ++attempt)
        for (size_t i = m.size(); i > 1; --i) std::swap(m[i - 1], m[r.below(i)]);
    return m;
}

SeqOp genOp(vh::Rng& r, const std::vector<int>& curMask, const V& curZcorn, bool corr, bool cached) {
    SeqOp op;
    const size_t n = curMask.size();
    if (cached && r.coin(2, 5)) {
        // the cache is filled: the operations whose effect on it matters most
        switch (r.range(0, 3)) {
        case 0: op.kind = 'R'; op.mask = samePopMask(r, curMask); break;
        case 1: op.kind = 'C'; op.mask = samePopMask(r, curMask); break;
        case 2: op.kind = 'Z'; op.z = nextZcorn(r, curZcorn); op.mask = curMask; break;
        default: op.kind = 'Z'; op.z = nextZcorn(r, curZcorn); op.mask = samePopMask(r, curMask); break;
        }
        return op;
    }
    const int w = r.range(0, 99);
    if (w < 20) op.kind = 'V';
    else if (w < 28) op.kind = 'Q';
    else if (w < 36) { op.kind = 'q'; op.g = r.coin(1, 8) ? n + r.below(3) : r.below(n); }
    else if (w < 62) { op.kind = 'R'; op.mask = nextMask(r, curMask); if (r.coin(1, 20)) op.mask.push_back(1); }
    else if (w < 67) op.kind = 'A';
    else if (w < 80) { op.kind = 'Z'; op.z = nextZcorn(r, curZcorn); op.mask = r.coin() ? curMask : nextMask(r, curMask); if (r.coin(1, 25)) op.mask.pop_back(); }
    else if (w < 88) { op.kind = 'C'; op.mask = nextMask(r, curMask); }
    else if (w < 94) { op.kind = 'S'; op.unit = r.range(0, 2); op.formatted = !corr && r.coin(); }
    else { op.kind = 'L'; op.unit = r.range(0, 2); op.formatted = !corr && r.coin(); }
    return op;
}

std::string volsHex(const EclipseGrid& g) {
    std::string s;
    for (size_t gi = 0; gi < g.getCartesianSize(); ++gi) s += vh::hexF64(g.getCellVolume(gi));
    return s;
}
std::string mapsStr(const EclipseGrid& g) {
    const size_t n = g.getCartesianSize();
    std::vector<int> g2a(n);
    for (size_t gi = 0; gi < n; ++gi) { try { g2a[gi] = (int) g.activeIndex(gi); } catch (const std::exception&) { g2a[gi] = -1; } }
    std::vector<int> a2g;
    for (size_t a = 0; a < g.getNumActive(); ++a) a2g.push_back((int) g.getGlobalIndex(a));
    return std::to_string(g.getNumActive()) + "|" + joinI(g2a) + "|" + (a2g.empty() ? std::string() : joinI(a2g));
}
std::string seqDigest(const EclipseGrid& g) {
    return std::to_string(g.getNumActive()) + "," + volsHex(g) + "," + std::to_string(const_cast<EclipseGrid&>(g).getZcornFixed());   // getter is not const-qualified
}

// Applies one operation to the object; `old` receives the source object of a copying
// operation.  Returns the operation's own answer (protocol text).
std::string applyOp(std::unique_ptr<EclipseGrid>& g, const SeqOp& op, const std::string& tmp, long& fileNo,
                    std::unique_ptr<EclipseGrid>* old = nullptr, std::string* savedPath = nullptr) {
    switch (op.kind) {
    case 'V': return hexV(g->activeVolume());
    case 'Q': return mapsStr(*g) + "|" + cellsHex(*g);
    case 'q': try { return vh::hexF64(g->getCellVolume(op.g)); } catch (const std::exception&) { return "err"; }
    case 'A': g->resetACTNUM(); return "ok";
    case 'R': try { g->resetACTNUM(op.mask); return "ok"; } catch (const std::exception&) { return "err"; }
    case 'Z': case 'C': {
        std::unique_ptr<EclipseGrid> c;
        try {
            if (op.kind == 'Z') c = std::make_unique<EclipseGrid>(*g, op.z.data(), op.mask);
            else c = std::make_unique<EclipseGrid>(*g, op.mask);
        } catch (const std::exception&) { return "err"; }
        if (old) *old = std::move(g);
        g = std::move(c);
        return op.kind == 'Z' ? std::to_string(g->getZcornFixed()) : std::string("ok");
    }
    case 'S': case 'L': {
        const std::string path = tmp + "/S" + std::to_string(fileNo++) + (op.formatted ? ".FEGRID" : ".EGRID");
        g->save(path, op.formatted, {}, unitSys(op.unit));
        if (savedPath) *savedPath = path;
        if (op.kind == 'S') return vh::hex(vh::slurp(path));
        auto c = std::make_unique<EclipseGrid>(path);
        if (old) *old = std::move(g);
        g = std::move(c);
        return std::to_string(g->getZcornFixed());
    }
    }
    return "?";
}

std::string opText(const SeqOp& op) {
    switch (op.kind) {
    case 'q': return "q:" + std::to_string(op.g);
    case 'R': return "R:" + joinI(op.mask);
    case 'Z': return "Z:" + hexV(op.z) + ":" + joinI(op.mask);
    case 'C': return "C:" + joinI(op.mask);
    case 'S': case 'L': {
        const UnitSystem us = unitSys(op.unit);
        return std::string(1, op.kind) + ":" + gridUnitName(op.unit) + ":" + vh::hexF64(us.from_si(UnitSystem::measure::length, 1.0)) + ":"
             + vh::hexF64(us.to_si(UnitSystem::measure::length, 1.0));
    }
    default: return std::string(1, op.kind);
    }
}

// The initial object of a sequence: corner-point vectors (input arrays remembered by the
// object; fix-up may have work), the regular constructor, or a DXV/DYV/DZV/TOPS deck.
struct SeqInit { std::unique_ptr<EclipseGrid> g; std::string kind; V coord, zcornRaw; std::vector<int> act; bool actNull = false; };
SeqInit genSeqInit(vh::Rng& r, int maxn) {
    SeqInit si;
    const int k = r.range(0, 5);
    if (k <= 3) {
        CP cp = genPlanarCP(r, maxn, r.coin(), r.coin(), r.coin(1, 4));
        if (k == 3) for (auto& z : cp.zcorn) if (r.coin(1, 6)) z += (r.unit() - 0.5) * 40;
        si.kind = "cp"; si.coord = cp.coord; si.zcornRaw = cp.zcorn;
        si.actNull = r.coin(1, 3);
        si.act = si.actNull ? std::vector<int>(cp.nx * cp.ny * cp.nz, 1) : genActnum(r, cp.nx * cp.ny * cp.nz);
        si.g = std::make_unique<EclipseGrid>(std::array<int, 3>{ cp.nx, cp.ny, cp.nz }, cp.coord, cp.zcorn, si.actNull ? nullptr : si.act.data());
    } else if (k == 4) {
        const int nx = r.range(1, maxn), ny = r.range(1, maxn), nz = r.range(1, maxn);
        si.g = std::make_unique<EclipseGrid>(nx, ny, nz, rlen(r, 1, 100), rlen(r, 1, 100), rlen(r, 0.5, 20), r.coin() ? 0.0 : rlen(r, 100, 2000));
        si.kind = "plain";
    } else {
        Block b = genBlock(r, maxn, r.coin(), false);
        std::vector<int> act = genActnum(r, b.nx * b.ny * b.nz);
        si.g = std::make_unique<EclipseGrid>(parse(deckDTops(b, true, r.coin() ? kwInt("ACTNUM", act) : std::string())));
        si.kind = "plain";
    }
    if (si.kind == "plain") { si.coord = si.g->getCOORD(); si.zcornRaw = si.g->getZCORN(); si.act = si.g->getACTNUM(); }
    return si;
}

// What a mask/geometry changing operation did while the volume cache was filled.
std::string cachedCase(const std::vector<int>& before, const std::vector<int>& after, bool zcornChanged) {
    const long pb = std::count_if(before.begin(), before.end(), [](int v) { return v > 0; });
    const long pa = std::count_if(after.begin(), after.end(), [](int v) { return v > 0; });
    std::vector<int> b01(before.size()), a01(after.size());
    for (size_t i = 0; i < before.size(); ++i) { b01[i] = before[i] > 0; a01[i] = after[i] > 0; }
    if (pa > pb) return "seq.cached.grow";
    if (pa < pb) return "seq.cached.shrink";
    if (b01 != a01) return "seq.cached.same_popcount_other_cells";
    return zcornChanged ? "seq.cached.same_cells_new_zcorn" : "seq.cached.same_cells";
}

void emitSeq(vh::Sink& sink, vh::Rng& r, int maxn, const std::string& tmp, long& fileNo) {
    SeqInit si = genSeqInit(r, maxn);
    auto& g = si.g;
    const auto d = g->getNXYZ();
    std::string ops, ans;
    const int len = r.range(5, 14);
    bool pendingCache = false;
    for (int t = 0; t < len; ++t) {
        const SeqOp op = genOp(r, g->getACTNUM(), g->getZCORN(), true, pendingCache);
        const std::vector<int> before = g->getACTNUM();
        const std::string zBefore = hexV(g->getZCORN());
        const std::string a = applyOp(g, op, tmp, fileNo);
        ops += (t ? ";" : "") + opText(op);
        ans += (t ? ";" : "") + a + "/" + seqDigest(*g);
        sink.count(std::string("seq.op.") + op.kind);
        if (a == "err") sink.count("seq.err");
        if (op.kind == 'V') pendingCache = true;
        else if (op.kind == 'R' || op.kind == 'Z' || op.kind == 'C' || op.kind == 'A') {
            if (pendingCache && a != "err") sink.count(cachedCase(before, g->getACTNUM(), zBefore != hexV(g->getZCORN())));
            if (a != "err") pendingCache = false;
        } else if (op.kind == 'L') pendingCache = false;
    }
    sink.emit("grid.seq " + dims3(d[0], d[1], d[2]) + " " + si.kind + " " + hexV(si.coord) + " " + hexV(si.zcornRaw) + " " + (si.actNull ? std::string("-") : joinI(si.act)) + " " + ops, ans);
    sink.count("seq"); sink.count("seq.steps", len);
}


// ---- property mode: stateful sequences ----------------------------------------------------
// corner extraction written here, independent of EclipseGrid::getCellCorners
void ownCorners(const std::array<int, 3>& d, const V& coord, const V& zcorn, int i, int j, int k, A8& X, A8& Y, A8& Z) {
    const int nx = d[0], ny = d[1];
    for (int c = 0; c < 8; ++c) {
        const int pi = i + (c & 1), pj = j + ((c >> 1) & 1);
        const double* p = &coord[6 * (size_t(pi) + size_t(pj) * (nx + 1))];
        const double z = zcorn[zind(nx, ny, i, j, k, c)];
        Z[c] = z;
        if (p[2] == p[5]) { X[c] = p[0]; Y[c] = p[1]; }
        else { const double t = (z - p[2]) / (p[5] - p[2]); X[c] = p[0] + t * (p[3] - p[0]); Y[c] = p[1] + t * (p[4] - p[1]); }
    }
}

struct Expect { std::array<int, 3> d; V coord, zcorn; std::vector<int> act; };

// Every observable of the object against an independent recomputation from its own current
// COORD / ZCORN / ACTNUM and against the harness's expectation of those three.
bool checkObject(const EclipseGrid& g, const Expect& e, std::string& why) {
    if (g.getNXYZ() != e.d) { why = "dims changed"; return false; }
    if (g.getACTNUM() != e.act) { why = "ACTNUM is not the mask last set: " + joinI(g.getACTNUM()) + " expected " + joinI(e.act); return false; }
    if (hexV(g.getCOORD()) != hexV(e.coord)) { why = "COORD changed"; return false; }
    if (hexV(g.getZCORN()) != hexV(e.zcorn)) { why = "ZCORN is not the (fixed-up) array last set"; return false; }
    const size_t n = g.getCartesianSize();
    // index maps from ACTNUM
    std::vector<int> a2g;
    for (size_t gi = 0; gi < n; ++gi) {
        const bool active = e.act[gi] > 0;
        if (g.cellActive(gi) != active) { why = "cellActive != ACTNUM>0 g=" + std::to_string(gi); return false; }
        if (active) {
            size_t a = 0;
            try { a = g.activeIndex(gi); } catch (const std::exception&) { why = "activeIndex threw on active cell g=" + std::to_string(gi); return false; }
            if (a != a2g.size()) { why = "activeIndex(g) is not the rank of g among the active cells g=" + std::to_string(gi); return false; }
            a2g.push_back((int) gi);
        } else {
            bool threw = false;
            try { (void) g.activeIndex(gi); } catch (const std::exception&) { threw = true; }
            if (!threw) { why = "activeIndex accepted inactive cell g=" + std::to_string(gi); return false; }
        }
    }
    if (g.getNumActive() != a2g.size()) { why = "getNumActive != #ACTNUM>0"; return false; }
    if (g.getActiveMap() != a2g) { why = "getActiveMap != active cells of ACTNUM"; return false; }
    for (size_t a = 0; a < a2g.size(); ++a) if ((int) g.getGlobalIndex(a) != a2g[a]) { why = "getGlobalIndex(active) a=" + std::to_string(a); return false; }
    // per-cell volumes: getCellVolume (cache-aware) vs calculateCellVol on the cell's corners
    V vol(n);
    for (size_t gi = 0; gi < n; ++gi) {
        A8 X, Y, Z; corners(g, gi, X, Y, Z);
        vol[gi] = calculateCellVol(X, Y, Z);
        const double v = g.getCellVolume(gi);
        if (vh::hexF64(v) != vh::hexF64(vol[gi])) { why = "getCellVolume(" + std::to_string(gi) + ") = " + num(v) + " but calculateCellVol(corners) = " + num(vol[gi]); return false; }
        const auto ijk = g.getIJK(gi);
        A8 X2, Y2, Z2; ownCorners(e.d, g.getCOORD(), g.getZCORN(), ijk[0], ijk[1], ijk[2], X2, Y2, Z2);
        const double w = calculateCellVol(X2, Y2, Z2);
        if (!close(v, w, 1e-9, 1e-6)) { why = "getCellVolume(" + std::to_string(gi) + ") = " + num(v) + " but volume from COORD/ZCORN = " + num(w); return false; }
        if (vh::hexF64(g.getCellVolume(ijk[0], ijk[1], ijk[2])) != vh::hexF64(v)) { why = "getCellVolume(i,j,k) != getCellVolume(g)"; return false; }
    }
    // a fresh object built from the same three arrays answers identically (history independence);
    // its fix-up must leave the already fixed ZCORN alone
    {
        EclipseGrid fresh(e.d, g.getCOORD(), g.getZCORN(), g.getACTNUM().data());
        if (hexV(fresh.getZCORN()) != hexV(g.getZCORN())) { why = "fixupZCORN is not idempotent on the object's ZCORN"; return false; }
        if (mapsStr(fresh) != mapsStr(g)) { why = "index maps differ from those of a fresh object with the same ACTNUM"; return false; }
        if (cellsHex(fresh) != cellsHex(g)) { why = "per-cell queries differ from those of a fresh object with the same COORD/ZCORN/ACTNUM"; return false; }
    }
    // activeVolume() on a copy (so that the object's own cache state is not disturbed)
    {
        EclipseGrid probe(g);
        const auto& av = probe.activeVolume();
        if (av.size() != a2g.size()) { why = "activeVolume().size() != nactive"; return false; }
        for (size_t a = 0; a < av.size(); ++a)
            if (vh::hexF64(av[a]) != vh::hexF64(vol[a2g[a]])) { why = "activeVolume()[" + std::to_string(a) + "] = " + num(av[a]) + " but cell " + std::to_string(a2g[a]) + " has volume " + num(vol[a2g[a]]); return false; }
        for (size_t gi = 0; gi < n; ++gi)
            if (vh::hexF64(probe.getCellVolume(gi)) != vh::hexF64(vol[gi])) { why = "after activeVolume(): getCellVolume(" + std::to_string(gi) + ") = " + num(probe.getCellVolume(gi)) + " expected " + num(vol[gi]); return false; }
    }
    return true;
}

// loaded grid h against the object g it was saved from
bool checkReload(const EclipseGrid& g, const EclipseGrid& h, std::string& why, bool& geometry) {
    geometry = false;
    if (h.getNXYZ() != g.getNXYZ()) { why = "dims"; return false; }
    if (h.getACTNUM() != g.getACTNUM()) { why = "ACTNUM"; return false; }
    if (mapsStr(h) != mapsStr(g)) { why = "index maps"; return false; }
    const auto& c1 = g.getCOORD(); const auto& c2 = h.getCOORD();
    const auto& z1 = g.getZCORN(); const auto& z2 = h.getZCORN();
    if (c1.size() != c2.size() || z1.size() != z2.size()) { why = "array sizes"; return false; }
    for (size_t n = 0; n < c1.size(); ++n) if (!close(c1[n], c2[n], 2e-7, 1e-30)) { why = "COORD[" + std::to_string(n) + "] " + num(c1[n]) + " vs " + num(c2[n]); return false; }
    geometry = true;
    for (size_t n = 0; n < z1.size(); ++n) if (!close(z1[n], z2[n], 2e-7, 1e-30)) { why = "ZCORN[" + std::to_string(n) + "] in memory " + num(z1[n]) + ", after save+load " + num(z2[n]); return false; }
    // depths are means of corner depths, each off by at most one float ulp of its own magnitude
    // (they may cancel to ~0 when ZCORN straddles 0): absolute bound from the largest |ZCORN|
    double zscale = 1.0;
    for (double z : z1) zscale = std::max(zscale, std::fabs(z));
    for (size_t gi = 0; gi < g.getCartesianSize(); ++gi) {
        CellQ a = query(g, gi), c = query(h, gi);
        // every corner coordinate moves by at most one float ulp (relative 6e-8, times the unit
        // conversion): the volume moves by at most (face areas) x (coordinate error); written as an
        // absolute bound so that zero-thickness cells (fix-up) are covered too
        const double dz = std::fabs(a.dims[2]);
        const double tol = 4e-6 * (std::fabs(a.ctr[0]) + std::fabs(a.ctr[1]) + std::fabs(a.ctr[2]) + a.dims[0] + a.dims[1] + dz + 1) * (a.dims[0] * a.dims[1] + a.dims[0] * dz + a.dims[1] * dz);
        if (!close(a.vol, c.vol, 0.0, tol)) { why = "cell " + std::to_string(gi) + " volume in memory " + num(a.vol) + ", after save+load " + num(c.vol); return false; }
        if (!close(a.depth, c.depth, 0.0, 4e-7 * zscale)) { why = "cell " + std::to_string(gi) + " depth in memory " + num(a.depth) + ", after save+load " + num(c.depth); return false; }
    }
    return true;
}

std::string opBrief(const SeqOp& op) {
    switch (op.kind) {
    case 'q': return "q:" + std::to_string(op.g);
    case 'R': case 'C': return std::string(1, op.kind) + ":" + joinI(op.mask);
    case 'Z': return "Z:<zcorn>:" + joinI(op.mask);
    case 'S': case 'L': return std::string(1, op.kind) + ":" + gridUnitName(op.unit) + (op.formatted ? ":formatted" : ":unformatted");
    default: return std::string(1, op.kind);
    }
}

void propSeq(vh::PropLog& log, std::map<std::string, long>& st, vh::Rng& r, int maxn, const std::string& tmp, long& fileNo, bool& staleReported) {
    SeqInit si = genSeqInit(r, maxn);
    auto& g = si.g;
    Expect e { g->getNXYZ(), g->getCOORD(), g->getZCORN(), si.act };
    std::string hist = "init=" + si.kind + " dims=" + dims3(e.d[0], e.d[1], e.d[2]) + " actnum=" + (si.actNull ? std::string("null") : joinI(si.act)) + " ops=";
    std::string why;
    bool ok = true;
    std::string key = "seq";
    bool hasInput = si.kind == "cp";     // the object remembers the input arrays until its first save
    bool staleRisk = false;              // ZCORN replaced by a copy constructor while the inputs were remembered
    if (si.kind == "cp") {
        // the object must hold the input COORD and the fixed-up input ZCORN
        if (hexV(g->getCOORD()) != hexV(si.coord)) { ok = false; why = "COORD of a corner-point grid is not the input COORD"; }
    }
    if (ok && !checkObject(*g, e, why)) { ok = false; why = "initial object: " + why; }
    const int len = r.range(5, 14);
    bool cached = false;
    for (int t = 0; t < len && ok; ++t) {
        const SeqOp op = genOp(r, e.act, e.zcorn, false, cached);
        hist += (t ? ";" : "") + opBrief(op);
        st[std::string("seq.op.") + op.kind]++;
        std::unique_ptr<EclipseGrid> old;
        std::string before, saved;
        if (op.kind == 'Z' || op.kind == 'C') before = cellsHex(*g) + mapsStr(*g) + hexV(g->getZCORN()) + joinI(g->getACTNUM());
        const std::vector<int> actBefore = e.act;
        const std::string zBefore = hexV(e.zcorn);
        std::string a;
        try { a = applyOp(g, op, tmp, fileNo, &old, &saved); }
        catch (const std::exception&) { ok = false; why = "operation threw"; break; }
        const size_t n = e.act.size();
        switch (op.kind) {
        case 'V': {
            cached = true;
            const auto& av = g->activeVolume();
            size_t a2 = 0;
            for (size_t gi = 0; gi < n && ok; ++gi) if (e.act[gi] > 0) {
                A8 X, Y, Z; corners(*g, gi, X, Y, Z);
                if (a2 >= av.size() || vh::hexF64(av[a2]) != vh::hexF64(calculateCellVol(X, Y, Z))) { ok = false; why = "activeVolume()[" + std::to_string(a2) + "] is not the volume of active cell " + std::to_string(gi); }
                ++a2;
            }
            if (ok && a2 != av.size()) { ok = false; why = "activeVolume().size()"; }
            break; }
        case 'q':
            if ((op.g >= n) != (a == "err")) { ok = false; why = "getCellVolume range check"; }
            break;
        case 'A': e.act.assign(n, 1); break;
        case 'R':
            if ((op.mask.size() != n) != (a == "err")) { ok = false; why = "resetACTNUM(mask) size check"; }
            else if (a != "err") e.act = op.mask;
            break;
        case 'Z': case 'C':
            if ((op.mask.size() != n) != (a == "err")) { ok = false; why = "copy constructor ACTNUM size check"; }
            else if (a != "err") {
                if (before != cellsHex(*old) + mapsStr(*old) + hexV(old->getZCORN()) + joinI(old->getACTNUM())) { ok = false; why = "copy constructor changed the source object"; }
                e.act = op.mask;
                if (op.kind == 'Z') {
                    e.zcorn = EclipseGrid(e.d, e.coord, op.z, nullptr).getZCORN();
                    if (hasInput) staleRisk = true;
                }
            }
            break;
        case 'S': case 'L': {
            const EclipseGrid& src = op.kind == 'L' ? *old : *g;
            std::unique_ptr<EclipseGrid> tmpLoaded;
            if (op.kind == 'S') tmpLoaded = std::make_unique<EclipseGrid>(saved);
            const EclipseGrid& h = op.kind == 'L' ? *g : *tmpLoaded;
            bool geometry = false; std::string w;
            st["seq.saveload"]++;
            if (!checkReload(src, h, w, geometry)) {
                if (staleRisk && geometry) {
                    st["seq.stale_save_mismatch"]++;
                    if (!staleReported) {
                        staleReported = true;
                        log.fail("C13.zcorn_copy_stale_save", "save() after EclipseGrid(src, zcorn, actnum) writes the source's input ZCORN: " + w + " " + hist);
                    }
                    // keep going with what the file gave (the loaded object is checked against itself)
                } else { ok = false; key = "seq.saveload"; why = "save -> load does not give back the object: " + w; }
            }
            if (ok && op.kind == 'S') {
                // the mutable input arrays are gone now: a second save must write the same geometry again
                // (when the first one wrote stale arrays the second cannot agree with it: skip)
                const std::string p2 = tmp + "/S" + std::to_string(fileNo++) + (op.formatted ? ".FEGRID" : ".EGRID");
                g->save(p2, op.formatted, {}, unitSys(op.unit));
                EclipseGrid h2(p2);
                if (!checkReload(*g, h2, w, geometry)) { ok = false; key = "seq.saveload"; why = "second save of the same object -> load: " + w; }
            }
            hasInput = false; staleRisk = false;
            if (op.kind == 'L') { e.coord = g->getCOORD(); e.zcorn = g->getZCORN(); cached = false; }
            break; }
        default: break;
        }
        if (a != "err" && (op.kind == 'R' || op.kind == 'A' || op.kind == 'Z' || op.kind == 'C')) {
            if (cached) st[cachedCase(actBefore, e.act, zBefore != hexV(e.zcorn))]++;
            cached = false;
        }
        if (ok && !checkObject(*g, e, why)) ok = false;
        if (!ok) why = "after step " + std::to_string(t + 1) + " (" + opBrief(op) + "): " + why;
        st["seq.steps"]++;
    }
    if (ok) log.ok(); else log.fail(key, why + " " + hist);
    st["seq"]++;
}

// =============================== third round ===============================
// C13 harness, third round (included by grid.cpp inside its anonymous namespace):
// MINPV / MINPORV / setMINPVV / cellActiveAfterMINPV, PINCH options, RADIAL / SPIDER grids,
// GRIDUNIT rescaling, MapAxes transform / inv_transform, and a wider corner-point generator
// (faults with large throws, inactive layers, zero-thickness cells, collapsed pillars).

// ---- generators -----------------------------------------------------------------------------

// A corner-point grid with the features the first rounds did not reach: zero-thickness cells and
// whole zero-thickness layers, collapsed pillars (top == bottom point: the `zt == zb` branch),
// faults whose throw exceeds the layer thickness (neighbouring columns do not overlap at all),
// inactive layers / columns.  Faces stay planar (plane per column), so the exact volume is known.
CP genHardCP(vh::Rng& r, int maxn, std::map<std::string, long>* st = nullptr) {
    CP g;
    g.nx = r.range(1, maxn); g.ny = r.range(1, maxn); g.nz = r.range(1, maxn);
    const int nx = g.nx, ny = g.ny, nz = g.nz;
    const double zt = rlen(r, 900, 1100), H = 800 + rlen(r, 0, 100), zb = zt + H;
    const bool shear = r.coin(1, 3);
    const double sx = shear ? (r.unit() - 0.5) * 0.4 : 0.0, sy = shear ? (r.unit() - 0.5) * 0.4 : 0.0;
    V px((nx + 1) * (ny + 1)), py((nx + 1) * (ny + 1));
    V xs(nx + 1, 0.0), ys(ny + 1, 0.0);
    for (int i = 0; i < nx; ++i) xs[i + 1] = xs[i] + rlen(r, 20, 120);
    for (int j = 0; j < ny; ++j) ys[j + 1] = ys[j] + rlen(r, 20, 120);
    for (int j = 0; j <= ny; ++j) for (int i = 0; i <= nx; ++i) { px[i + j * (nx + 1)] = xs[i]; py[i + j * (nx + 1)] = ys[j]; }
    g.coord.resize(6 * (nx + 1) * (ny + 1));
    long collapsed = 0;
    for (int p = 0; p < (nx + 1) * (ny + 1); ++p) {
        const bool degen = !shear && r.coin(1, 5);          // collapsed pillar: one point
        collapsed += degen;
        g.coord[6 * p + 0] = px[p]; g.coord[6 * p + 1] = py[p]; g.coord[6 * p + 2] = zt;
        g.coord[6 * p + 3] = degen ? px[p] : px[p] + sx * H; g.coord[6 * p + 4] = degen ? py[p] : py[p] + sy * H; g.coord[6 * p + 5] = degen ? zt : zb;
    }
    g.zcorn.assign(size_t(8) * nx * ny * nz, 0.0);
    V base(nz + 1); base[0] = zt + 20 + rlen(r, 0, 30);
    std::vector<bool> zeroLayer(nz);
    long zl = 0;
    for (int k = 0; k < nz; ++k) { zeroLayer[k] = r.coin(1, 5); zl += zeroLayer[k]; base[k + 1] = base[k] + (zeroLayer[k] ? 0.0 : rlen(r, 1, 25)); }
    long zc = 0, bigFault = 0;
    for (int j = 0; j < ny; ++j) for (int i = 0; i < nx; ++i) {
        const bool big = r.coin(1, 4);
        bigFault += big;
        const double off = big ? rlen(r, 40, 120) * (r.coin() ? 1 : -1) : (r.coin(1, 3) ? rlen(r, -15, 15) : 0.0);
        const double b = (r.unit() - 0.5) * 0.1, c = (r.unit() - 0.5) * 0.1;
        const int pinchK = r.coin(1, 3) ? r.range(0, nz - 1) : -1;      // this cell of the column has zero thickness
        V cb(nz + 1); cb[0] = base[0];
        for (int k = 0; k < nz; ++k) { const bool z0 = k == pinchK; zc += z0 && !zeroLayer[k]; cb[k + 1] = cb[k] + (z0 ? 0.0 : base[k + 1] - base[k]); }
        for (int k = 0; k < nz; ++k) for (int cc = 0; cc < 8; ++cc) {
            const int p = (i + (cc & 1)) + (j + ((cc >> 1) & 1)) * (nx + 1);
            const int s = k + ((cc >> 2) & 1);
            const double a = cb[s] + off;
            const bool degen = g.coord[6 * p + 5] == g.coord[6 * p + 2];
            const double ssx = degen ? 0.0 : sx, ssy = degen ? 0.0 : sy;
            g.zcorn[zind(nx, ny, i, j, k, cc)] = (a + b * px[p] + c * py[p] - (b * ssx + c * ssy) * zt) / (1.0 - b * ssx - c * ssy);
        }
    }
    // ACTNUM: inactive layers / columns / random
    g.actnum.assign(nx * ny * nz, 1);
    const int mode = r.range(0, 3);
    long inactLayers = 0;
    if (mode == 0) { for (int k = 0; k < nz; ++k) if (r.coin(1, 3)) { ++inactLayers; for (int n = 0; n < nx * ny; ++n) g.actnum[n + k * nx * ny] = 0; } }
    else if (mode == 1) { for (int n = 0; n < nx * ny; ++n) if (r.coin(1, 3)) for (int k = 0; k < nz; ++k) g.actnum[n + k * nx * ny] = 0; }
    else if (mode == 2) g.actnum = genActnum(r, nx * ny * nz);
    if (st) { (*st)["hardcp.collapsed_pillars"] += collapsed; (*st)["hardcp.zero_layers"] += zl; (*st)["hardcp.zero_cells"] += zc;
              (*st)["hardcp.big_faults"] += bigFault; (*st)["hardcp.inactive_layers"] += inactLayers; (*st)["hardcp.sheared"] += shear; }
    return g;
}

struct Radial {
    int nx, ny, nz, unit;
    double inrad;
    V drv, dth, dzv, dz, tops;
    bool useDz, circle, spider;
};

Radial genRadial(vh::Rng& r, int maxn) {
    Radial q;
    q.nx = r.range(1, maxn); q.ny = r.range(1, maxn + 2); q.nz = r.range(1, maxn);
    q.unit = r.range(0, 2);
    q.inrad = r.coin(1, 4) ? 0.0 : rlen(r, 0.05, 2.0);
    double w = rlen(r, 0.2, 2.0);
    for (int i = 0; i < q.nx; ++i) { q.drv.push_back(w); w *= 1.0 + r.unit(); }
    q.circle = r.coin();
    if (q.circle) {                   // full circle: exactly 360 in total (integers add exactly)
        int left = 360;
        for (int j = 0; j < q.ny; ++j) { const int t = j == q.ny - 1 ? left : std::max(1, std::min(left - (q.ny - 1 - j), r.range(1, 2 * 360 / q.ny))); q.dth.push_back(t); left -= t; }
    } else {
        const double total = rlen(r, 10, 350);
        V u; double s = 0; for (int j = 0; j < q.ny; ++j) { u.push_back(0.2 + r.unit()); s += u.back(); }
        for (int j = 0; j < q.ny; ++j) q.dth.push_back(total * u[j] / s);
    }
    for (int k = 0; k < q.nz; ++k) q.dzv.push_back(rlen(r, 0.5, 30));
    q.useDz = r.coin();
    for (int k = 0; k < q.nz; ++k) for (int n = 0; n < q.nx * q.ny; ++n) q.dz.push_back(q.useDz ? rlen(r, 0.5, 30) : q.dzv[k]);
    const bool flat = r.coin();
    const double top0 = rlen(r, 500, 3000);
    for (int n = 0; n < q.nx * q.ny; ++n) q.tops.push_back(flat ? top0 : top0 + rlen(r, 0, 20));
    q.spider = false;
    return q;
}

std::string deckRadial(const Radial& q, const std::string& extra = "") {
    std::ostringstream s;
    s << "RUNSPEC\n\nDIMENS\n " << q.nx << " " << q.ny << " " << q.nz << " /\n\n" << (q.spider ? "SPIDER" : "RADIAL") << "\n\n" << unitKw(q.unit) << "\n\nGRID\n\n";
    s << "INRAD\n " << num(q.inrad) << " /\n\n";
    if (q.circle) s << "CIRCLE\n\n";
    s << kwData("DRV", q.drv) << kwData("DTHETAV", q.dth);
    if (q.useDz) s << kwData("DZ", q.dz); else s << kwData("DZV", q.dzv);
    s << kwData("TOPS", q.tops) << extra;
    return s.str();
}

double lengthSI(int unit) { return unitSys(unit).to_si(UnitSystem::measure::length, 1.0); }

// ---- correspondence ---------------------------------------------------------------------------

std::string g2aStr(const EclipseGrid& g) {
    std::vector<int> g2a(g.getCartesianSize());
    for (size_t gi = 0; gi < g2a.size(); ++gi) { try { g2a[gi] = (int) g.activeIndex(gi); } catch (const std::exception&) { g2a[gi] = -1; } }
    return joinI(g2a);
}

void emitMinpv(vh::Sink& sink, vh::Rng& r, int maxn) {
    Block b = genBlock(r, maxn, true, false);
    const int n = b.nx * b.ny * b.nz;
    const int kind = r.range(0, 2);                 // none / MINPV / MINPORV
    const double v = r.coin(1, 5) ? 0.0 : rlen(r, 1, 5000);
    std::vector<int> act = genActnum(r, n);
    std::string extra = kwInt("ACTNUM", act);
    if (kind == 1) extra += "MINPV\n " + num(v) + " /\n\n";
    if (kind == 2) extra += "MINPORV\n " + num(v) + " /\n\n";
    Deck deck = parse(deckDTops(b, true, extra));
    EclipseGrid g(deck);
    std::string deckTok = "-";
    if (kind == 1) deckTok = vh::hexF64(deck["MINPV"].back().getRecord(0).getItem(0).getSIDouble(0));
    if (kind == 2) deckTok = vh::hexF64(deck["MINPORV"].back().getRecord(0).getItem(0).getSIDouble(0));
    std::string setTok = "-", setok = "ok";
    const int setKind = r.range(0, 3);              // 0,1: none; 2: right size; 3: wrong size
    if (setKind >= 2) {
        V mv(setKind == 2 ? n : (r.coin() ? n + 1 : std::max(0, n - 1)));
        for (auto& x : mv) x = r.coin(1, 6) ? 0.0 : rlen(r, 1, 5000);
        setTok = hexV(mv);
        try { g.setMINPVV(mv); } catch (const std::exception&) { setok = "err"; }
    }
    const V& vec = g.getMinpvVector();
    V porv(n);
    for (int gi = 0; gi < n; ++gi) {
        const int c = r.range(0, 5);
        const double m = gi < (int) vec.size() ? vec[gi] : 0.0;
        porv[gi] = c == 0 ? m : c == 1 ? std::nextafter(m, 0.0) : c == 2 ? std::nextafter(m, 1e300) : c == 3 ? 0.0 : rlen(r, 0, 6000);
    }
    std::string cells;
    std::vector<int> mask(n);
    for (int gi = 0; gi < n; ++gi) {
        auto ijk = g.getIJK(gi);
        bool a = false;
        try { a = g.cellActiveAfterMINPV(ijk[0], ijk[1], ijk[2], porv[gi]); cells += a ? "1" : "0"; } catch (const std::exception&) { cells += "e"; }
        mask[gi] = a ? g.getACTNUM()[gi] : 0;
    }
    EclipseGrid h(g);
    h.resetACTNUM(mask);
    sink.emit("gridx.minpv " + std::to_string(n) + " " + joinI(g.getACTNUM()) + " " + deckTok + " " + setTok + " " + hexV(porv),
              std::to_string((int) g.getMinpvMode()) + "|" + hexV(vec) + "|" + setok + "|" + cells + "|" + joinI(mask) + "|" + std::to_string(h.getNumActive()) + "|" + g2aStr(h));
    sink.count("minpv"); sink.count(kind == 0 ? "minpv.none" : kind == 1 ? "minpv.MINPV" : "minpv.MINPORV"); sink.count("minpv.set." + setok + (setKind >= 2 ? "" : ".none"));
    // out of range: assertIJK
    {
        // k = nz is out of range: global index n + (i + nx*j) >= n
        const int i = r.range(0, b.nx - 1), j = r.range(0, b.ny - 1);
        std::string a = "ok";
        try { (void) g.cellActiveAfterMINPV(i, j, b.nz, 1.0); } catch (const std::exception&) { a = "err"; }
        sink.emit("gridx.minpvq " + std::to_string(n) + " " + std::to_string(n + i + b.nx * j), a);
    }
}

void emitRadial(vh::Sink& sink, vh::Rng& r, int maxn) {
    Radial q = genRadial(r, maxn);
    // GRIDUNIT: one third of the decks give the lengths in another unit than the deck's
    int gu = -1;
    std::string extra;
    if (r.coin(1, 3)) { gu = r.range(0, 2); extra = std::string("GRIDUNIT\n ") + gridUnitName(gu) + " /\n\n"; }
    Deck deck = parse(deckRadial(q, extra));
    EclipseGrid g(deck);
    const double s = (gu < 0 || gu == q.unit) ? 1.0 : lengthSI(gu) / lengthSI(q.unit);
    V DZ = q.useDz ? deck["DZ"].back().getSIDoubleData() : V();
    if (!q.useDz) { const V& dzv = deck["DZV"].back().getSIDoubleData(); for (int k = 0; k < q.nz; ++k) for (int n = 0; n < q.nx * q.ny; ++n) DZ.push_back(dzv[k]); }
    V vols(g.getCartesianSize());
    for (size_t gi = 0; gi < vols.size(); ++gi) vols[gi] = g.getCellVolume(gi);
    sink.emit("gridx.radial " + dims3(q.nx, q.ny, q.nz) + " " + vh::hexF64(s) + " " + vh::hexF64(deck["INRAD"].back().getRecord(0).getItem(0).getSIDouble(0)) + " "
              + hexV(deck["DRV"].back().getSIDoubleData()) + " " + hexV(deck["DTHETAV"].back().getSIDoubleData()) + " " + hexV(DZ) + " " + hexV(deck["TOPS"].back().getSIDoubleData()),
              hexV(g.getCOORD()) + " " + hexV(g.getZCORN()) + " " + std::to_string(g.getZcornFixed()) + " " + hexV(vols));
    sink.count("radial"); sink.count(gu < 0 ? "radial.nogridunit" : "radial.gridunit"); sink.count("radial.cells", (long) vols.size());
}

void emitGridunit(vh::Sink& sink, vh::Rng& r, int maxn, const std::string& tmp, long& fileNo) {
    CP cp = genHardCP(r, maxn);
    const int unit = r.range(0, 2), gu = r.range(0, 2);
    Deck deck = parse(deckHead(cp.nx, cp.ny, cp.nz, unit) + kwData("COORD", cp.coord) + kwData("ZCORN", cp.zcorn) + kwInt("ACTNUM", cp.actnum)
                      + "GRIDUNIT\n " + gridUnitName(gu) + " /\n\n");
    EclipseGrid g(deck);
    // what the constructor had before apply_GRIDUNIT: SI values of the deck, ZCORN fixed up
    EclipseGrid g0(std::array<int, 3>{ cp.nx, cp.ny, cp.nz }, deck["COORD"].back().getSIDoubleData(), deck["ZCORN"].back().getSIDoubleData(), nullptr);
    if (gu == unit) {
        sink.emit("gridx.gridunit " + vh::hexF64(1.0) + " " + vh::hexF64(1.0) + " " + hexV(g0.getCOORD()) + " " + hexV(g0.getZCORN()), hexV(g.getCOORD()) + " " + hexV(g.getZCORN()));
    } else {
        sink.emit("gridx.gridunit " + vh::hexF64(lengthSI(gu)) + " " + vh::hexF64(lengthSI(unit)) + " " + hexV(g0.getCOORD()) + " " + hexV(g0.getZCORN()),
                  hexV(g.getCOORD()) + " " + hexV(g.getZCORN()));
    }
    sink.count("gridunit"); sink.count(gu == unit ? "gridunit.same" : "gridunit.other");
    emitCells(sink, g, "hardcp.gridunit");
    {   // save() of a GRIDUNIT grid writes the rescaled *input* arrays (m_input_coord / m_input_zcorn)
        V ci = deck["COORD"].back().getSIDoubleData(), zi = deck["ZCORN"].back().getSIDoubleData();
        if (gu != unit) { const double sc = lengthSI(gu) / lengthSI(unit); for (auto& x : ci) x = x * sc; for (auto& x : zi) x = x * sc; }
        emitEgrid(sink, r, g, ci, zi, tmp, fileNo, "-", "-");
        sink.count("gridunit.egrid");
    }
    sink.emit("grid.act " + joinI(cp.actnum), std::to_string(g.getNumActive()) + "|" + g2aStr(g) + "|" + (g.getActiveMap().empty() ? "" : joinI(g.getActiveMap())));
}

void emitMapaxes(vh::Sink& sink, vh::Rng& r) {
    const double x2 = rlen(r, -1e5, 1e6), y2 = rlen(r, -1e5, 1e6);
    const double ang = r.unit() * 6.283185307179586, skew = r.coin(1, 3) ? (r.unit() - 0.5) : 0.0;
    const double lx = rlen(r, 1, 1000), ly = rlen(r, 1, 1000);
    const double x3 = x2 + lx * std::cos(ang), y3 = y2 + lx * std::sin(ang);
    const double x1 = x2 + ly * std::cos(ang + 1.5707963267948966 + skew), y1 = y2 + ly * std::sin(ang + 1.5707963267948966 + skew);
    const int mu = r.range(0, 3);
    const char* names[] = { "METRES", "FEET", "CM" };
    const double lfs[] = { 1.0, 0.3048, 0.01 };
    MapAxes m = mu == 3 ? MapAxes(x1, y1, x2, y2, x3, y3) : MapAxes(std::string(names[mu]), x1, y1, x2, y2, x3, y3);
    const double lf = mu == 3 ? 1.0 : lfs[mu];
    const double hx = std::hypot(x3 - x2, y3 - y2), hy = std::hypot(x1 - x2, y1 - y2);      // the two libm values init() uses
    for (int t = 0; t < 4; ++t) {
        const double x = rlen(r, -5000, 5000), y = rlen(r, -5000, 5000);
        double tx = x, ty = y, ux = x, uy = y;
        m.transform(tx, ty); m.inv_transform(ux, uy);
        sink.emit("gridx.mapaxes " + vh::hexF64(lf) + " " + vh::hexF64(x1) + " " + vh::hexF64(y1) + " " + vh::hexF64(x2) + " " + vh::hexF64(y2) + " " + vh::hexF64(x3) + " " + vh::hexF64(y3)
                  + " " + vh::hexF64(hx) + " " + vh::hexF64(hy) + " " + vh::hexF64(x) + " " + vh::hexF64(y),
                  vh::hexF64(tx) + vh::hexF64(ty) + vh::hexF64(ux) + vh::hexF64(uy));
        sink.count("mapaxes");
    }
}

void emitHardCP(vh::Sink& sink, vh::Rng& r, int maxn, const std::string& tmp, long& fileNo, int round) {
    CP cp = genHardCP(r, maxn);
    EclipseGrid g(std::array<int, 3>{ cp.nx, cp.ny, cp.nz }, cp.coord, cp.zcorn, cp.actnum.data());
    sink.emit("grid.fixup " + dims3(cp.nx, cp.ny, cp.nz) + " " + hexV(cp.zcorn), std::to_string(g.getZcornFixed()) + " " + hexV(g.getZCORN()));
    sink.count("cp.hard");
    emitCells(sink, g, "hardcp");
    emitCorners(sink, r, g);
    sink.emit("grid.act " + joinI(cp.actnum), std::to_string(g.getNumActive()) + "|" + g2aStr(g) + "|" + (g.getActiveMap().empty() ? "" : joinI(g.getActiveMap())));
    if (round % 2 == 1) emitEgrid(sink, r, g, cp.coord, cp.zcorn, tmp, fileNo, "-", "-");
}

// ---- property mode ------------------------------------------------------------------------------

bool sameBits(double a, double b) { return vh::hexF64(a) == vh::hexF64(b); }

// P8: MINPV rule, deactivation never changes geometry, setMINPVV, PINCH options, equal()
void propMinpv(vh::PropLog& log, std::map<std::string, long>& st, vh::Rng& r, int maxn) {
    const bool hard = r.coin();
    int nx, ny, nz, unit = r.range(0, 2);
    std::string body;
    std::vector<int> act;
    if (hard) {
        CP cp = genHardCP(r, maxn, &st);
        nx = cp.nx; ny = cp.ny; nz = cp.nz; act = cp.actnum;
        body = deckHead(nx, ny, nz, unit) + kwData("COORD", cp.coord) + kwData("ZCORN", cp.zcorn);
    } else {
        Block b = genBlock(r, maxn, r.coin(), false);
        b.unit = unit; nx = b.nx; ny = b.ny; nz = b.nz; act = genActnum(r, nx * ny * nz);
        body = deckDTops(b, true);
    }
    const int n = nx * ny * nz;
    const int kind = r.range(0, 2);
    const double v = r.coin(1, 5) ? 0.0 : rlen(r, 1, 5000);
    std::string extra = kwInt("ACTNUM", act);
    if (kind == 1) extra += "MINPV\n " + num(v) + " /\n\n";
    if (kind == 2) extra += "MINPORV\n " + num(v) + " /\n\n";
    const bool withPinch = r.coin();
    const double pth = rlen(r, 0.0001, 2.0), pgap = rlen(r, 0.5, 50);
    const bool nogap = r.coin(), pall = r.coin(), mall = r.coin(), gapDefault = r.coin();
    if (withPinch) extra += "PINCH\n " + num(pth) + " " + (nogap ? "NOGAP" : "GAP") + " " + (gapDefault ? std::string("1*") : num(pgap)) + " " + (pall ? "ALL" : "TOPBOT") + " " + (mall ? "ALL" : "TOP") + " /\n\n";
    bool ok = true; std::string why;
    try {
        EclipseGrid g(parse(body + extra));
        const double L = lengthSI(unit);
        // MINPV state from the deck
        if ((kind == 0) != (g.getMinpvMode() == MinpvMode::Inactive)) { ok = false; why = "MinpvMode does not follow the presence of MINPV/MINPORV"; }
        if (ok && g.getMinpvVector().size() != (size_t) n) { ok = false; why = "getMinpvVector() size"; }
        for (int gi = 0; gi < n && ok; ++gi) {
            const double m = g.getMinpvVector()[gi];
            if (kind == 0 ? m != 0.0 : !(m == g.getMinpvVector()[0] && (v == 0.0 ? m == 0.0 : m > 0.0) && (unit != 0 || close(m, v, 1e-14)))) { ok = false; why = "getMinpvVector()[" + std::to_string(gi) + "] = " + num(m); }
        }
        // PINCH
        if (ok && g.isPinchActive() != withPinch) { ok = false; why = "isPinchActive"; }
        if (ok && withPinch) {
            if (!close(g.getPinchThresholdThickness(), pth * L, 1e-14)) { ok = false; why = "PINCH threshold " + num(g.getPinchThresholdThickness()); }
            else if (g.getPinchGapMode() != (nogap ? PinchMode::NOGAP : PinchMode::GAP)) { ok = false; why = "PINCH item 2 (GAP/NOGAP)"; }
            else if (g.getPinchOption() != (pall ? PinchMode::ALL : PinchMode::TOPBOT)) { ok = false; why = "PINCH item 4 (TOPBOT/ALL)"; }
            else if (g.getMultzOption() != (mall ? PinchMode::ALL : PinchMode::TOP)) { ok = false; why = "PINCH item 5 (TOP/ALL)"; }
            else if (gapDefault ? !(g.getPinchMaxEmptyGap() >= 1e19) : !close(g.getPinchMaxEmptyGap(), pgap * L, 1e-14)) { ok = false; why = "PINCH item 3 (max empty gap) " + num(g.getPinchMaxEmptyGap()); }
        }
        if (ok && !withPinch && (g.getPinchGapMode() != PinchMode::GAP || g.getPinchOption() != PinchMode::TOPBOT || g.getMultzOption() != PinchMode::TOP)) { ok = false; why = "PINCH defaults"; }
        // the rule, cell by cell, thresholds hit exactly / one ulp below / above; evaluated on the state
        // the deck gives and again after setMINPVV
        std::vector<int> mask(n);
        long removed = 0;
        auto checkRule = [&]() {
            const V vec = g.getMinpvVector();
            const bool inUse = g.getMinpvMode() != MinpvMode::Inactive;
            removed = 0;
            for (int gi = 0; gi < n && ok; ++gi) {
                const int c = r.range(0, 5);
                const double m = vec[gi];
                const double p = c == 0 ? m : c == 1 ? std::nextafter(m, -1.0) : c == 2 ? std::nextafter(m, 1e300) : c == 3 ? 0.0 : rlen(r, 0, 6000);
                auto ijk = g.getIJK(gi);
                const bool a = g.cellActiveAfterMINPV(ijk[0], ijk[1], ijk[2], p);
                const bool expect = act[gi] > 0 && (!inUse || p >= m);
                if (a != expect) { ok = false; why = "cellActiveAfterMINPV(g=" + std::to_string(gi) + ", porv=" + num(p) + ") = " + std::to_string(a) + " with ACTNUM=" + std::to_string(act[gi]) + " minpv=" + num(m) + (inUse ? " (in use)" : " (not in use)"); }
                mask[gi] = a ? act[gi] : 0;
                removed += act[gi] > 0 && !a;
                st[inUse ? "minpv.inuse.inactive_cells" : "minpv.unused.inactive_cells"] += act[gi] <= 0;
            }
        };
        if (ok) checkRule();
        // setMINPVV
        if (ok && r.coin()) {
            V bad(n + 1, 1.0);
            const V before = g.getMinpvVector(); const MinpvMode mb = g.getMinpvMode();
            bool threw = false;
            try { g.setMINPVV(bad); } catch (const std::exception&) { threw = true; }
            if (!threw) { ok = false; why = "setMINPVV accepted a vector of the wrong size"; }
            else if (g.getMinpvVector() != before || g.getMinpvMode() != mb) { ok = false; why = "failed setMINPVV modified the object"; }
            V mv(n); for (auto& x : mv) x = r.coin(1, 6) ? 0.0 : rlen(r, 1, 5000);
            if (ok) { g.setMINPVV(mv); if (g.getMinpvVector() != mv || g.getMinpvMode() != MinpvMode::EclSTD) { ok = false; why = "setMINPVV did not install the vector"; } }
            st["minpv.setMINPVV"]++;
            if (ok) checkRule();
        }
        const V vec = g.getMinpvVector();
        const bool inUse = g.getMinpvMode() != MinpvMode::Inactive;
        st["minpv.cells"] += n; st["minpv.removed"] += removed;
        if (ok) {
            bool threw = false;
            try { (void) g.cellActiveAfterMINPV(nx, 0, 0, 1.0); } catch (const std::exception&) { threw = true; }
            if (!threw) { ok = false; why = "cellActiveAfterMINPV accepted i = nx"; }
        }
        // deactivation: activity by the rule, geometry of every cell bit-identical
        if (ok) {
            if (r.coin()) (void) g.activeVolume();         // with and without a filled volume cache
            EclipseGrid h(g);
            h.resetACTNUM(mask);
            long na = 0;
            for (int gi = 0; gi < n && ok; ++gi) {
                na += mask[gi] > 0;
                if (h.cellActive(gi) != (mask[gi] > 0)) { ok = false; why = "activity after the pass, cell " + std::to_string(gi); break; }
                CellQ a = query(g, gi), c = query(h, gi);
                if (!sameBits(a.vol, c.vol) || !sameBits(a.depth, c.depth) || !sameBits(a.thick, c.thick)) { ok = false; why = "deactivation changed volume/depth/thickness of cell " + std::to_string(gi) + " (" + num(a.vol) + " vs " + num(c.vol) + ")"; }
                for (int q = 0; q < 3 && ok; ++q) if (!sameBits(a.ctr[q], c.ctr[q]) || !sameBits(a.dims[q], c.dims[q])) { ok = false; why = "deactivation changed centre/dims of cell " + std::to_string(gi); }
            }
            if (ok && (h.getCOORD() != g.getCOORD() || h.getZCORN() != g.getZCORN())) { ok = false; why = "deactivation changed COORD/ZCORN"; }
            if (ok && (long) h.getNumActive() != na) { ok = false; why = "getNumActive after the pass"; }
            if (ok && h.getNumActive() > g.getNumActive()) { ok = false; why = "a MINPV pass activated cells"; }
            if (ok) {
                const auto& av = h.activeVolume();
                for (size_t a = 0; a < av.size() && ok; ++a) if (!sameBits(av[a], g.getCellVolume(h.getGlobalIndex(a)))) { ok = false; why = "activeVolume() after the pass"; }
            }
            // equal(): a copy is equal, a different mask / MINPV vector is not
            if (ok && !g.equal(EclipseGrid(g))) { ok = false; why = "copy not equal()"; }
            if (ok && na != (long) g.getNumActive() && (g.equal(h) || h.equal(g))) { ok = false; why = "equal() ignores ACTNUM"; }
            if (ok && inUse) {
                EclipseGrid h2(g); V mv = vec; mv[r.below(n)] += 1.0; h2.setMINPVV(mv);
                if (g.equal(h2) || h2.equal(g)) { ok = false; why = "equal() ignores the MINPV vector"; }
            }
        }
    } catch (const std::exception& e) { ok = false; why = std::string("exception ") + (hard ? "(corner-point deck)" : "(DXV deck)"); }
    if (ok) log.ok(); else log.fail("minpv", std::string(unitKw(unit)) + " " + dims3(nx, ny, nz) + " " + why + " deck-extra=" + vh::hex(extra));
    st["minpv"]++;
}

// P9: RADIAL grids
void propRadial(vh::PropLog& log, std::map<std::string, long>& st, vh::Rng& r, int maxn, const std::string& tmp, long& fileNo, bool& radialReloadReported) {
    Radial q = genRadial(r, maxn);
    bool ok = true; std::string why;
    try {
        EclipseGrid g(parse(deckRadial(q)));
        const double L = lengthSI(q.unit);
        V ri(q.nx + 1); ri[0] = q.inrad; for (int i = 0; i < q.nx; ++i) ri[i + 1] = ri[i] + q.drv[i];
        double total = 0; for (double t : q.dth) total += t;
        V layer(q.nz, 0.0);
        double scaleXY = ri[q.nx] * L;
        for (size_t gi = 0; gi < g.getCartesianSize() && ok; ++gi) {
            auto ijk = g.getIJK(gi);
            const double dz = q.dz[gi];
            const double ve = M_PI * (ri[ijk[0] + 1] * ri[ijk[0] + 1] - ri[ijk[0]] * ri[ijk[0]]) * q.dth[ijk[1]] / 360.0 * dz * L * L * L;
            const double v = g.getCellVolume(gi);
            if (!(v > 0)) { ok = false; why = "volume not positive"; }
            else if (!close(v, ve, 1e-11)) { ok = false; why = "cell volume " + num(v) + " != pi (ro^2-ri^2) dtheta/360 dz = " + num(ve); }
            layer[ijk[2]] += v;
            // corners lie on the circles of radius ri / ro at the sector angles
            for (int c = 0; c < 8 && ok; ++c) {
                auto p = g.getCornerPos(ijk[0], ijk[1], ijk[2], c);
                const double rr = ri[ijk[0] + (c & 1)] * L;
                double tj = 0; for (int j = 0; j < ijk[1] + ((c >> 1) & 1); ++j) tj += q.dth[j];
                const double t = M_PI * (90 - tj) / 180;
                if (!close(p[0], rr * std::cos(t), 0, 1e-11 * scaleXY) || !close(p[1], rr * std::sin(t), 0, 1e-11 * scaleXY)) { ok = false; why = "corner " + std::to_string(c) + " not on its circle/ray"; }
            }
            if (ok && !close(g.getCellThickness(gi), dz * L, 1e-11)) { ok = false; why = "thickness != DZ"; }
            if (!ok) why += " cell=" + std::to_string(gi);
        }
        if (ok && !q.useDz) for (int k = 0; k < q.nz && ok; ++k) {
            const double ve = M_PI * (ri[q.nx] * ri[q.nx] - ri[0] * ri[0]) * total / 360.0 * q.dzv[k] * L * L * L;
            if (!close(layer[k], ve, 1e-10)) { ok = false; why = "layer " + std::to_string(k) + " total " + num(layer[k]) + " != annulus sector " + num(ve); }
        }
        if (ok && g.circle() != q.circle) { ok = false; why = "circle()"; }
        // activeVolume() (OpenMP loop, radial branch) == getCellVolume
        if (ok) {
            EclipseGrid h(g);
            const auto& av = h.activeVolume();
            if (av.size() != h.getNumActive()) { ok = false; why = "activeVolume size"; }
            for (size_t a = 0; a < av.size() && ok; ++a) if (!sameBits(av[a], g.getCellVolume(h.getGlobalIndex(a)))) { ok = false; why = "activeVolume()[a] != getCellVolume(global(a))"; }
        }
        // additivity under refinement: every ring, sector and layer cut in two
        if (ok) {
            Radial f = q; f.circle = false; f.useDz = true;
            f.nx = 2 * q.nx; f.ny = 2 * q.ny; f.nz = 2 * q.nz;
            f.drv.clear(); f.dth.clear(); f.dz.clear(); f.tops.clear();
            const double fr = 0.25 + 0.5 * r.unit();
            for (double d : q.drv) { f.drv.push_back(d * fr); f.drv.push_back(d - d * fr); }
            for (double d : q.dth) { f.dth.push_back(d * fr); f.dth.push_back(d - d * fr); }
            for (int j = 0; j < f.ny; ++j) for (int i = 0; i < f.nx; ++i) f.tops.push_back(q.tops[i / 2 + (j / 2) * q.nx]);
            for (int k = 0; k < f.nz; ++k) for (int j = 0; j < f.ny; ++j) for (int i = 0; i < f.nx; ++i) {
                const double d = q.dz[i / 2 + (j / 2) * q.nx + (k / 2) * q.nx * q.ny];
                f.dz.push_back(k % 2 == 0 ? d * fr : d - d * fr);
            }
            EclipseGrid gf(parse(deckRadial(f)));
            for (size_t gi = 0; gi < g.getCartesianSize() && ok; ++gi) {
                auto ijk = g.getIJK(gi);
                double s = 0;
                for (int c = 0; c < 8; ++c) s += gf.getCellVolume(2 * ijk[0] + (c & 1), 2 * ijk[1] + ((c >> 1) & 1), 2 * ijk[2] + ((c >> 2) & 1));
                if (!close(s, g.getCellVolume(gi), 1e-10)) { ok = false; why = "volumes of the 8 sub-cells add up to " + num(s) + ", parent " + num(g.getCellVolume(gi)) + " cell=" + std::to_string(gi); }
            }
            st["radial.refined"]++;
        }
        // EGRID round trip: arrays and activity come back; the file has no radial marker, the
        // reloaded object computes hexahedron volumes (chords instead of arcs) - counted, not failed
        if (ok) {
            const std::string p1 = tmp + "/R" + std::to_string(fileNo++) + ".EGRID";
            g.save(p1, false, {}, unitSys(q.unit));
            EclipseGrid h(p1);
            if (h.getNXYZ() != g.getNXYZ() || h.getACTNUM() != g.getACTNUM()) { ok = false; why = "radial save/load: dims or ACTNUM"; }
            const auto& c1 = g.getCOORD(); const auto& c2 = h.getCOORD();
            const auto& z1 = g.getZCORN(); const auto& z2 = h.getZCORN();
            for (size_t n = 0; n < c1.size() && ok; ++n) if (!close(c1[n], c2[n], 2e-7, 1e-6 * scaleXY)) { ok = false; why = "radial save/load COORD[" + std::to_string(n) + "] " + num(c1[n]) + " vs " + num(c2[n]); }
            for (size_t n = 0; n < z1.size() && ok; ++n) if (!close(z1[n], z2[n], 2e-7, 1e-30)) { ok = false; why = "radial save/load ZCORN"; }
            double worst = 0, v0 = 0, v1 = 0;
            for (size_t gi = 0; gi < g.getCartesianSize(); ++gi) {
                worst = std::max(worst, std::fabs(h.getCellVolume(gi) / g.getCellVolume(gi) - 1.0));
                v0 += g.getCellVolume(gi); v1 += h.getCellVolume(gi);
            }
            if (worst > 1e-3) st["radial.reload_volume_off_by_more_than_1e-3"]++;
            st["radial.reload_worst_rel_volume_error_ppm"] = std::max(st["radial.reload_worst_rel_volume_error_ppm"], (long) (worst * 1e6));
            // recorded finding (one stable key, reported once per run): the file carries no radial marker / radii,
            // the reloaded object computes hexahedron volumes (chords instead of arcs)
            if (ok && worst > 1e-5 && !radialReloadReported) {
                radialReloadReported = true;
                auto list = [](const V& v) { std::string t; for (double d : v) t += (t.empty() ? "" : ",") + num(d); return t; };
                log.fail("grid.radial.reload_geometry", std::string("RADIAL ") + unitKw(q.unit) + " DIMENS " + dims3(q.nx, q.ny, q.nz) + " INRAD " + num(q.inrad) + " DRV " + list(q.drv)
                         + " DTHETAV " + list(q.dth) + (q.useDz ? " DZ " + list(q.dz) : " DZV " + list(q.dzv)) + " TOPS " + list(q.tops) + (q.circle ? " CIRCLE" : "")
                         + ": total volume in memory " + num(v0) + ", after save + load " + num(v1) + " (ratio " + num(v1 / v0) + ", worst cell off by " + num(worst * 100) + " %)");
            }
        }
        st["radial.cells"] += (long) g.getCartesianSize();
    } catch (const std::exception& e) { ok = false; why = "exception"; }
    if (ok) log.ok(); else log.fail("radial", std::string(unitKw(q.unit)) + " " + dims3(q.nx, q.ny, q.nz) + " " + why + " inrad=" + num(q.inrad) + " drv=" + hexV(q.drv) + " dthetav=" + hexV(q.dth) + " dz=" + hexV(q.dz) + " tops=" + hexV(q.tops));
    st["radial"]++;
}

// P10: GRIDUNIT: the same numbers under "deck unit A + GRIDUNIT B" and under "deck unit B" give the same grid
void propGridunit(vh::PropLog& log, std::map<std::string, long>& st, vh::Rng& r, int maxn, const std::string& tmp, long& fileNo) {
    const int form = r.range(0, 2);       // corner-point / DXV+TOPS / radial
    const int unit = r.range(0, 2), gu = r.range(0, 2);
    bool ok = true; std::string why;
    const std::string guKw = std::string("GRIDUNIT\n ") + gridUnitName(gu) + (r.coin(1, 4) ? " MAP" : "") + " /\n\n";
    try {
        std::unique_ptr<EclipseGrid> a, b;
        if (form == 0) {
            CP cp = genHardCP(r, maxn, &st);
            const std::string body = kwData("COORD", cp.coord) + kwData("ZCORN", cp.zcorn) + kwInt("ACTNUM", cp.actnum);
            a = std::make_unique<EclipseGrid>(parse(deckHead(cp.nx, cp.ny, cp.nz, unit) + body + guKw));
            b = std::make_unique<EclipseGrid>(parse(deckHead(cp.nx, cp.ny, cp.nz, gu) + body));
        } else if (form == 1) {
            Block bl = genBlock(r, maxn, r.coin(), false);
            bl.unit = unit; a = std::make_unique<EclipseGrid>(parse(deckDTops(bl, r.coin(), guKw)));
            bl.unit = gu;   b = std::make_unique<EclipseGrid>(parse(deckDTops(bl, true)));
        } else {
            Radial q = genRadial(r, maxn);
            q.unit = unit; a = std::make_unique<EclipseGrid>(parse(deckRadial(q, guKw)));
            q.unit = gu;   b = std::make_unique<EclipseGrid>(parse(deckRadial(q)));
        }
        if (a->getNXYZ() != b->getNXYZ() || a->getACTNUM() != b->getACTNUM()) { ok = false; why = "dims/ACTNUM"; }
        const auto& c1 = a->getCOORD(); const auto& c2 = b->getCOORD();
        const auto& z1 = a->getZCORN(); const auto& z2 = b->getZCORN();
        double ext = 0; for (double c : c2) ext = std::max(ext, std::fabs(c));
        for (size_t n = 0; n < c1.size() && ok; ++n) if (!close(c1[n], c2[n], 1e-14, 1e-14 * ext)) { ok = false; why = "COORD[" + std::to_string(n) + "] " + num(c1[n]) + " vs " + num(c2[n]); }
        for (size_t n = 0; n < z1.size() && ok; ++n) if (!close(z1[n], z2[n], 1e-14)) { ok = false; why = "ZCORN[" + std::to_string(n) + "] " + num(z1[n]) + " vs " + num(z2[n]); }
        for (size_t gi = 0; gi < a->getCartesianSize() && ok; ++gi) {
            CellQ p = query(*a, gi), q = query(*b, gi);
            const double tol = 1e-9 * (1 + ext / std::max(1e-9, std::min({ p.dims[0], p.dims[1] })));
            if (!close(p.vol, q.vol, tol, 1e-13 * ext * ext * 30)) { ok = false; why = "cell volume " + num(p.vol) + " vs " + num(q.vol) + " cell=" + std::to_string(gi); }
            if (!close(p.depth, q.depth, 1e-13)) { ok = false; why = "cell depth cell=" + std::to_string(gi); }
            if (!close(p.thick, q.thick, 1e-9, 1e-13 * ext)) { ok = false; why = "thickness cell=" + std::to_string(gi); }
        }
        if (ok && a->getZcornFixed() != b->getZcornFixed()) { ok = false; why = "zcorn_fixed"; }
        // the GRIDUNIT grid saved and loaded back is the same grid (single precision of the file)
        if (ok) {
            const int su = r.range(0, 2);
            const std::string p1 = tmp + "/G" + std::to_string(fileNo++) + ".EGRID";
            a->save(p1, false, {}, unitSys(su));
            EclipseGrid h(p1);
            const auto& c3 = h.getCOORD(); const auto& z3 = h.getZCORN();
            if (c3.size() != c1.size() || z3.size() != z1.size()) { ok = false; why = "save/load array sizes"; }
            for (size_t n = 0; n < c1.size() && ok; ++n) if (!close(c1[n], c3[n], 2e-7, 2e-7 * ext)) { ok = false; why = "save/load of the GRIDUNIT grid: COORD[" + std::to_string(n) + "] " + num(c1[n]) + " vs " + num(c3[n]); }
            for (size_t n = 0; n < z1.size() && ok; ++n) if (!close(z1[n], z3[n], 2e-7, 1e-30)) { ok = false; why = "save/load of the GRIDUNIT grid: ZCORN[" + std::to_string(n) + "] " + num(z1[n]) + " vs " + num(z3[n]); }
            if (ok && h.getACTNUM() != a->getACTNUM()) { ok = false; why = "save/load ACTNUM"; }
        }
    } catch (const std::exception& e) { ok = false; why = "exception"; }
    if (ok) log.ok(); else log.fail("gridunit", std::string("form=") + std::to_string(form) + " deck=" + unitKw(unit) + " GRIDUNIT=" + gridUnitName(gu) + " " + why);
    st["gridunit"]++; st[std::string("gridunit.form") + std::to_string(form)]++;
}

// P11: MapAxes transforms are mutually inverse; a grid's MapAxes survives the EGRID round trip as a map
void propMapaxes(vh::PropLog& log, std::map<std::string, long>& st, vh::Rng& r, const std::string& tmp, long& fileNo) {
    const double x2 = rlen(r, -1e5, 1e6), y2 = rlen(r, -1e5, 1e6);
    const double ang = r.unit() * 6.283185307179586, skew = r.coin(1, 3) ? (r.unit() - 0.5) : 0.0;
    const double lx = rlen(r, 1, 1000), ly = rlen(r, 1, 1000);
    V ma = { x2 + ly * std::cos(ang + 1.5707963267948966 + skew), y2 + ly * std::sin(ang + 1.5707963267948966 + skew), x2, y2, x2 + lx * std::cos(ang), y2 + lx * std::sin(ang) };
    const int mu = r.range(0, 3);
    const char* names[] = { "METRES", "FEET", "CM" };
    Block b = genBlock(r, 2, true, false);
    std::string extra = (mu < 3 ? std::string("MAPUNITS\n ") + names[mu] + " /\n\n" : std::string()) + kwData("MAPAXES", ma);
    bool ok = true; std::string why;
    try {
        EclipseGrid g(parse(deckDTops(b, true, extra)));
        const MapAxes& m = g.getMapAxes().value();
        const double scale = std::fabs(x2) + std::fabs(y2) + 1e4;
        for (int t = 0; t < 6 && ok; ++t) {
            const double x = rlen(r, -5000, 5000), y = rlen(r, -5000, 5000);
            double tx = x, ty = y; m.transform(tx, ty); m.inv_transform(tx, ty);
            if (!close(tx, x, 0, 1e-9 * scale) || !close(ty, y, 0, 1e-9 * scale)) { ok = false; why = "inv_transform(transform(p)) != p: " + num(tx) + "," + num(ty) + " vs " + num(x) + "," + num(y); }
            tx = x; ty = y; m.inv_transform(tx, ty); m.transform(tx, ty);
            if (ok && (!close(tx, x, 0, 1e-9 * scale) || !close(ty, y, 0, 1e-9 * scale))) { ok = false; why = "transform(inv_transform(p)) != p"; }
        }
        // unit vectors have length 1 (skew or not): |T(1,0) - T(0,0)| = 1
        if (ok) {
            double ax = 0, ay = 0, bx = 1, by = 0, cx = 0, cy = 1;
            m.transform(ax, ay); m.transform(bx, by); m.transform(cx, cy);
            if (!close(std::hypot(bx - ax, by - ay), 1.0, 1e-9) || !close(std::hypot(cx - ax, cy - ay), 1.0, 1e-9)) { ok = false; why = "transform does not preserve lengths along the axes"; }
        }
        // round trip: same MapAxes (operator==), and as a map equal to single precision of the stored points
        const std::string p1 = tmp + "/M" + std::to_string(fileNo++) + ".EGRID";
        g.save(p1, false, {}, unitSys(b.unit));
        EclipseGrid h(p1);
        if (ok && !(h.getMapAxes().has_value() && h.getMapAxes().value() == m)) { ok = false; why = "MapAxes after reload != MapAxes before"; }
        if (ok && h.getMapAxes()->mapunits() != m.mapunits()) { ok = false; why = "MAPUNITS after reload"; }
        if (ok) {
            MapAxes viaFloat = mu < 3 ? MapAxes(std::string(names[mu]), (float) ma[0], (float) ma[1], (float) ma[2], (float) ma[3], (float) ma[4], (float) ma[5])
                                      : MapAxes((float) ma[0], (float) ma[1], (float) ma[2], (float) ma[3], (float) ma[4], (float) ma[5]);
            for (int t = 0; t < 4 && ok; ++t) {
                const double x = rlen(r, -5000, 5000), y = rlen(r, -5000, 5000);
                double ax = x, ay = y, bx = x, by = y;
                h.getMapAxes()->transform(ax, ay); viaFloat.transform(bx, by);
                if (!sameBits(ax, bx) || !sameBits(ay, by)) { ok = false; why = "reloaded MapAxes transforms differently from MapAxes(float(MAPAXES))"; }
            }
        }
    } catch (const std::exception& e) { ok = false; why = "exception"; }
    if (ok) log.ok(); else log.fail("mapaxes", why + " mapaxes=" + hexV(ma) + " mapunits=" + (mu < 3 ? names[mu] : "-"));
    st["mapaxes"]++;
}

// P12: hard corner-point grids: exact volumes (also zero), index maps, cell identities for distorted cells
void propHardCP(vh::PropLog& log, std::map<std::string, long>& st, vh::Rng& r, int maxn, const std::string& tmp, long& fileNo) {
    CP cp = genHardCP(r, maxn, &st);
    bool ok = true; std::string why;
    try {
        EclipseGrid g(std::array<int, 3>{ cp.nx, cp.ny, cp.nz }, cp.coord, cp.zcorn, cp.actnum.data());
        if (g.getZcornFixed() != 0) { ok = false; why = "fixupZCORN adjusted a monotone grid"; }
        size_t nact = 0;
        const double ext = 2000;
        for (size_t gi = 0; gi < g.getCartesianSize() && ok; ++gi) {
            A8 X, Y, Z; corners(g, gi, X, Y, Z);
            A8 X2, Y2, Z2; ownCorners(g.getNXYZ(), cp.coord, cp.zcorn, g.getIJK(gi)[0], g.getIJK(gi)[1], g.getIJK(gi)[2], X2, Y2, Z2);
            for (int c = 0; c < 8 && ok; ++c) if (!close(X[c], X2[c], 0, 1e-9 * ext) || !close(Y[c], Y2[c], 0, 1e-9 * ext) || !sameBits(Z[c], Z2[c])) { ok = false; why = "getCornerPos differs from the independent corner extraction"; }
            const double v = g.getCellVolume(gi), ve = polyVolume(X2, Y2, Z2);
            const double cellScale = 120.0 * 120.0 * 25.0;
            if (!(v >= 0)) { ok = false; why = "negative volume"; }
            else if (!close(v, ve, 1e-8, 1e-9 * cellScale)) { ok = false; why = "volume " + num(v) + " != exact polyhedron volume " + num(ve); }
            CellQ q = query(g, gi);
            double zs = 0; for (double z : Z) zs += z;
            if (ok && !close(q.depth, zs / 8, 1e-13)) { ok = false; why = "depth != mean corner depth"; }
            if (ok && !close(q.depth, q.ctr[2], 1e-13)) { ok = false; why = "depth != centre z"; }
            if (ok && !sameBits(q.thick, q.dims[2])) { ok = false; why = "thickness != dims[2]"; }
            if (ok && !(q.thick >= 0)) { ok = false; why = "negative thickness"; }
            // thickness adds up over the column against the pillar-mean depth of top and bottom surfaces
            if (ok && g.getIJK(gi)[2] + 1 < cp.nz) {
                CellQ below = query(g, gi + size_t(cp.nx) * cp.ny);
                if (!close(below.depth - q.depth, (q.thick + below.thick) / 2, 0, 1e-9 * 100)) { ok = false; why = "depth difference of stacked cells != mean thickness"; }
            }
            const bool active = cp.actnum[gi] > 0;
            nact += active;
            if (ok && g.cellActive(gi) != active) { ok = false; why = "cellActive"; }
            if (ok && active && g.getGlobalIndex(g.activeIndex(gi)) != gi) { ok = false; why = "global(active(g)) != g"; }
            if (!ok) why += " cell=" + std::to_string(gi);
        }
        if (ok && g.getNumActive() != nact) { ok = false; why = "nactive"; }
        // save / load keeps activity and the (possibly zero) volumes
        if (ok) {
            const bool formatted = r.coin();
            const std::string p1 = tmp + "/H" + std::to_string(fileNo++) + (formatted ? ".FEGRID" : ".EGRID");
            g.save(p1, formatted, {}, unitSys(r.range(0, 2)));
            EclipseGrid h(p1);
            if (h.getACTNUM() != g.getACTNUM() || h.getActiveMap() != g.getActiveMap()) { ok = false; why = "ACTNUM / active map after reload"; }
            for (size_t gi = 0; gi < g.getCartesianSize() && ok; ++gi) {
                const double a = g.getCellVolume(gi), c = h.getCellVolume(gi);
                if (!close(a, c, 1e-3, 120.0 * 120.0 * 3000 * 4e-7)) { ok = false; why = "volume after reload " + num(a) + " vs " + num(c) + " cell=" + std::to_string(gi); }
            }
        }
        st["hardcp.cells"] += (long) g.getCartesianSize();
    } catch (const std::exception& e) { ok = false; why = std::string("exception: ") + e.what(); }
    if (ok) log.ok(); else log.fail("hardcp", dims3(cp.nx, cp.ny, cp.nz) + " " + why + " coord=" + hexV(cp.coord) + " zcorn=" + hexV(cp.zcorn) + " actnum=" + joinI(cp.actnum));
    st["hardcp"]++;
}

} // namespace


// ---- fourth round: TOPS for several layers, numerical-aquifer cells, bottom normal, validity ----
struct TopsCase {
    Block b; V dzDeck; V topsDeck;                 // deck units
    std::string text; bool inclined = false;
    long snapped = 0, gaps = 0, overlaps = 0, nearTol = 0;
};

// TOPS with n0 values: the first layer as in `b`, lower layers per layer/cell one of: exactly the
// stack (in deck units), the stack +- less than the tolerance, +- just around the tolerance, a
// real gap, an overlap.  n0: nx*ny (first layer only), whole layers, a partial layer, all cells,
// more than all cells (the parser accepts it), fewer than nx*ny (throws).
TopsCase genTops(vh::Rng& r, int maxn, bool allowGaps, bool allowShort) {
    TopsCase c;
    c.b = genBlock(r, maxn, r.coin(), r.coin());
    Block& b = c.b;
    if (r.coin(1, 3)) b.nz = std::max(b.nz, 3);
    if ((int) b.dzv.size() < b.nz) { while ((int) b.dzv.size() < b.nz) b.dzv.push_back(rlen(r, 0.5, 30)); b.dz.clear(); for (int k = 0; k < b.nz; ++k) for (int n = 0; n < b.nx * b.ny; ++n) b.dz.push_back(r.coin() ? b.dzv[k] : rlen(r, 0.5, 30)); }
    const int area = b.nx * b.ny, vol = area * b.nz;
    const double L = unitSys(b.unit).to_si(UnitSystem::measure::length, 1.0);
    c.dzDeck = b.dz;
    int n0;
    switch (r.range(0, allowShort ? 6 : 5)) {
    case 0: n0 = area; break;
    case 1: n0 = vol; break;
    case 2: n0 = area * r.range(1, b.nz); break;
    case 3: n0 = area + (int) r.below(vol - area + 1); break;
    case 4: n0 = vol; break;
    case 5: n0 = vol + r.range(1, 3); break;
    default: n0 = (int) r.below(area); break;          // too short: throws
    }
    V t(std::max(n0, vol) + 4, 0.0);
    for (int n = 0; n < area; ++n) t[n] = b.tops[n];
    const int layerMode = r.range(0, 3);               // 0: all stacked, 1: per layer, 2: per cell, 3: mostly snapped
    std::vector<int> lm(b.nz + 2, 0);
    for (auto& m : lm) m = r.range(0, allowGaps ? 5 : 2);
    for (int n = area; n < (int) t.size(); ++n) {
        const double stack = n - area < vol ? t[n - area] + b.dz[n - area] : t[n - area] + 1.0;
        int mode = layerMode == 0 ? 0 : layerMode == 1 ? lm[std::min(n / area, b.nz + 1)] : layerMode == 2 ? r.range(0, allowGaps ? 5 : 2) : (r.coin(1, 6) ? r.range(0, allowGaps ? 5 : 2) : 0);
        switch (mode) {
        case 0: t[n] = stack; ++c.snapped; break;
        case 1: t[n] = stack + (r.unit() - 0.5) * 1.6e-6 / L; ++c.snapped; break;             // |.| < 0.8e-6 m
        case 2: t[n] = stack + (r.coin() ? 1 : -1) * (r.coin() ? 0.99e-6 : 0.9999999e-6) / L; ++c.nearTol; break;   // just inside
        case 3: t[n] = stack + (r.coin() ? 1 : -1) * (r.coin() ? 1.01e-6 : 1.0000001e-6) / L; ++c.nearTol; ++c.gaps; break;   // just outside
        case 4: t[n] = stack + rlen(r, 0.01, 25); ++c.gaps; break;
        default: t[n] = stack - rlen(r, 0.01, 0.45) * (n - area < vol ? b.dz[n - area] : 1.0); ++c.overlaps; break;
        }
    }
    t.resize(n0);
    c.topsDeck = t;
    V dx = scatter(b, 0), dy = scatter(b, 1);
    if (r.coin(1, 4)) { for (auto& x : dx) x *= 1.0 + 0.2 * r.unit(); for (auto& y : dy) y *= 1.0 + 0.2 * r.unit(); c.inclined = true; }
    c.text = deckHead(b.nx, b.ny, b.nz, b.unit) + kwData("DX", dx) + kwData("DY", dy) + kwData("DZ", b.dz) + kwData("TOPS", t);
    return c;
}

void emitTops(vh::Sink& sink, vh::Rng& r, int maxn) {
    TopsCase c = genTops(r, maxn, true, true);
    const Block& b = c.b;
    Deck deck = parse(c.text);
    const V DZ = deck["DZ"].back().getSIDoubleData();
    const V IN = deck["TOPS"].back().getSIDoubleData();
    const std::array<int, 3> dims{ b.nx, b.ny, b.nz };
    std::string a;
    try { a = hexV(EclipseGrid::createTOPSVector(dims, DZ, deck)); } catch (const std::exception&) { a = "err"; }
    sink.emit("gridt.tops " + dims3(b.nx, b.ny, b.nz) + " " + std::to_string(IN.size()) + " " + hexV(DZ) + " " + hexV(IN), a);
    sink.count("tops"); sink.count(a == "err" ? "tops.throws" : IN.size() == size_t(b.nx * b.ny) ? "tops.first_layer_only" : IN.size() >= DZ.size() ? "tops.all_layers" : "tops.some_layers");
    sink.count("tops.values.snapped", c.snapped); sink.count("tops.values.gap", c.gaps); sink.count("tops.values.overlap", c.overlaps); sink.count("tops.values.near_tolerance", c.nearTol);
    std::string g2;
    try {
        EclipseGrid g(deck);
        g2 = hexV(g.getCOORD()) + " " + hexV(g.getZCORN()) + " " + std::to_string(g.getZcornFixed());
    } catch (const std::exception&) { g2 = "err"; }
    sink.emit("gridt.deck " + dims3(b.nx, b.ny, b.nz) + " " + std::to_string(IN.size()) + " " + hexV(deck["DX"].back().getSIDoubleData()) + " " + hexV(deck["DY"].back().getSIDoubleData())
              + " " + hexV(DZ) + " " + hexV(IN), g2);
    sink.count("tops.deck");
}

struct AquRec { int i, j, k; bool hasDepth; double depth; };
struct AquCase { Block b; std::vector<int> act; std::vector<AquRec> recs; std::string text, twinText; };

AquCase genAqu(vh::Rng& r, int maxn) {
    AquCase c;
    c.b = genBlock(r, maxn, r.coin(), false);
    const Block& b = c.b;
    c.act = genActnum(r, b.nx * b.ny * b.nz);
    const int nrec = r.range(1, 5);
    for (int n = 0; n < nrec; ++n) {
        AquRec q;
        if (n > 0 && r.coin(1, 3)) { q = c.recs[r.below(c.recs.size())]; }            // the same cell again
        else { q.i = r.range(0, b.nx - 1); q.j = r.range(0, b.ny - 1); q.k = r.range(0, b.nz - 1); }
        q.hasDepth = r.coin(2, 3); q.depth = rlen(r, 1000, 4000);
        c.recs.push_back(q);
    }
    std::ostringstream aq;
    const bool split = c.recs.size() > 1 && r.coin(1, 3);                                 // two AQUNUM keywords
    aq << "AQUNUM\n";
    for (size_t n = 0; n < c.recs.size(); ++n) {
        const AquRec& q = c.recs[n];
        if (split && n == c.recs.size() / 2) aq << "/\n\nAQUNUM\n";
        aq << " " << (n + 1) << " " << q.i + 1 << " " << q.j + 1 << " " << q.k + 1 << " 1000.0 100.0 0.25 100.0 " << (q.hasDepth ? num(q.depth) : std::string("1*")) << " /\n";
    }
    aq << "/\n\n";
    const bool withAct = r.coin(3, 4);
    c.twinText = deckDTops(b, true, withAct ? kwInt("ACTNUM", c.act) : std::string());
    c.text = deckDTops(b, true, (withAct ? kwInt("ACTNUM", c.act) : std::string()) + aq.str());
    if (!withAct) c.act.assign(c.act.size(), 1);
    return c;
}

std::string aquRecStr(const AquCase& c, const Deck& deck) {
    // the SI depth as the code reads it from the parsed deck
    std::string s; size_t n = 0;
    for (const auto* kw : deck.getKeywordList("AQUNUM"))
        for (const auto& rec : *kw) {
            const AquRec& q = c.recs[n++];
            const size_t g = q.i + c.b.nx * (q.j + q.k * c.b.ny);
            const auto& item = rec.getItem("DEPTH");
            if (!s.empty()) s += ",";
            s += std::to_string(g) + ":" + (item.defaultApplied(0) ? std::string("-") : vh::hexF64(item.getSIDouble(0)));
        }
    return s;
}

std::string actMapsStr(const EclipseGrid& g) {
    std::string a2g = g.getActiveMap().empty() ? "" : joinI(g.getActiveMap());
    return joinI(g.getACTNUM()) + "|" + std::to_string(g.getNumActive()) + "|" + g2aStr(g) + "|" + a2g;
}

V depthsOf(const EclipseGrid& g, bool byIJK = false) {
    V d;
    for (size_t gi = 0; gi < g.getCartesianSize(); ++gi) {
        if (byIJK) { const auto q = g.getIJK(gi); d.push_back(g.getCellDepth(q[0], q[1], q[2])); }
        else d.push_back(g.getCellDepth(gi));
    }
    return d;
}

void emitAqu(vh::Sink& sink, vh::Rng& r, int maxn) {
    AquCase c = genAqu(r, maxn);
    Deck deck = parse(c.text);
    EclipseGrid g(deck), twin(parse(c.twinText));
    const std::string recs = aquRecStr(c, deck);
    sink.emit("gridt.aq " + recs + " " + joinI(twin.getACTNUM()), actMapsStr(g));
    sink.emit("gridt.aqdepth " + recs + " " + hexV(depthsOf(twin)), hexV(depthsOf(g)));
    sink.emit("gridt.aqdepth " + recs + " " + hexV(depthsOf(twin, true)), hexV(depthsOf(g, true)));      // getCellDepth(i, j, k)
    sink.count("aqu"); sink.count("aqu.records", (long) c.recs.size());
    std::vector<int> cur = g.getACTNUM();
    for (int t = 0; t < 3; ++t) {
        std::vector<int> mask = t == 0 ? std::vector<int>(cur.size(), 0) : nextMask(r, cur);
        const int how = r.range(0, 2);
        if (how == 0) { g.resetACTNUM(mask); sink.emit("gridt.aq " + recs + " " + joinI(mask), actMapsStr(g)); }
        else if (how == 1) { EclipseGrid h(g, mask); sink.emit("gridt.aq " + recs + " " + joinI(mask), actMapsStr(h)); sink.emit("gridt.aqdepth " + recs + " " + hexV(depthsOf(twin)), hexV(depthsOf(h))); g = h; }
        else { V z = g.getZCORN(); EclipseGrid h(g, z.data(), mask); sink.emit("gridt.aq " + recs + " " + joinI(mask), actMapsStr(h)); g = h; }
        cur = g.getACTNUM();
        sink.count("aqu.reset");
    }
}

void emitNormal(vh::Sink& sink, vh::Rng& r, int maxn) {
    CP cp = genHardCP(r, maxn);
    EclipseGrid g(std::array<int, 3>{ cp.nx, cp.ny, cp.nz }, cp.coord, cp.zcorn, nullptr);
    for (int t = 0; t < 4; ++t) {
        const size_t gi = r.below(g.getCartesianSize());
        A8 X, Y, Z; corners(g, gi, X, Y, Z);
        const auto [cc, bc, nn] = g.getCellAndBottomCenterNormal(gi);
        std::string a;
        for (const auto& v : { cc, bc, nn }) for (double d : v) a += vh::hexF64(d);
        sink.emit("gridt.normal " + hexA(X) + " " + hexA(Y) + " " + hexA(Z), a);
        sink.count("normal");
    }
    // validity: ordinary, thin (around 1e-4 length units), and "infinite" (1e20 sentinel) cells
    for (int t = 0; t < 3; ++t) {
        const int unit = r.range(0, 2);
        const UnitSystem us = unitSys(unit);
        const double L = us.to_si(UnitSystem::measure::length, 1.0);
        const int kind = r.range(0, 3);
        std::unique_ptr<EclipseGrid> g2;
        if (kind == 1) {
            const double hs[4] = { 0.5e-4, 1.0e-4, 1.0000001e-4, 2e-4 };
            g2 = std::make_unique<EclipseGrid>(2, 1, 2, rlen(r, 1, 50), rlen(r, 1, 50), hs[r.range(0, 3)] * L, r.coin() ? 0.0 : rlen(r, 0, 3000));
        } else {
            CP q = genPlanarCP(r, 2, false, false, false);
            if (kind == 2) q.zcorn[r.below(q.zcorn.size())] = (r.coin() ? 1.0e20 : 0.9e20) * L;
            if (kind == 3) q.coord[r.below(q.coord.size())] = r.coin() ? -2.0e20 * L : 1e19 * L;
            g2 = std::make_unique<EclipseGrid>(std::array<int, 3>{ q.nx, q.ny, q.nz }, q.coord, q.zcorn, nullptr);
        }
        for (size_t gi = 0; gi < g2->getCartesianSize(); ++gi) {
            A8 X, Y, Z; corners(*g2, gi, X, Y, Z);
            const bool v = g2->isValidCellGeomtry(gi, us);
            sink.emit("gridt.valid " + vh::hexF64(us.to_si(UnitSystem::measure::length, 1.0e+20f)) + " " + vh::hexF64(us.to_si(UnitSystem::measure::length, 1.0e-4)) + " " + hexA(X) + " " + hexA(Y) + " " + hexA(Z),
                      v ? "1" : "0");
            sink.count(v ? "valid.yes" : "valid.no");
        }
    }
}

// When true, a DX/DY/DZ/TOPS deck whose TOPS keeps a gap / overlap of 1e-6 m or more between two
// layers is reported as a property violation under the key `grid.tops.gap_ignored` (the real grid
// stacks the lower layer on the upper one; see design.d/C13.md, finding 11).  Off until the main
// session records the finding; the counters `tops.gap_ignored*` in prop_stats.json are always kept.
constexpr bool kReportTopsGap = true;

void propTops(vh::PropLog& log, std::map<std::string, long>& st, vh::Rng& r, int maxn, bool& gapReported) {
    TopsCase c = genTops(r, maxn, true, true);
    const Block& b = c.b;
    const int area = b.nx * b.ny, vol = area * b.nz;
    Deck deck = parse(c.text);
    const V DZ = deck["DZ"].back().getSIDoubleData();
    const V IN = deck["TOPS"].back().getSIDoubleData();
    const V DX = deck["DX"].back().getSIDoubleData(), DY = deck["DY"].back().getSIDoubleData();
    const size_t n0 = IN.size();
    const std::string ctx = std::string(unitKw(b.unit)) + " " + dims3(b.nx, b.ny, b.nz) + " n0=" + std::to_string(n0) + " DZ=" + hexV(DZ) + " TOPS=" + hexV(IN);
    const double tol = 1e-6;
    bool ok = true; std::string why;
    st["tops"]++;
    // (A) the TOPS vector: given values honoured, layers without a value contiguous
    V T; bool threw = false;
    try { T = EclipseGrid::createTOPSVector({ b.nx, b.ny, b.nz }, DZ, deck); } catch (const std::exception&) { threw = true; }
    bool gridThrew = false;
    std::unique_ptr<EclipseGrid> g;
    try { g = std::make_unique<EclipseGrid>(deck); } catch (const std::exception&) { gridThrew = true; }
    if ((int) n0 < area) {
        st["tops.too_short"]++;
        if (!threw || !gridThrew) log.fail("tops.short", ctx + " fewer TOPS values than nx*ny accepted"); else log.ok();
        return;
    }
    if (threw || gridThrew) { log.fail("tops.throws", ctx + " a TOPS keyword covering the first layer was rejected"); return; }
    if ((int) T.size() != vol) { ok = false; why = "result has " + std::to_string(T.size()) + " entries"; }
    bool retained = false;            // some given value keeps a gap / overlap of >= tol
    bool overlap = false;             // ... an overlap (the given top lies above the bottom of the layer above)
    for (int t = 0; t < vol && ok; ++t) {
        if (t < area) { if (!sameBits(T[t], IN[t])) { ok = false; why = "first layer changed at " + std::to_string(t); } continue; }
        const double next = T[t - area] + DZ[t - area];
        if (t >= (int) n0) { if (!sameBits(T[t], next)) { ok = false; why = "layer without TOPS not contiguous with the layer above at " + std::to_string(t) + ": " + num(T[t]) + " vs " + num(next); } continue; }
        if (!(std::fabs(T[t] - IN[t]) < tol)) { ok = false; why = "given TOPS not honoured at " + std::to_string(t) + ": " + num(T[t]) + " for " + num(IN[t]); }
        else if (std::fabs(next - IN[t]) < tol) { if (!sameBits(T[t], next)) { ok = false; why = "given TOPS within the tolerance of the layer above but not made contiguous at " + std::to_string(t) + ": " + num(T[t]) + " vs " + num(next); } st["tops.snapped"]++; }
        else { if (!sameBits(T[t], IN[t])) { ok = false; why = "gap/overlap of " + num(IN[t] - next) + " not retained at " + std::to_string(t) + ": " + num(T[t]) + " for " + num(IN[t]); } retained = true; st["tops.retained"]++; if (IN[t] < next) overlap = true; }
    }
    if (!ok) { log.fail("tops.vector", ctx + " " + why); return; }
    log.ok();
    // (B) the grid built from the deck against an independent reference: per column the cell tops
    // are the first-layer value stacked with DZ wherever nothing else was (validly) given
    if (c.inclined) { st["tops.inclined_skipped"]++; return; }
    // overlapping layers have no consistent box description (the honouring ZCORN would be non-monotone and
    // be clamped by fixupZCORN): only the vector is checked for them
    if (overlap) { st["tops.overlap_decks_vector_only"]++; return; }
    V refTop(vol);
    for (int col = 0; col < area; ++col) {
        double z = IN[col];
        for (int k = 0; k < b.nz; ++k) {
            const int t = col + k * area;
            if (k > 0 && t < (int) n0 && !(std::fabs(z - IN[t]) < tol)) z = IN[t];       // a retained gap: the given value
            refTop[t] = z;
            z += DZ[t];
        }
    }
    const double scale = std::fabs(refTop[vol - 1]) + 1.0;
    long bad = 0; std::string firstBad;
    for (int t = 0; t < vol; ++t) {
        const auto ijk = g->getIJK(t);
        CellQ q = query(*g, t);
        const double dx = DX[t], dy = DY[t], dz = DZ[t];
        if (!close(q.vol, dx * dy * dz, 1e-9)) { ok = false; why = "volume != DX*DY*DZ at cell " + std::to_string(t); break; }
        if (!close(q.thick, dz, 1e-9, 1e-12 * scale)) { ok = false; why = "thickness != DZ at cell " + std::to_string(t); break; }
        if (!close(q.depth, refTop[t] + dz / 2, 0, 1e-11 * scale)) {
            if (!retained) { ok = false; why = "depth " + num(q.depth) + " != TOPS + DZ/2 = " + num(refTop[t] + dz / 2) + " at cell " + std::to_string(t); break; }
            if (bad++ == 0) firstBad = "cell (" + dims3(ijk[0], ijk[1], ijk[2]) + "): depth " + num(q.depth) + ", TOPS + DZ/2 = " + num(refTop[t] + dz / 2);
        }
        if (t < (int) n0 && !retained && !(std::fabs(g->getZCORN()[zind(b.nx, b.ny, ijk[0], ijk[1], ijk[2], 0)] - IN[t]) < tol)) { ok = false; why = "cell top differs from the given TOPS by 1e-6 m or more at cell " + std::to_string(t); break; }
        if (!retained && t >= area) {
            // contiguity in the geometry: top of (i,j,k) is bit-equal to the bottom of (i,j,k-1)
            for (int cc = 0; cc < 4; ++cc)
                if (!sameBits(g->getZCORN()[zind(b.nx, b.ny, ijk[0], ijk[1], ijk[2], cc)], g->getZCORN()[zind(b.nx, b.ny, ijk[0], ijk[1], ijk[2] - 1, cc + 4)])) { ok = false; why = "ZCORN not contiguous at cell " + std::to_string(t); }
        }
    }
    st["tops.grid"]++;
    if (!ok) { log.fail("tops.grid", ctx + " " + why); return; }
    if (bad > 0) {
        st["tops.gap_ignored_decks"]++; st["tops.gap_ignored_cells"] += bad;
        if (kReportTopsGap && !gapReported) { gapReported = true; log.fail("grid.tops.gap_ignored", ctx + " " + firstBad + " (" + std::to_string(bad) + " cells)"); return; }
    }
    log.ok();
}

void propAqu(vh::PropLog& log, std::map<std::string, long>& st, vh::Rng& r, int maxn, const std::string& tmp, long& fileNo) {
    AquCase c = genAqu(r, maxn);
    const Block& b = c.b;
    st["aqu"]++;
    bool ok = true; std::string why;
    try {
        EclipseGrid g(parse(c.text)), twin(parse(c.twinText));
        const double L = unitSys(b.unit).to_si(UnitSystem::measure::length, 1.0);
        std::map<size_t, double> depth; std::set<size_t> aq;
        for (const auto& q : c.recs) { const size_t gi = q.i + b.nx * (q.j + q.k * b.ny); aq.insert(gi); if (q.hasDepth) depth[gi] = q.depth * L; }
        auto check = [&](const EclipseGrid& x, const std::vector<int>& mask, const std::string& tag) {
            size_t rank = 0;
            for (size_t gi = 0; gi < mask.size() && ok; ++gi) {
                const bool isAq = aq.count(gi) > 0;
                const int want = isAq ? 1 : mask[gi];
                if (x.getACTNUM()[gi] != want) { ok = false; why = tag + ": ACTNUM[" + std::to_string(gi) + "] = " + std::to_string(x.getACTNUM()[gi]) + (isAq ? " at an aquifer cell" : " differs from the mask"); break; }
                if (x.cellActive(gi) != (want > 0)) { ok = false; why = tag + ": cellActive(" + std::to_string(gi) + ")"; break; }
                if (want > 0) {
                    size_t a = 0;
                    try { a = x.activeIndex(gi); } catch (const std::exception&) { ok = false; why = tag + ": activeIndex threw on an active cell " + std::to_string(gi); break; }
                    if (a != rank || x.getGlobalIndex(a) != gi) { ok = false; why = tag + ": active numbering at cell " + std::to_string(gi); break; }
                    ++rank;
                } else {
                    bool threw = false; try { (void) x.activeIndex(gi); } catch (const std::exception&) { threw = true; }
                    if (!threw) { ok = false; why = tag + ": activeIndex accepted the inactive cell " + std::to_string(gi); break; }
                }
                // depth: AQUNUM value when given, else the geometry; everything else is the geometry of the twin
                const auto it = depth.find(gi);
                if (it != depth.end()) { if (!close(x.getCellDepth(gi), it->second, 1e-13)) { ok = false; why = tag + ": depth of aquifer cell " + std::to_string(gi) + " = " + num(x.getCellDepth(gi)) + ", AQUNUM says " + num(it->second); break; } }
                else if (!sameBits(x.getCellDepth(gi), twin.getCellDepth(gi))) { ok = false; why = tag + ": depth of cell " + std::to_string(gi) + " differs from the grid without AQUNUM"; break; }
                { const auto q = x.getIJK(gi); if (!sameBits(x.getCellDepth(q[0], q[1], q[2]), x.getCellDepth(gi))) { ok = false; why = tag + ": getCellDepth(i,j,k) != getCellDepth(g) at cell " + std::to_string(gi); break; } }
                if (!sameBits(x.getCellVolume(gi), twin.getCellVolume(gi)) || x.getCellCenter(gi) != twin.getCellCenter(gi)) { ok = false; why = tag + ": volume/centre of cell " + std::to_string(gi) + " differs from the grid without AQUNUM"; break; }
            }
            if (ok && x.getNumActive() != rank) { ok = false; why = tag + ": getNumActive"; }
        };
        check(g, twin.getACTNUM(), "deck");
        std::vector<int> cur = g.getACTNUM();
        for (int t = 0; t < 4 && ok; ++t) {
            std::vector<int> mask = t == 0 ? std::vector<int>(cur.size(), 0) : nextMask(r, cur);
            const int how = r.range(0, 3);
            if (how == 0) { g.resetACTNUM(mask); check(g, mask, "resetACTNUM(mask)"); }
            else if (how == 1) { EclipseGrid h(g, mask); check(h, mask, "EclipseGrid(src, mask)"); g = h; }
            else if (how == 2) { V z = g.getZCORN(); EclipseGrid h(g, z.data(), mask); check(h, mask, "EclipseGrid(src, zcorn, mask)"); g = h; }
            else { g.activeVolume(); g.resetACTNUM(mask.data()); check(g, mask, "activeVolume(); resetACTNUM(ptr)");
                   const auto& av = g.activeVolume();
                   for (size_t a = 0; a < av.size() && ok; ++a) if (!sameBits(av[a], twin.getCellVolume(g.getGlobalIndex(a)))) { ok = false; why = "activeVolume()[" + std::to_string(a) + "] after the reset"; } }
            if (!ok) why += " mask=" + joinI(mask);
            cur = g.getACTNUM();
            st["aqu.reset"]++;
        }
        if (ok) {   // EGRID: activity (with the forced cells) survives; the depth override has no EGRID representation
            const std::string p = tmp + "/AQ" + std::to_string(fileNo++) + ".EGRID";
            g.save(p, false, {}, unitSys(b.unit));
            EclipseGrid h(p);
            if (h.getACTNUM() != g.getACTNUM() || h.getActiveMap() != g.getActiveMap()) { ok = false; why = "save/load: ACTNUM or active map changed"; }
            for (const auto& kv : depth) if (!close(h.getCellDepth(kv.first), kv.second, 1e-6)) { st["aqu.reload_depth_override_lost"]++; break; }
        }
    } catch (const std::exception& e) { ok = false; why = std::string("exception ") + typeid(e).name(); }
    if (ok) log.ok(); else log.fail("aquifer", std::string(unitKw(b.unit)) + " " + dims3(b.nx, b.ny, b.nz) + " " + why + " deck=" + vh::hex(c.text));
}

void propNormal(vh::PropLog& log, std::map<std::string, long>& st, vh::Rng& r, int maxn) {
    // planar-faced grids: the normal is the exact area vector of the bottom face
    CP cp = r.coin() ? genPlanarCP(r, maxn, r.coin(), r.coin(), false) : genHardCP(r, maxn);
    // wedge cells: one to three of the four vertical edges pinched (bottom corner pulled up to the top corner)
    long wedges = 0;
    for (int k = 0; k < cp.nz; ++k) for (int j = 0; j < cp.ny; ++j) for (int i = 0; i < cp.nx; ++i) if (r.coin(1, 5)) {
        const int keep = r.range(0, 3);
        for (int c = 0; c < 4; ++c) if (c != keep && r.coin(2, 3)) cp.zcorn[zind(cp.nx, cp.ny, i, j, k, c + 4)] = cp.zcorn[zind(cp.nx, cp.ny, i, j, k, c)];
        ++wedges;
    }
    st["normal.wedge_cells"] += wedges;
    EclipseGrid g(std::array<int, 3>{ cp.nx, cp.ny, cp.nz }, cp.coord, cp.zcorn, nullptr);
    bool ok = true; std::string why;
    {   // isValidCellGeomtry against its statement: all corner coordinates below 1e20 length units and the
        // longest of the four vertical edges longer than 1e-4 length units
        const int unit = r.range(0, 2);
        const UnitSystem us = unitSys(unit);
        const double L = us.to_si(UnitSystem::measure::length, 1.0);
        for (size_t gi = 0; gi < g.getCartesianSize(); ++gi) {
            A8 X, Y, Z; corners(g, gi, X, Y, Z);
            double longest = Z[4] - Z[0];
            for (int c = 1; c < 4; ++c) longest = std::max(longest, Z[c + 4] - Z[c]);
            const bool want = longest > 1.0e-4 * L;
            if (std::fabs(longest - 1.0e-4 * L) < 1e-12 * L) continue;
            if (g.isValidCellGeomtry(gi, us) != want) { log.fail("cell_validity", std::string(unitKw(unit)) + " " + dims3(cp.nx, cp.ny, cp.nz) + " cell=" + std::to_string(gi) + " longest vertical edge " + num(longest) + " m: isValidCellGeomtry = " + (want ? "false" : "true") + " coord=" + hexV(cp.coord) + " zcorn=" + hexV(cp.zcorn)); ok = false; break; }
            st[want ? "valid.cells.yes" : "valid.cells.no"]++;
        }
        if (!ok) return;
    }
    for (size_t gi = 0; gi < g.getCartesianSize() && ok; ++gi) {
        A8 X, Y, Z; corners(g, gi, X, Y, Z);
        const auto [cc, bc, nn] = g.getCellAndBottomCenterNormal(gi);
        const auto ctr = g.getCellCenter(gi);
        const double ext = std::fabs(X[7] - X[4]) + std::fabs(Y[7] - Y[4]) + std::fabs(Z[7] - Z[4]) + std::fabs(X[6] - X[5]) + std::fabs(Y[6] - Y[5]) + 1e-300;
        const double mag = std::fabs(X[4]) + std::fabs(Y[4]) + std::fabs(Z[4]) + ext;
        if (cc != ctr) { ok = false; why = "cell centre differs from getCellCenter"; }
        const double bx = (X[4] + X[5] + X[6] + X[7]) / 4, by = (Y[4] + Y[5] + Y[6] + Y[7]) / 4, bz = (Z[4] + Z[5] + Z[6] + Z[7]) / 4;
        if (!close(bc[0], bx, 0, 1e-13 * mag) || !close(bc[1], by, 0, 1e-13 * mag) || !close(bc[2], bz, 0, 1e-13 * mag)) { ok = false; why = "bottom centre is not the mean of corners 4..7"; }
        // area vector by the shoelace (Newell) formula over the loop 4-5-7-6, computed relative to corner 4
        const int loop[4] = { 4, 5, 7, 6 };
        double n[3] = { 0, 0, 0 };
        for (int e = 0; e < 4; ++e) {
            const int p = loop[e], q = loop[(e + 1) % 4];
            const double px = X[p] - X[4], py = Y[p] - Y[4], pz = Z[p] - Z[4], qx = X[q] - X[4], qy = Y[q] - Y[4], qz = Z[q] - Z[4];
            n[0] += 0.5 * (py * qz - pz * qy); n[1] += 0.5 * (pz * qx - px * qz); n[2] += 0.5 * (px * qy - py * qx);
        }
        // the code subtracts a centre with absolute coordinates: allow rounding of size mag * ext
        const double slack = 4e-15 * mag * ext + 1e-12 * (std::fabs(n[0]) + std::fabs(n[1]) + std::fabs(n[2]));
        for (int a = 0; a < 3 && ok; ++a) if (!close(nn[a], n[a], 0, slack)) { ok = false; why = "normal[" + std::to_string(a) + "] = " + num(nn[a]) + ", area vector of the bottom face = " + num(n[a]); }
        if (ok && !(nn[2] >= -slack)) { ok = false; why = "normal does not point downwards"; }
        if (!ok) why += " cell=" + std::to_string(gi);
    }
    st["normal"]++; st["normal.cells"] += (long) g.getCartesianSize();
    if (ok) log.ok(); else log.fail("bottom_normal", dims3(cp.nx, cp.ny, cp.nz) + " " + why + " coord=" + hexV(cp.coord) + " zcorn=" + hexV(cp.zcorn));
    // box grids: (0, 0, dx*dy), validity by thickness
    {
        const int unit = r.range(0, 2);
        const UnitSystem us = unitSys(unit);
        const double L = us.to_si(UnitSystem::measure::length, 1.0);
        const double dx = rlen(r, 1, 100), dy = rlen(r, 1, 100);
        const int kind = r.range(0, 3);
        const double dzU = kind == 0 ? rlen(r, 0.5, 20) : kind == 1 ? 1.5e-4 : kind == 2 ? 0.5e-4 : 0.0;     // in deck length units
        EclipseGrid bg(2, 2, 2, dx, dy, dzU * L, rlen(r, 0, 3000));
        bool ok2 = true; std::string why2;
        for (size_t gi = 0; gi < 8 && ok2; ++gi) {
            const auto [cc, bc, nn] = bg.getCellAndBottomCenterNormal(gi);
            if (!close(nn[2], dx * dy, 1e-9) || std::fabs(nn[0]) > 1e-9 * dx * dy || std::fabs(nn[1]) > 1e-9 * dx * dy) { ok2 = false; why2 = "box normal != (0,0,dx*dy)"; }
            const bool v = bg.isValidCellGeomtry(gi, us);
            if (v != (kind <= 1)) { ok2 = false; why2 = std::string("isValidCellGeomtry = ") + (v ? "true" : "false") + " for thickness " + num(dzU) + " " + unitKw(unit) + " length units"; }
        }
        st["valid"]++;
        if (ok2) log.ok(); else log.fail("cell_validity", std::string(unitKw(unit)) + " dx=" + num(dx) + " dy=" + num(dy) + " dz=" + num(dzU * L) + " " + why2);
    }
}


// ---- P16: pillars leaning in one horizontal direction only ------------------------------------
// Straight pillars from (x_i, y_j, z0) to (x_i*fx + sx*H, y_j*fy + sy*H, z0 + H), flat layers.  Each
// of the two directions is independently: vertical (f = 1, s = 0: bottom coordinate *exactly* the top
// coordinate), sheared (s != 0), fanning (f != 1), or both.  Every cell face is planar (the face
// i = const is the plane x = x_i (1 + (fx-1) t) + sx H t, t = (z - z0)/H), the horizontal section at
// depth z is the rectangle wx(z) x wy(z), so volume, corners, centre and depth are known in closed
// form from the construction.  The grid is also saved and the corners re-read through
// EclIO::EGrid::getCellCorners, which has its own pillar interpolation.
void propLean(vh::PropLog& log, std::map<std::string, long>& st, vh::Rng& r, int maxn, const std::string& tmp, long& fileNo) {
    const int nx = r.range(1, maxn), ny = r.range(1, maxn), nz = r.range(1, maxn);
    const int mx = r.range(0, 3), my = r.range(0, 3);            // 0 vertical, 1 sheared, 2 fanning, 3 both
    auto pick = [&](int m, double& f, double& sh) {
        f = (m == 2 || m == 3) ? (r.coin() ? 1.0 + rlen(r, 0.05, 0.6) : 1.0 - rlen(r, 0.05, 0.5)) : 1.0;
        sh = (m == 1 || m == 3) ? (r.coin() ? 1 : -1) * rlen(r, 0.02, 0.6) : 0.0;
    };
    double fx, sx, fy, sy; pick(mx, fx, sx); pick(my, fy, sy);
    const double z0 = r.coin() ? 0.0 : rlen(r, 500, 3000), H = rlen(r, 20, 400);
    const bool fromZero = r.coin();                               // first pillar row/column at 0 (stays put when fanning)
    V xs(nx + 1), ys(ny + 1), zs(nz + 1);
    xs[0] = fromZero ? 0.0 : rlen(r, 10, 500); ys[0] = fromZero ? 0.0 : rlen(r, 10, 500); zs[0] = z0;
    for (int i = 0; i < nx; ++i) xs[i + 1] = xs[i] + rlen(r, 5, 150);
    for (int j = 0; j < ny; ++j) ys[j + 1] = ys[j] + rlen(r, 5, 150);
    for (int k = 0; k < nz; ++k) zs[k + 1] = k + 1 == nz ? z0 + H : zs[k] + (z0 + H - zs[k]) * rlen(r, 0.2, 0.8) ;
    V coord, zcorn(size_t(8) * nx * ny * nz);
    for (int j = 0; j <= ny; ++j) for (int i = 0; i <= nx; ++i)
        coord.insert(coord.end(), { xs[i], ys[j], z0, xs[i] * fx + sx * H, ys[j] * fy + sy * H, z0 + H });
    for (int k = 0; k < nz; ++k) for (int j = 0; j < ny; ++j) for (int i = 0; i < nx; ++i) for (int c = 0; c < 8; ++c)
        zcorn[zind(nx, ny, i, j, k, c)] = zs[k + (c >> 2)];
    const std::string kind = std::string("x:") + "vsfb"[mx] + " y:" + "vsfb"[my];
    st["lean"]++; st["lean." + kind]++;
    auto px = [&](double x, double z) { const double t = (z - z0) / H; return x + (x * (fx - 1.0) + sx * H) * t; };
    auto py = [&](double y, double z) { const double t = (z - z0) / H; return y + (y * (fy - 1.0) + sy * H) * t; };
    bool ok = true; std::string why;
    try {
        const EclipseGrid g(std::array<int, 3>{ nx, ny, nz }, coord, zcorn, nullptr);
        const std::string file = tmp + "/LEAN" + std::to_string(fileNo++) + ".EGRID";
        g.save(file, false, {}, unitSys(0));
        EclIO::EGrid eg(file);
        const double scale = std::fabs(xs[nx] * std::max(fx, 1.0)) + std::fabs(ys[ny] * std::max(fy, 1.0)) + (std::fabs(sx) + std::fabs(sy)) * H + z0 + H;
        // Single precision of the file: every COORD/ZCORN value is off by up to half a float ulp (6e-8 relative);
        // a depth error dz moves a corner by slope * dz along the pillar, an error of the pillar's end depths by
        // |lean| * dz / H = slope * dz as well.  (A float-path tolerance of the comparison with the file reader only.)
        double slope = 0.0;
        for (double x : { xs[0], xs[nx] }) for (double y : { ys[0], ys[ny] })
            slope = std::max(slope, (std::fabs(x * (fx - 1.0) + sx * H) + std::fabs(y * (fy - 1.0) + sy * H)) / H);
        const double tolz = 1.3e-7 * (z0 + H), tolxy = 1.3e-7 * scale + 4.0 * slope * tolz;
        for (int k = 0; k < nz && ok; ++k) for (int j = 0; j < ny && ok; ++j) for (int i = 0; i < nx && ok; ++i) {
            const std::string cell = " cell (" + dims3(i, j, k) + ")";
            const double za = zs[k], zb = zs[k + 1], ta = (za - z0) / H, tb = (zb - z0) / H;
            // widths w(t) = w0 (1 + (f-1) t): volume = H * w0x w0y * int_ta^tb (1 + a t)(1 + b t) dt
            const double a = fx - 1.0, b = fy - 1.0, w0x = xs[i + 1] - xs[i], w0y = ys[j + 1] - ys[j];
            const double vol = H * w0x * w0y * ((tb - ta) + (a + b) * (tb * tb - ta * ta) / 2.0 + a * b * (tb * tb * tb - ta * ta * ta) / 3.0);
            const double v = g.getCellVolume(i, j, k);
            if (!close(v, vol, 1e-9)) { ok = false; why = "volume " + num(v) + ", exact " + num(vol) + cell; break; }
            A8 X, Y, Z, EX, EY, EZ;
            corners(g, g.getGlobalIndex(i, j, k), X, Y, Z);
            eg.getCellCorners(std::array<int, 3>{ i, j, k }, EX, EY, EZ);
            double cx = 0, cy = 0;
            for (int c = 0; c < 8 && ok; ++c) {
                const double z = (c >> 2) ? zb : za, x = px(xs[i + (c & 1)], z), y = py(ys[j + ((c >> 1) & 1)], z);
                cx += x / 8; cy += y / 8;
                if (!close(X[c], x, 0, 1e-12 * scale) || !close(Y[c], y, 0, 1e-12 * scale) || !close(Z[c], z, 0, 1e-12 * scale)) { ok = false; why = "corner " + std::to_string(c) + " = (" + num(X[c]) + ", " + num(Y[c]) + ", " + num(Z[c]) + "), construction (" + num(x) + ", " + num(y) + ", " + num(z) + ")" + cell; }
                else if (!close(X[c], EX[c], 0, tolxy) || !close(Y[c], EY[c], 0, tolxy) || !close(Z[c], EZ[c], 0, tolz)) { ok = false; why = "corner " + std::to_string(c) + ": grid (" + num(X[c]) + ", " + num(Y[c]) + ", " + num(Z[c]) + "), EclIO::EGrid of the saved file (" + num(EX[c]) + ", " + num(EY[c]) + ", " + num(EZ[c]) + ")" + cell; }
                const auto q = g.getCornerPos(i, j, k, c);
                if (ok && (!sameBits(q[0], X[c]) || !sameBits(q[1], Y[c]) || !sameBits(q[2], Z[c]))) { ok = false; why = "getCornerPos != getCellCorners" + cell; }
            }
            if (!ok) break;
            const auto ctr = g.getCellCenter(i, j, k);
            if (!close(ctr[0], cx, 0, 1e-12 * scale) || !close(ctr[1], cy, 0, 1e-12 * scale) || !close(ctr[2], (za + zb) / 2, 0, 1e-12 * scale)) { ok = false; why = "centre (" + num(ctr[0]) + ", " + num(ctr[1]) + ", " + num(ctr[2]) + "), construction (" + num(cx) + ", " + num(cy) + ", " + num((za + zb) / 2) + ")" + cell; break; }
            if (!close(g.getCellDepth(i, j, k), (za + zb) / 2, 0, 1e-12 * scale)) { ok = false; why = "depth" + cell; break; }
            if (!close(g.getCellThickness(i, j, k), zb - za, 1e-9)) { ok = false; why = "thickness" + cell; break; }
            st["lean.cells"]++;
        }
        // the reloaded grid has the same cells (within single precision of the file)
        if (ok) {
            const EclipseGrid h(file);
            for (size_t gi = 0; gi < g.getCartesianSize() && ok; ++gi) {
                const auto dm = g.getCellDims(gi);
                const double rel = 2.0 * (tolxy / dm[0] + tolxy / dm[1] + 2.0 * tolz / dm[2]);
                if (!close(g.getCellVolume(gi), h.getCellVolume(gi), rel)) { ok = false; why = "volume after save/load " + num(g.getCellVolume(gi)) + " vs " + num(h.getCellVolume(gi)) + " cell " + std::to_string(gi); }
            }
        }
    } catch (const std::exception& e) { ok = false; why = std::string("exception ") + typeid(e).name(); }
    if (ok) log.ok(); else log.fail("lean_pillars", kind + " " + dims3(nx, ny, nz) + " " + why + " coord=" + hexV(coord) + " zcorn=" + hexV(zcorn));
}

int main(int argc, char** argv) {
    if (argc < 5) { std::cerr << "usage: grid corr|prop|vols <seed> <tier> <outdir>\n"; return 2; }
    const std::string mode = argv[1];
    const uint64_t seed = std::strtoull(argv[2], nullptr, 10);
    const std::string tier = argv[3];
    const std::string outdir = argv[4];
    const bool thorough = tier == "thorough";

    if (mode == "vols") {
        std::ofstream out(outdir);
        for (auto& g : omGrids(seed, tier)) {
            const auto& v = g.activeVolume();          // the OpenMP loop
            out << g.getNumActive();
            for (double d : v) out << " " << vh::hexF64(d);
            out << "\n";
        }
        return 0;
    }

    // The sequences enter the OpenMP loop of activeVolume() thousands of times on tiny grids; with
    // one thread per core on a busy machine the barriers dominate the run time (54 s instead of 3 s).
    // Thread-count independence is examined separately (mode `vols`, OMP_NUM_THREADS = 1, 4, 16).
    omp_set_num_threads(2);
    fs::create_directories(outdir);
    const std::string tmp = outdir + "/tmp";
    fs::create_directories(tmp);
    vh::Rng rng(seed);
    long fileNo = 0;
    const int maxn = thorough ? 7 : 5;

    if (mode == "corr") {
        vh::Sink sink(outdir);
        const int rounds = thorough ? 60 : 14;
        for (int round = 0; round < rounds; ++round) {
            // (1) index maps
            {
                const int nx = rng.range(1, 12), ny = rng.range(1, 12), nz = rng.range(1, 12);
                GridDims gd(nx, ny, nz);
                for (int t = 0; t < 12; ++t) {
                    const size_t g = rng.below(gd.getCartesianSize() + (t == 0 ? 5 : 0));   // also just beyond the range
                    auto q = gd.getIJK(g);
                    sink.emit("grid.ijk " + dims3(nx, ny, nz) + " " + std::to_string(g), dims3(q[0], q[1], q[2]));
                    const int i = rng.range(0, nx - 1), j = rng.range(0, ny - 1), k = rng.range(0, nz - 1);
                    sink.emit("grid.gidx " + dims3(nx, ny, nz) + " " + dims3(i, j, k), std::to_string(gd.getGlobalIndex(i, j, k)));
                    sink.count("index", 2);
                }
                ZcornMapper zm(nx, ny, nz);
                CoordMapper cm(nx, ny);
                for (int t = 0; t < 12; ++t) {
                    const int i = rng.range(0, nx - (t == 1 ? 0 : 1)), j = rng.range(0, ny - (t == 2 ? 0 : 1)), k = rng.range(0, nz - (t == 3 ? 0 : 1));
                    const int c = rng.range(0, t == 4 ? 8 : 7);
                    std::string a;
                    try { a = std::to_string(zm.index(i, j, k, c)); } catch (const std::exception&) { a = "err"; }
                    sink.emit("grid.zidx " + dims3(nx, ny, nz) + " " + dims3(i, j, k) + " " + std::to_string(c), a);
                    const size_t g = rng.below(gd.getCartesianSize());
                    try { a = std::to_string(zm.index(g, c)); } catch (const std::exception&) { a = "err"; }
                    sink.emit("grid.zidxg " + dims3(nx, ny, nz) + " " + std::to_string(g) + " " + std::to_string(c), a);
                    const int pi = rng.range(0, nx + (t == 5 ? 1 : 0)), pj = rng.range(0, ny + (t == 6 ? 1 : 0)), dim = rng.range(0, t == 7 ? 3 : 2), layer = rng.range(0, t == 8 ? 2 : 1);
                    try { a = std::to_string(cm.index(pi, pj, dim, layer)); } catch (const std::exception&) { a = "err"; }
                    sink.emit("grid.cidx " + std::to_string(nx) + " " + std::to_string(ny) + " " + std::to_string(pi) + " " + std::to_string(pj) + " " + std::to_string(dim) + " " + std::to_string(layer), a);
                    sink.count("mapper", 3);
                }
                // (2) ACTNUM -> active maps on the real EclipseGrid
                EclipseGrid eg(nx, ny, nz, 1.0, 1.0, 1.0);
                std::vector<int> act = genActnum(rng, nx * ny * nz);
                eg.resetACTNUM(act);
                std::vector<int> g2a(act.size());
                for (size_t g = 0; g < act.size(); ++g) { try { g2a[g] = (int) eg.activeIndex(g); } catch (const std::exception&) { g2a[g] = -1; } }
                std::vector<int> a2g;
                for (size_t a = 0; a < eg.getNumActive(); ++a) a2g.push_back((int) eg.getGlobalIndex(a));
                std::string a2gs = a2g.empty() ? "" : joinI(a2g), g2as = joinI(g2a);
                sink.emit("grid.act " + joinI(act), std::to_string(eg.getNumActive()) + "|" + g2as + "|" + a2gs);
                sink.count("actnum");
            }
            // (3) regular constructor
            {
                const int nx = rng.range(1, maxn), ny = rng.range(1, maxn), nz = rng.range(1, maxn);
                const double dx = rlen(rng, 1, 100), dy = rlen(rng, 1, 100), dz = rlen(rng, 0.5, 20), top = rng.coin() ? 0.0 : rlen(rng, 100, 2000);
                EclipseGrid g(nx, ny, nz, dx, dy, dz, top);
                sink.emit("grid.regular " + dims3(nx, ny, nz) + " " + vh::hexF64(dx) + " " + vh::hexF64(dy) + " " + vh::hexF64(dz) + " " + vh::hexF64(top),
                          hexV(g.getCOORD()) + " " + hexV(g.getZCORN()));
                sink.count("regular");
                emitCells(sink, g, "regular");
            }
            // (4) DX/DY/DZ/TOPS and DXV/DYV/DZV/TOPS decks
            for (int variant = 0; variant < 2; ++variant) {
                Block b = genBlock(rng, maxn, rng.coin(), variant == 0 && rng.coin());
                const bool useV = variant == 1;
                // DX may also vary with j and k (the code then builds inclined pillars): model must follow
                std::string text = deckDTops(b, useV);
                V dxIn = scatter(b, 0), dyIn = scatter(b, 1);
                if (!useV && rng.coin(1, 3)) {
                    for (auto& x : dxIn) x *= 1.0 + 0.2 * rng.unit();
                    for (auto& y : dyIn) y *= 1.0 + 0.2 * rng.unit();
                    text = deckHead(b.nx, b.ny, b.nz, b.unit) + kwData("DX", dxIn) + kwData("DY", dyIn) + kwData("DZ", b.dz) + kwData("TOPS", b.tops);
                    sink.count("dtops.inclined");
                }
                std::vector<int> act = genActnum(rng, b.nx * b.ny * b.nz);
                const bool withAct = rng.coin();
                if (withAct) text += kwInt("ACTNUM", act);
                Deck deck = parse(text);
                EclipseGrid g(deck);
                V DX = useV ? deck["DXV"].back().getSIDoubleData() : deck["DX"].back().getSIDoubleData();
                V DY = useV ? deck["DYV"].back().getSIDoubleData() : deck["DY"].back().getSIDoubleData();
                V DZ = useV ? deck["DZV"].back().getSIDoubleData() : deck["DZ"].back().getSIDoubleData();
                V TOPS = deck["TOPS"].back().getSIDoubleData();
                sink.emit(std::string(useV ? "grid.dtopsv " : "grid.dtops ") + dims3(b.nx, b.ny, b.nz) + " " + hexV(DX) + " " + hexV(DY) + " " + hexV(DZ) + " " + hexV(TOPS),
                          hexV(g.getCOORD()) + " " + hexV(g.getZCORN()) + " " + std::to_string(g.getZcornFixed()));
                sink.count(useV ? "dtopsv" : "dtops"); sink.count(std::string("unit.") + unitKw(b.unit));
                emitCells(sink, g, "dtops");
                emitCorners(sink, rng, g);
                if (withAct) {
                    std::vector<int> g2a(act.size());
                    for (size_t gi = 0; gi < act.size(); ++gi) { try { g2a[gi] = (int) g.activeIndex(gi); } catch (const std::exception&) { g2a[gi] = -1; } }
                    std::string a2gs = g.getActiveMap().empty() ? "" : joinI(g.getActiveMap());
                    sink.emit("grid.act " + joinI(act), std::to_string(g.getNumActive()) + "|" + joinI(g2a) + "|" + a2gs);
                    sink.count("actnum.deck");
                }
                if (round % 2 == 0) emitEgrid(sink, rng, g, g.getCOORD(), g.getZCORN(), tmp, fileNo, "-", "-");
            }
            // (5) DXV/DYV/DZV/DEPTHZ deck
            {
                Block b = genBlock(rng, maxn, true, false);
                V depthz((b.nx + 1) * (b.ny + 1));
                const bool flat = rng.coin();
                for (auto& z : depthz) z = flat ? b.top0 : b.top0 + rlen(rng, 0, 40);
                Deck deck = parse(deckDepthz(b, depthz));
                EclipseGrid g(deck);
                sink.emit("grid.depthz " + dims3(b.nx, b.ny, b.nz) + " " + hexV(deck["DXV"].back().getSIDoubleData()) + " " + hexV(deck["DYV"].back().getSIDoubleData()) + " "
                          + hexV(deck["DZV"].back().getSIDoubleData()) + " " + hexV(deck["DEPTHZ"].back().getSIDoubleData()),
                          hexV(g.getCOORD()) + " " + hexV(g.getZCORN()) + " " + std::to_string(g.getZcornFixed()));
                sink.count("depthz"); sink.count(std::string("unit.") + unitKw(b.unit));
                emitCells(sink, g, "depthz");
            }
            // (6) corner-point grids: sheared / faulted / degenerate pillars / non-monotone ZCORN
            for (int variant = 0; variant < 3; ++variant) {
                CP cp = genPlanarCP(rng, maxn, variant != 0 && rng.coin(), rng.coin(), variant == 0);
                if (variant == 2) {      // break monotonicity so that fixupZCORN has work to do
                    for (auto& z : cp.zcorn) if (rng.coin(1, 6)) z += (rng.unit() - 0.5) * 40;
                    if (rng.coin(1, 4)) for (auto& z : cp.zcorn) z = 3000 - z;     // sign = -1 branch
                }
                std::vector<int> act = genActnum(rng, cp.nx * cp.ny * cp.nz);
                EclipseGrid g(std::array<int, 3>{ cp.nx, cp.ny, cp.nz }, cp.coord, cp.zcorn, act.data());
                sink.emit("grid.fixup " + dims3(cp.nx, cp.ny, cp.nz) + " " + hexV(cp.zcorn), std::to_string(g.getZcornFixed()) + " " + hexV(g.getZCORN()));
                sink.count(variant == 2 ? "cp.nonmonotone" : variant == 1 ? "cp.sheared" : "cp.vertical");
                emitCells(sink, g, "cp");
                emitCorners(sink, rng, g);
                if (round % 3 == variant) emitEgrid(sink, rng, g, cp.coord, cp.zcorn, tmp, fileNo, "-", "-");
            }
            // (7) MAPAXES / MAPUNITS / GRIDUNIT through a deck, then EGRID
            {
                Block b = genBlock(rng, 3, true, false);
                V ma = { rlen(rng, 0, 100), rlen(rng, 100, 200), rlen(rng, 0, 100), rlen(rng, 0, 100), rlen(rng, 100, 200), rlen(rng, 0, 100) };
                const bool mu = rng.coin();
                const char* mun = rng.coin() ? "METRES" : "FEET";
                std::string extra = (mu ? std::string("MAPUNITS\n ") + mun + " /\n\n" : std::string()) + kwData("MAPAXES", ma);
                Deck deck = parse(deckDTops(b, true, extra));
                EclipseGrid g(deck);
                std::vector<float> maf; for (double d : ma) maf.push_back((float) d);
                std::string mus = mun; mus.resize(8, ' ');
                emitEgrid(sink, rng, g, g.getCOORD(), g.getZCORN(), tmp, fileNo, hexF(maf), mu ? vh::hex(mus) : "-");
                sink.count("egrid.mapaxes");
            }
            // (9) operation sequences on one object (cache, resetACTNUM, copy constructors, save/load)
            for (int t = 0; t < 3; ++t) emitSeq(sink, rng, thorough ? 5 : 4, tmp, fileNo);
            // (10) third round: MINPV rule, RADIAL grids, GRIDUNIT, MapAxes, hard corner-point grids
            for (int t = 0; t < 2; ++t) emitMinpv(sink, rng, maxn);
            for (int t = 0; t < 2; ++t) emitRadial(sink, rng, thorough ? 5 : 4);
            emitGridunit(sink, rng, thorough ? 5 : 4, tmp, fileNo);
            emitMapaxes(sink, rng);
            emitHardCP(sink, rng, maxn, tmp, fileNo, round);
            // (11) fourth round: TOPS for several layers, numerical-aquifer cells, bottom normal / validity
            for (int t = 0; t < 3; ++t) emitTops(sink, rng, thorough ? 5 : 4);
            for (int t = 0; t < 2; ++t) emitAqu(sink, rng, thorough ? 5 : 4);
            emitNormal(sink, rng, maxn);
            // (8) calculateCellVol on arbitrary (twisted) hexahedra and on their k-halves
            for (int t = 0; t < 10; ++t) {
                A8 X, Y, Z;
                const double ox = rlen(rng, -1e4, 1e4), oy = rlen(rng, -1e4, 1e4), oz = rlen(rng, 0, 4000);
                for (int n = 0; n < 8; ++n) {
                    X[n] = ox + ((n & 1) ? 100 : 0) + (rng.unit() - 0.5) * 60;
                    Y[n] = oy + ((n >> 1 & 1) ? 80 : 0) + (rng.unit() - 0.5) * 50;
                    Z[n] = oz + ((n >> 2 & 1) ? 20 : 0) + (rng.unit() - 0.5) * 15;
                }
                sink.emit("grid.vol " + hexA(X) + " " + hexA(Y) + " " + hexA(Z), vh::hexF64(calculateCellVol(X, Y, Z)));
                A8 xl, xu, yl, yu, zl, zu;
                splitK(X, xl, xu); splitK(Y, yl, yu); splitK(Z, zl, zu);
                std::string ans = vh::hexF64(calculateCellVol(xl, yl, zl)) + " " + vh::hexF64(calculateCellVol(xu, yu, zu));
                splitI(X, xl, xu); splitI(Y, yl, yu); splitI(Z, zl, zu);
                ans += " " + vh::hexF64(calculateCellVol(xl, yl, zl)) + " " + vh::hexF64(calculateCellVol(xu, yu, zu));
                splitJ(X, xl, xu); splitJ(Y, yl, yu); splitJ(Z, zl, zu);
                ans += " " + vh::hexF64(calculateCellVol(xl, yl, zl)) + " " + vh::hexF64(calculateCellVol(xu, yu, zu));
                sink.emit("grid.split " + hexA(X) + " " + hexA(Y) + " " + hexA(Z), ans);
                sink.count("vol", 2);
            }
        }
        sink.writeStats(outdir + "/stats.json");
        fs::remove_all(tmp);
        return 0;
    }

    if (mode == "prop") {
        vh::PropLog log(outdir + "/prop.txt");
        std::map<std::string, long> st;
        const int rounds = thorough ? 80 : 20;
        const int pmax = thorough ? 9 : 6;
        const double VT = 1e-9;       // relative tolerance for volumes computed along different float paths
        bool indexBroken = false;
        for (int round = 0; round < rounds; ++round) {
            // P1: index inverses and active maps on the real grid
            {
                const int nx = rng.range(1, 10), ny = rng.range(1, 10), nz = rng.range(1, 10);
                EclipseGrid g(nx, ny, nz, 1.0, 1.0, 1.0);
                std::vector<int> act = genActnum(rng, nx * ny * nz);
                g.resetACTNUM(act);
                bool ok = true; std::string why;
                for (size_t gi = 0; gi < g.getCartesianSize() && ok; ++gi) {
                    auto q = g.getIJK(gi);
                    if (q[0] < 0 || q[0] >= nx || q[1] < 0 || q[1] >= ny || q[2] < 0 || q[2] >= nz) { ok = false; why = "ijk-range g=" + std::to_string(gi); }
                    else if (g.GridDims::getGlobalIndex(q[0], q[1], q[2]) != gi) { ok = false; why = "global(ijk(g))!=g g=" + std::to_string(gi); }
                }
                size_t cnt = 0;
                for (int k = 0; k < nz && ok; ++k) for (int j = 0; j < ny && ok; ++j) for (int i = 0; i < nx && ok; ++i) {
                    const size_t gi = g.GridDims::getGlobalIndex(i, j, k);
                    if (gi != cnt++) { ok = false; why = "global index not the natural ordering"; }
                    auto q = g.getIJK(gi);
                    if (q[0] != i || q[1] != j || q[2] != k) { ok = false; why = "ijk(global(i,j,k))!=(i,j,k)"; }
                }
                size_t nact = 0; long prev = -1;
                for (size_t gi = 0; gi < act.size() && ok; ++gi) {
                    const bool active = act[gi] > 0;
                    if (g.cellActive(gi) != active) { ok = false; why = "cellActive!=ACTNUM>0 g=" + std::to_string(gi); break; }
                    if (active) {
                        ++nact;
                        size_t a = 0;
                        try { a = g.activeIndex(gi); } catch (const std::exception&) { ok = false; why = "activeIndex threw on active cell"; break; }
                        if (a != nact - 1) { ok = false; why = "active numbering not consecutive"; }
                        else if (g.getGlobalIndex(a) != gi) { ok = false; why = "global(active(g))!=g"; }
                        else if ((long) gi <= prev) { ok = false; why = "not monotone"; }
                        prev = (long) gi;
                    } else {
                        bool threw = false;
                        try { (void) g.activeIndex(gi); } catch (const std::exception&) { threw = true; }
                        if (!threw) { ok = false; why = "activeIndex accepted an inactive cell g=" + std::to_string(gi); }
                    }
                }
                if (ok && g.getNumActive() != nact) { ok = false; why = "getNumActive != #ACTNUM>0"; }
                if (ok && g.getActiveMap().size() != nact) { ok = false; why = "active map length"; }
                for (size_t a = 0; a < nact && ok; ++a) if (g.activeIndex(g.getGlobalIndex(a)) != a) { ok = false; why = "active(global(a))!=a"; }
                if (ok) log.ok(); else log.fail("index", dims3(nx, ny, nz) + " actnum=" + joinI(act) + " " + why);
                st["index"]++;
                // broken index maps make every geometric query read out of bounds: report and stop here
                if (!ok) { indexBroken = true; break; }
            }
            // P2: input forms agree (DX/DY/DZ/TOPS, DXV/DYV/DZV/TOPS, DXV/DYV/DZV/DEPTHZ, explicit COORD/ZCORN)
            {
                Block b = genBlock(rng, pmax, true, false);
                Deck d1 = parse(deckDTops(b, false)), d2 = parse(deckDTops(b, true));
                V depthz((b.nx + 1) * (b.ny + 1), b.top0);
                Deck d3 = parse(deckDepthz(b, depthz));
                // explicit corner-point description of the same boxes (built here, independent of the code)
                V coord, zcorn(size_t(8) * b.nx * b.ny * b.nz);
                V xs(b.nx + 1, 0.0), ys(b.ny + 1, 0.0), zs(b.nz + 1, b.top0);
                for (int i = 0; i < b.nx; ++i) xs[i + 1] = xs[i] + b.dxv[i];
                for (int j = 0; j < b.ny; ++j) ys[j + 1] = ys[j] + b.dyv[j];
                for (int k = 0; k < b.nz; ++k) zs[k + 1] = zs[k] + b.dzv[k];
                for (int j = 0; j <= b.ny; ++j) for (int i = 0; i <= b.nx; ++i) { coord.insert(coord.end(), { xs[i], ys[j], zs[0], xs[i], ys[j], zs[b.nz] }); }
                for (int k = 0; k < b.nz; ++k) for (int j = 0; j < b.ny; ++j) for (int i = 0; i < b.nx; ++i) for (int c = 0; c < 8; ++c)
                    zcorn[zind(b.nx, b.ny, i, j, k, c)] = zs[k + (c >> 2)];
                Deck d4 = parse(deckHead(b.nx, b.ny, b.nz, b.unit) + kwData("COORD", coord) + kwData("ZCORN", zcorn));
                EclipseGrid g1(d1), g2(d2), g3(d3), g4(d4);
                const double L = unitSys(b.unit).to_si(UnitSystem::measure::length, 1.0);
                bool ok = true; std::string why;
                for (size_t gi = 0; gi < g1.getCartesianSize() && ok; ++gi) {
                    auto ijk = g1.getIJK(gi);
                    const double ex = b.dxv[ijk[0]] * L, ey = b.dyv[ijk[1]] * L, ez = b.dzv[ijk[2]] * L;
                    CellQ q1 = query(g1, gi);
                    const double scale = (zs[b.nz] + xs[b.nx] + ys[b.ny]) * L;
                    for (const EclipseGrid* g : { &g2, &g3, &g4 }) {
                        CellQ q = query(*g, gi);
                        if (!close(q.vol, q1.vol, VT)) { ok = false; why = "volume differs between input forms"; }
                        for (int a = 0; a < 3; ++a) {
                            if (!close(q.ctr[a], q1.ctr[a], 0, 1e-12 * scale)) { ok = false; why = "centre differs"; }
                            if (!close(q.dims[a], q1.dims[a], 1e-9)) { ok = false; why = "dims differ"; }
                        }
                        if (!close(q.depth, q1.depth, 0, 1e-12 * scale)) { ok = false; why = "depth differs"; }
                    }
                    if (!close(q1.vol, ex * ey * ez, VT)) { ok = false; why = "volume != dx*dy*dz"; }
                    if (!(q1.vol > 0)) { ok = false; why = "volume not positive"; }
                    if (!close(q1.dims[0], ex, 1e-9) || !close(q1.dims[1], ey, 1e-9) || !close(q1.dims[2], ez, 1e-9)) { ok = false; why = "dims != (dx,dy,dz)"; }
                    if (!close(q1.ctr[0], (xs[ijk[0]] + b.dxv[ijk[0]] / 2) * L, 0, 1e-12 * scale) || !close(q1.ctr[2], (zs[ijk[2]] + b.dzv[ijk[2]] / 2) * L, 0, 1e-12 * scale)) { ok = false; why = "centre != box centre"; }
                    if (!close(q1.depth, q1.ctr[2], 0, 1e-12 * scale)) { ok = false; why = "depth != centre z"; }
                    if (!ok) why += " cell=" + std::to_string(gi);
                }
                if (ok) log.ok(); else log.fail("forms", std::string(unitKw(b.unit)) + " " + dims3(b.nx, b.ny, b.nz) + " " + why + " dxv=" + hexV(b.dxv) + " dyv=" + hexV(b.dyv) + " dzv=" + hexV(b.dzv) + " top=" + vh::hexF64(b.top0));
                st["forms"]++; st["forms.cells"] += (long) g1.getCartesianSize();
            }
            // P3/P4: planar-faced sheared / faulted corner-point grids: exact volume, positivity,
            // additivity under k-subdivision (cell level and grid level)
            {
                CP cp = genPlanarCP(rng, pmax, rng.coin(), rng.coin(), false);
                EclipseGrid g(std::array<int, 3>{ cp.nx, cp.ny, cp.nz }, cp.coord, cp.zcorn, nullptr);
                // k-refined grid: every layer cut at the vertical-edge midpoints
                V z2(size_t(8) * cp.nx * cp.ny * cp.nz * 2);
                for (int k = 0; k < cp.nz; ++k) for (int j = 0; j < cp.ny; ++j) for (int i = 0; i < cp.nx; ++i) for (int c = 0; c < 4; ++c) {
                    const double zt = cp.zcorn[zind(cp.nx, cp.ny, i, j, k, c)], zb = cp.zcorn[zind(cp.nx, cp.ny, i, j, k, c + 4)], zm = (zt + zb) / 2.0;
                    z2[zind(cp.nx, cp.ny, i, j, 2 * k, c)] = zt; z2[zind(cp.nx, cp.ny, i, j, 2 * k, c + 4)] = zm;
                    z2[zind(cp.nx, cp.ny, i, j, 2 * k + 1, c)] = zm; z2[zind(cp.nx, cp.ny, i, j, 2 * k + 1, c + 4)] = zb;
                }
                EclipseGrid gr(std::array<int, 3>{ cp.nx, cp.ny, 2 * cp.nz }, cp.coord, z2, nullptr);
                bool ok = true; std::string why;
                for (size_t gi = 0; gi < g.getCartesianSize() && ok; ++gi) {
                    A8 X, Y, Z;
                    corners(g, gi, X, Y, Z);
                    const double v = g.getCellVolume(gi);
                    const double ve = polyVolume(X, Y, Z);
                    if (!(v > 0)) { ok = false; why = "volume not positive"; }
                    else if (!close(v, ve, 1e-8)) { ok = false; why = "volume != exact polyhedron volume (" + num(v) + " vs " + num(ve) + ")"; }
                    A8 xl, xu, yl, yu, zl, zu;
                    splitK(X, xl, xu); splitK(Y, yl, yu); splitK(Z, zl, zu);
                    const double v1 = calculateCellVol(xl, yl, zl), v2 = calculateCellVol(xu, yu, zu);
                    if (ok && !close(v, v1 + v2, VT)) { ok = false; why = "not additive under k-split of the corner set (" + num(v) + " vs " + num(v1 + v2) + ")"; }
                    auto ijk = g.getIJK(gi);
                    const double w = gr.getCellVolume(ijk[0], ijk[1], 2 * ijk[2]) + gr.getCellVolume(ijk[0], ijk[1], 2 * ijk[2] + 1);
                    if (ok && !close(v, w, 1e-8)) { ok = false; why = "refined grid volumes do not add up (" + num(v) + " vs " + num(w) + ")"; }
                    if (!ok) why += " cell=" + std::to_string(gi);
                }
                if (ok) log.ok(); else log.fail("volume", dims3(cp.nx, cp.ny, cp.nz) + " " + why + " coord=" + hexV(cp.coord) + " zcorn=" + hexV(cp.zcorn));
                st["volume"]++; st["volume.cells"] += (long) g.getCartesianSize();
            }
            // P4b: additivity of the signed volume for arbitrary (also twisted) hexahedra of one orientation
            for (int t = 0; t < 20; ++t) {
                A8 X, Y, Z;
                for (int n = 0; n < 8; ++n) {
                    X[n] = ((n & 1) ? 100 : 0) + (rng.unit() - 0.5) * 40;
                    Y[n] = ((n >> 1 & 1) ? 80 : 0) + (rng.unit() - 0.5) * 30;
                    Z[n] = 1500 + ((n >> 2 & 1) ? 20 : 0) + (rng.unit() - 0.5) * 10;
                }
                A8 xl, xu, yl, yu, zl, zu;
                splitK(X, xl, xu); splitK(Y, yl, yu); splitK(Z, zl, zu);
                const double v = calculateCellVol(X, Y, Z), v1 = calculateCellVol(xl, yl, zl), v2 = calculateCellVol(xu, yu, zu);
                splitI(X, xl, xu); splitI(Y, yl, yu); splitI(Z, zl, zu);
                const double vi = calculateCellVol(xl, yl, zl) + calculateCellVol(xu, yu, zu);
                splitJ(X, xl, xu); splitJ(Y, yl, yu); splitJ(Z, zl, zu);
                const double vj = calculateCellVol(xl, yl, zl) + calculateCellVol(xu, yu, zu);
                if (!close(v, vi, VT) || !close(v, vj, VT)) log.fail("additive.ij", "X=" + hexA(X) + " Y=" + hexA(Y) + " Z=" + hexA(Z) + " v=" + num(v) + " i-halves=" + num(vi) + " j-halves=" + num(vj));
                A8 Xt = X, Yt = Y, Zt = Z;
                for (int n = 0; n < 8; ++n) { Xt[n] += 12345.0; Yt[n] -= 999.0; Zt[n] += 77.0; }
                const double vt = calculateCellVol(Xt, Yt, Zt);
                if (!(v > 0) || !close(v, v1 + v2, VT)) log.fail("additive", "X=" + hexA(X) + " Y=" + hexA(Y) + " Z=" + hexA(Z) + " v=" + num(v) + " v1+v2=" + num(v1 + v2));
                else if (!close(v, vt, 1e-9)) log.fail("translation", "X=" + hexA(X) + " Y=" + hexA(Y) + " Z=" + hexA(Z) + " v=" + num(v) + " translated=" + num(vt));
                else log.ok();
                st["additive"]++;
            }
            // P6: EGRID save / load preserves geometry, ACTNUM, MAPAXES, GRIDUNIT, NNC (formatted and unformatted)
            {
                Block b = genBlock(rng, std::min(pmax, 5), rng.coin(), false);
                V ma = { rlen(rng, 0, 100), rlen(rng, 100, 200), rlen(rng, 0, 100), rlen(rng, 0, 100), rlen(rng, 100, 200), rlen(rng, 0, 100) };
                const bool withMap = rng.coin(), withMu = rng.coin();
                const char* mun = rng.coin() ? "METRES" : "FEET";
                std::vector<int> act = genActnum(rng, b.nx * b.ny * b.nz);
                std::string extra = kwInt("ACTNUM", act);
                if (withMap) extra += (withMu ? std::string("MAPUNITS\n ") + mun + " /\n\n" : std::string()) + kwData("MAPAXES", ma);
                const bool cpForm = rng.coin();
                EclipseGrid g = [&]() {
                    if (!cpForm) return EclipseGrid(parse(deckDTops(b, true, extra)));
                    CP cp = genPlanarCP(rng, std::min(pmax, 5), rng.coin(), rng.coin(), false);
                    act = genActnum(rng, cp.nx * cp.ny * cp.nz);
                    return EclipseGrid(parse(deckHead(cp.nx, cp.ny, cp.nz, b.unit) + kwData("COORD", cp.coord) + kwData("ZCORN", cp.zcorn) + kwInt("ACTNUM", act)
                                             + (withMap ? (withMu ? std::string("MAPUNITS\n ") + mun + " /\n\n" : std::string()) + kwData("MAPAXES", ma) : std::string())));
                }();
                const int su = rng.range(0, 2);
                UnitSystem us = unitSys(su);
                const std::vector<NNCdata> nnc = genNnc(rng, g.getCartesianSize(), thorough);
                st["egrid.nnc"] += (long) nnc.size(); st["egrid.nnc.repeated_pairs"] += nncRepeats(nnc); st["egrid.nnc.adjacent_repeats"] += nncAdjacentRepeats(nnc);
                for (int fmt = 0; fmt < 2; ++fmt) {
                    const bool formatted = fmt == 1;
                    const std::string p1 = tmp + "/P" + std::to_string(fileNo++) + (formatted ? ".FEGRID" : ".EGRID");
                    const std::string p2 = tmp + "/P" + std::to_string(fileNo++) + (formatted ? ".FEGRID" : ".EGRID");
                    bool ok = true; std::string why;
                    try {
                        g.save(p1, formatted, nnc, us);
                        EclipseGrid h(p1);
                        if (h.getNXYZ() != g.getNXYZ()) { ok = false; why = "dims"; }
                        if (ok && h.getACTNUM() != g.getACTNUM()) { ok = false; why = "ACTNUM"; }
                        if (ok && h.getNumActive() != g.getNumActive()) { ok = false; why = "nactive"; }
                        if (ok && h.getActiveMap() != g.getActiveMap()) { ok = false; why = "active map"; }
                        if (ok && g.getMapAxes().has_value() != h.getMapAxes().has_value()) { ok = false; why = "MAPAXES presence"; }
                        if (ok && g.getMapAxes().has_value()) {
                            // unformatted: bit-exact.  Formatted files carry REAL as %16.8E: 8 significant digits do not
                            // separate all neighbouring floats (decimal mantissa in [0.1, 0.119)), a limitation of the
                            // published format itself, so MAPAXES is compared to one float ulp there.
                            const auto& a = g.getMapAxes()->input(); const auto& c = h.getMapAxes()->input();
                            if (g.getMapAxes()->mapunits() != h.getMapAxes()->mapunits()) { ok = false; why = "MAPUNITS"; }
                            else if (a.size() != c.size()) { ok = false; why = "MAPAXES size"; }
                            else for (size_t n = 0; n < a.size() && ok; ++n)
                                if (formatted ? !close(a[n], c[n], 1.2e-7) : a[n] != c[n]) { ok = false; why = "MAPAXES[" + std::to_string(n) + "] " + num(a[n]) + " vs " + num(c[n]); }
                        }
                        if (ok) {
                            EclIO::EclFile ef(p1);
                            const auto& gu = ef.get<std::string>("GRIDUNIT");
                            if (gu.empty() || gu[0] != gridUnitName(su)) { ok = false; why = "GRIDUNIT"; }
                            if (ok && nnc.empty() == ef.hasKey("NNC1")) { ok = false; why = "NNC presence"; }
                            if (ok && !nnc.empty()) {
                                const auto& n1 = ef.get<int>("NNC1"); const auto& n2 = ef.get<int>("NNC2"); const auto& nh = ef.get<int>("NNCHEAD");
                                if (n1.size() != nnc.size() || n2.size() != nnc.size() || nh[0] != (int) nnc.size()) { ok = false; why = "NNC count"; }
                                for (size_t n = 0; n < nnc.size() && ok; ++n) if (n1[n] != (int) nnc[n].cell1 + 1 || n2[n] != (int) nnc[n].cell2 + 1) { ok = false; why = "NNC cells (entry " + std::to_string(n) + ")"; }
                            }
                        }
                        // the NNC list as a reader sees it: same entries, same order, repeated pairs included
                        if (ok) {
                            EclIO::EGrid eg(p1);
                            const auto back = eg.get_nnc_ijk();
                            if (back.size() != nnc.size()) { ok = false; why = "wrote " + std::to_string(nnc.size()) + " NNCs, EGrid::get_nnc_ijk() returns " + std::to_string(back.size()); }
                            for (size_t n = 0; n < nnc.size() && ok; ++n) {
                                const auto a1 = g.getIJK(nnc[n].cell1), a2 = g.getIJK(nnc[n].cell2);
                                const auto& [i1, j1, k1, i2, j2, k2, tr] = back[n];
                                (void) tr;
                                if (std::array<int, 3>{ i1, j1, k1 } != a1 || std::array<int, 3>{ i2, j2, k2 } != a2) { ok = false; why = "NNC " + std::to_string(n) + " read back with other cells"; }
                            }
                            if (ok && eg.activeCells() != (int) g.getNumActive()) { ok = false; why = "EGrid::activeCells()"; }
                        }
                        // geometry within single precision of the file
                        const auto& c1 = g.getCOORD(); const auto& c2 = h.getCOORD();
                        const auto& z1 = g.getZCORN(); const auto& z2 = h.getZCORN();
                        if (ok && (c1.size() != c2.size() || z1.size() != z2.size())) { ok = false; why = "array sizes"; }
                        for (size_t n = 0; n < c1.size() && ok; ++n) if (!close(c1[n], c2[n], 2e-7, 1e-30)) { ok = false; why = "COORD[" + std::to_string(n) + "] " + num(c1[n]) + " vs " + num(c2[n]); }
                        for (size_t n = 0; n < z1.size() && ok; ++n) if (!close(z1[n], z2[n], 2e-7, 1e-30)) { ok = false; why = "ZCORN[" + std::to_string(n) + "] " + num(z1[n]) + " vs " + num(z2[n]); }
                        for (size_t gi = 0; gi < g.getCartesianSize() && ok; ++gi) {
                            CellQ a = query(g, gi), c = query(h, gi);
                            const double rel = 5e-7 * (std::fabs(a.ctr[0]) + std::fabs(a.ctr[1]) + std::fabs(a.ctr[2]) + 1) / std::min({ a.dims[0], a.dims[1], std::fabs(a.dims[2]) });
                            if (!close(a.vol, c.vol, 8 * rel)) { ok = false; why = "cell volume after reload " + num(a.vol) + " vs " + num(c.vol); }
                            if (!close(a.depth, c.depth, 4e-7)) { ok = false; why = "cell depth after reload"; }
                        }
                        // second generation: load(save(load(save g))) writes the identical file
                        if (ok) {
                            h.save(p2, formatted, nnc, us);
                            if (vh::slurp(p1) != vh::slurp(p2)) { ok = false; why = "save(load(save(g))) != save(g) (file bytes)"; }
                        }
                    } catch (const std::exception& e) { ok = false; why = "exception"; }
                    if (ok) log.ok(); else log.fail(formatted ? "egrid.formatted" : "egrid.unformatted",
                        std::string(gridUnitName(su)) + " deckunit=" + unitKw(b.unit) + " " + why + " nnc=" + nncStr(nnc) + " coord=" + hexV(g.getCOORD()) + " zcorn=" + hexV(g.getZCORN()) + " actnum=" + joinI(g.getACTNUM()));
                    st[formatted ? "egrid.formatted" : "egrid.unformatted"]++;
                }
            }
        }
        // P7: operation sequences on one object
        if (!indexBroken) {
            bool staleReported = false;
            const int nseq = thorough ? 240 : 60;
            for (int t = 0; t < nseq; ++t) propSeq(log, st, rng, thorough ? 5 : 4, tmp, fileNo, staleReported);
        }
        // P8-P12 (third round)
        if (!indexBroken) {
            const int n3 = thorough ? 160 : 40;
            bool radialReloadReported = false;
            for (int t = 0; t < n3; ++t) {
                propMinpv(log, st, rng, thorough ? 6 : 5);
                propRadial(log, st, rng, thorough ? 6 : 4, tmp, fileNo, radialReloadReported);
                propGridunit(log, st, rng, thorough ? 5 : 4, tmp, fileNo);
                propMapaxes(log, st, rng, tmp, fileNo);
                propHardCP(log, st, rng, thorough ? 7 : 5, tmp, fileNo);
            }
            // P13-P15 (fourth round)
            bool gapReported = false;
            for (int t = 0; t < 3 * n3; ++t) propTops(log, st, rng, thorough ? 6 : 5, gapReported);
            for (int t = 0; t < n3; ++t) {
                propAqu(log, st, rng, thorough ? 6 : 5, tmp, fileNo);
                propNormal(log, st, rng, thorough ? 6 : 5);
            }
            for (int t = 0; t < 2 * n3; ++t) propLean(log, st, rng, thorough ? 5 : 4, tmp, fileNo);
        }
        // P5: thread-count independence, observed: re-exec with OMP_NUM_THREADS = 1, 4, 16 and compare bits
        if (indexBroken) {
            // index maps broken in the first round: nothing else was (or can safely be) evaluated
        } else {
            std::vector<std::string> outs;
            bool ran = true;
            for (int nt : { 1, 4, 16 }) {
                const std::string f = tmp + "/vols" + std::to_string(nt) + ".txt";
                const std::string cmd = "OMP_NUM_THREADS=" + std::to_string(nt) + " '" + std::string(argv[0]) + "' vols " + std::to_string(seed) + " " + tier + " '" + f + "'";
                if (std::system(cmd.c_str()) != 0) { ran = false; break; }
                outs.push_back(vh::slurp(f));
            }
            if (!ran) log.fail("threads", "could not re-execute the harness with OMP_NUM_THREADS set");
            else if (outs[0].empty() || outs[0] != outs[1] || outs[0] != outs[2]) log.fail("threads", "per-cell activeVolume() differs between OMP_NUM_THREADS=1,4,16 seed=" + std::to_string(seed));
            else {
                // and the parallel loop equals the serial per-cell computation
                bool ok = true;
                auto fresh = omGrids(seed, tier);          // never asked for activeVolume(): serial, uncached path
                size_t gno = 0;
                for (auto& g : omGrids(seed, tier)) {
                    const bool radial = gno + 1 == fresh.size();      // the last one is the RADIAL grid
                    const auto& v = g.activeVolume();
                    for (size_t a = 0; a < v.size() && ok; ++a) {
                        A8 X, Y, Z; corners(g, g.getGlobalIndex(a), X, Y, Z);
                        if (!radial && vh::hexF64(calculateCellVol(X, Y, Z)) != vh::hexF64(v[a])) ok = false;
                        if (vh::hexF64(fresh[gno].getCellVolume(g.getGlobalIndex(a))) != vh::hexF64(v[a])) ok = false;
                    }
                    ++gno;
                }
                if (ok) log.ok(); else log.fail("threads", "activeVolume()[a] != serial per-cell volume of global(a) (calculateCellVol / getCellVolume of an object without cache)");
            }
            st["threads"] += 3;
        }
        std::ofstream f(outdir + "/prop_stats.json");
        f << "{\n  \"checked\": " << log.checked << ",\n  \"failed\": " << log.failed;
        for (auto& kv : st) f << ",\n  \"" << kv.first << "\": " << kv.second;
        f << "\n}\n";
        fs::remove_all(tmp);
        return 0;
    }
    std::cerr << "unknown mode\n";
    return 2;
}
