// C16 harness: drives the real dense-AD classes of the working tree (header only).
//
//   densead corr <seed> <tier> <outdir>   correspondence: random expression trees evaluated by the
//                                         real Evaluation classes; the op line carries inputs,
//                                         postfix program and the real result, the Lean model
//                                         (generated definitions at Float) answers ok / diff.
//   densead prop <seed> <tier> <outdir>   property mode on the implementation alone:
//        variants   unrolled N / generic loop form (primary template, staticSize = 1) /
//                   dynamic evaluate every tree to the same bits
//        mixed      scalar (o) Evaluation == lifted all-Evaluation form
//        dual       value()/derivative(i) == independent dual-number evaluator (textbook rules)
//        fd         derivative(i) == central finite differences of value() (Richardson, adaptive)
//        probes     scalar / dynamic Evaluation (in a forked child), atan2(scalar, Evaluation)
//                   (try-compile done by lib/props/C16.py -> -DDENSEAD_HAVE_SATAN2=0/1)
//
// Doubles cross the protocol as 16 hex digits.
#include "common/vh.hpp"

#include <opm/material/densead/Evaluation.hpp>
#include <opm/material/densead/Math.hpp>

#include <algorithm>
#include <cmath>
#include <filesystem>
#include <iostream>
#include <limits>
#include <sys/wait.h>
#include <unistd.h>

#ifndef DENSEAD_HAVE_SATAN2
#define DENSEAD_HAVE_SATAN2 0
#endif
// does `createVariable(int nVars, value, varPos)` of the statically sized classes instantiate?
// (try-compile probes of lib/props/C16.py; U = specialisations, L = primary template)
#ifndef DENSEAD_HAVE_CREATEVARN_U
#define DENSEAD_HAVE_CREATEVARN_U 0
#endif
#ifndef DENSEAD_HAVE_CREATEVARN_L
#define DENSEAD_HAVE_CREATEVARN_L 0
#endif
// property-mode statements that the unchanged tree violates (reported, see design.d/C16.md); armed by
// lib/props/C16.py once the code is fixed
#ifndef DENSEAD_ARM_GENERIC_ARITY
#define DENSEAD_ARM_GENERIC_ARITY 0
#endif
#ifndef DENSEAD_ARM_DYNAMIC_PREDICATES
#define DENSEAD_ARM_DYNAMIC_PREDICATES 0
#endif

namespace fs = std::filesystem;
namespace AD = Opm::DenseAd;

namespace {

enum Op {
    X, VAR, CONST,
    ADD, SUB, MUL, DIV, ADDS, SUBS, MULS, DIVS, SADD, SSUB, SMUL, SDIV, NEG,
    DUPADD, DUPSUB, DUPMUL, DUPDIV, ASSIGN, COPYD, CLEARD,
    ABS, TAN, ATAN, SIN, ASIN, SINH, ASINH, COS, ACOS, COSH, ACOSH, SQRT, EXP, LOG, LOG10,
    POW, POWS, SPOW, ATAN2, ATAN2S, SATAN2, MIN, MAX, SMIN, SMAX, MINS, MAXS,
    NOPS
};
const char* opName[NOPS] = {
    "x", "var", "const",
    "add", "sub", "mul", "div", "adds", "subs", "muls", "divs", "sadd", "ssub", "smul", "sdiv", "neg",
    "addSelf", "subSelf", "mulSelf", "divSelf", "assign", "copyDerivatives", "clearDerivatives",
    "m.abs", "m.tan", "m.atan", "m.sin", "m.asin", "m.sinh", "m.asinh", "m.cos", "m.acos", "m.cosh", "m.acosh",
    "m.sqrt", "m.exp", "m.log", "m.log10",
    "m.pow", "m.pows", "m.spow", "m.atan2", "m.atan2s", "m.satan2", "m.min", "m.max", "m.smin", "m.smax", "m.mins", "m.maxs"
};
// arity class: 0 leaf, 1 = E, 2 = E E, 3 = E S, 4 = S E
int shape(Op o) {
    switch (o) {
    case X: case VAR: case CONST: return 0;
    case NEG: case DUPADD: case DUPSUB: case DUPMUL: case DUPDIV: case CLEARD:
    case ABS: case TAN: case ATAN: case SIN: case ASIN: case SINH: case ASINH: case COS: case ACOS:
    case COSH: case ACOSH: case SQRT: case EXP: case LOG: case LOG10: return 1;
    case ADD: case SUB: case MUL: case DIV: case COPYD: case POW: case ATAN2: case MIN: case MAX: return 2;
    case ADDS: case SUBS: case MULS: case DIVS: case ASSIGN: case POWS: case ATAN2S: case MINS: case MAXS: return 3;
    default: return 4;
    }
}

struct Node { Op op; int l = -1, r = -1, k = 0, pos = 0, form = 0; };

struct Case {
    int n = 0;                                   // number of derivatives
    std::vector<std::vector<double>> xs;          // input evaluations (n+1 doubles each)
    std::vector<double> ss;                       // scalars
    std::vector<Node> nodes;                      // post-order; root = last
    int depth = 0;
};

// ---------------------------------------------------------------------------------------------
// independent dual-number evaluator (textbook rules, own code; nothing shared with Opm)
// `e[i]` is the conditioning of derivative i: the sum of the ABSOLUTE values of all chain-rule terms that
// were added up (|fx||x'| + |fy||y'|, recursively).  Where the terms cancel (atan2(s*x, x): x'y - xy' = 0
// exactly in the implementation's formula, rounding noise of size eps*e in the textbook form) the two
// evaluations can only be compared relative to e, not relative to the (tiny) result.
struct Ref {
    double v = 0; std::vector<double> d, e;
    Ref() {}
    Ref(int n, double c) : v(c), d(n, 0.0), e(n, 0.0) {}
};
Ref chain(const Ref& x, double f, double df) {
    Ref r; r.v = f; r.d.resize(x.d.size()); r.e.resize(x.d.size());
    for (size_t i = 0; i < x.d.size(); ++i) { r.d[i] = df * x.d[i]; r.e[i] = std::fabs(df) * x.e[i]; }
    return r;
}
Ref chain2(const Ref& x, const Ref& y, double f, double fx, double fy) {
    Ref r; r.v = f; r.d.resize(x.d.size()); r.e.resize(x.d.size());
    for (size_t i = 0; i < x.d.size(); ++i) { r.d[i] = fx * x.d[i] + fy * y.d[i]; r.e[i] = std::fabs(fx) * x.e[i] + std::fabs(fy) * y.e[i]; }
    return r;
}

bool refEval(const Case& c, std::vector<Ref>& val, int upto = -1) {
    const int n = c.n;
    if (upto < 0) upto = (int) c.nodes.size();
    val.resize(c.nodes.size());
    for (int i = (int) val.size() > upto ? upto - 1 : 0; i < upto; ++i) {
        const Node& nd = c.nodes[i];
        const Ref* a = nd.l >= 0 ? &val[nd.l] : nullptr;
        const Ref* b = nd.r >= 0 ? &val[nd.r] : nullptr;
        const double s = c.ss.empty() ? 0.0 : c.ss[nd.k % c.ss.size()];
        Ref r;
        switch (nd.op) {
        case X: { const auto& x = c.xs[nd.k]; r.v = x[0]; r.d.assign(x.begin() + 1, x.end()); r.e.resize(r.d.size()); for (size_t q = 0; q < r.d.size(); ++q) r.e[q] = std::fabs(r.d[q]); break; }
        case VAR: r = Ref(n, s); r.d[nd.pos] = 1.0; r.e[nd.pos] = 1.0; break;
        case CONST: r = Ref(n, s); break;
        case ADD: r = chain2(*a, *b, a->v + b->v, 1, 1); break;
        case SUB: r = chain2(*a, *b, a->v - b->v, 1, -1); break;
        case MUL: r = chain2(*a, *b, a->v * b->v, b->v, a->v); break;
        case DIV: r = chain2(*a, *b, a->v / b->v, 1 / b->v, -a->v / (b->v * b->v)); break;
        case ADDS: case SADD: r = chain(*a, a->v + s, 1); break;
        case SUBS: r = chain(*a, a->v - s, 1); break;
        case SSUB: r = chain(*a, s - a->v, -1); break;
        case MULS: case SMUL: r = chain(*a, a->v * s, s); break;
        case DIVS: r = chain(*a, a->v / s, 1 / s); break;
        case SDIV: r = chain(*a, s / a->v, -s / (a->v * a->v)); break;
        case NEG: r = chain(*a, -a->v, -1); break;
        case DUPADD: r = chain(*a, 2 * a->v, 2); break;
        case DUPSUB: r = chain(*a, 0, 0); break;
        case DUPMUL: r = chain(*a, a->v * a->v, 2 * a->v); break;
        case DUPDIV: r = chain(*a, 1, 0); break;
        case ASSIGN: r = Ref(n, s); break;
        case COPYD: r = *b; r.v = a->v; break;
        case CLEARD: r = Ref(n, a->v); break;
        case ABS: r = chain(*a, std::fabs(a->v), a->v > 0 ? 1 : -1); break;
        case TAN: { double cs = std::cos(a->v); r = chain(*a, std::tan(a->v), 1 / (cs * cs)); break; }
        case ATAN: r = chain(*a, std::atan(a->v), 1 / (1 + a->v * a->v)); break;
        case SIN: r = chain(*a, std::sin(a->v), std::cos(a->v)); break;
        case ASIN: r = chain(*a, std::asin(a->v), 1 / std::sqrt((1 - a->v) * (1 + a->v))); break;
        case SINH: r = chain(*a, std::sinh(a->v), std::cosh(a->v)); break;
        case ASINH: r = chain(*a, std::asinh(a->v), 1 / std::hypot(a->v, 1.0)); break;
        case COS: r = chain(*a, std::cos(a->v), -std::sin(a->v)); break;
        case ACOS: r = chain(*a, std::acos(a->v), -1 / std::sqrt((1 - a->v) * (1 + a->v))); break;
        case COSH: r = chain(*a, std::cosh(a->v), std::sinh(a->v)); break;
        case ACOSH: r = chain(*a, std::acosh(a->v), 1 / std::sqrt((a->v - 1) * (a->v + 1))); break;
        case SQRT: { double q = std::sqrt(a->v); r = chain(*a, q, 1 / (2 * q)); break; }
        case EXP: { double e = std::exp(a->v); r = chain(*a, e, e); break; }
        case LOG: r = chain(*a, std::log(a->v), 1 / a->v); break;
        case LOG10: r = chain(*a, std::log10(a->v), 1 / (a->v * std::log(10.0))); break;
        case POW: {
            if (a->v == 0.0) { r = Ref(n, 0.0); break; }   // only generated outside property mode
            double p = std::pow(a->v, b->v);
            r = chain2(*a, *b, p, b->v * std::pow(a->v, b->v - 1), std::log(a->v) * p); break; }
        case POWS: r = (a->v == 0.0) ? Ref(n, 0.0) : chain(*a, std::pow(a->v, s), s * std::pow(a->v, s - 1)); break;
        case SPOW: r = (s == 0.0) ? Ref(n, 0.0) : chain(*a, std::pow(s, a->v), std::log(s) * std::pow(s, a->v)); break;
        case ATAN2: { double q = a->v * a->v + b->v * b->v; r = chain2(*a, *b, std::atan2(a->v, b->v), b->v / q, -a->v / q); break; }
        case ATAN2S: { double q = a->v * a->v + s * s; r = chain(*a, std::atan2(a->v, s), s / q); break; }
        case SATAN2: { double q = a->v * a->v + s * s; r = chain(*a, std::atan2(s, a->v), -s / q); break; }
        case MIN: r = (a->v < b->v) ? *a : *b; break;
        case MAX: r = (a->v > b->v) ? *a : *b; break;
        case SMIN: case MINS: r = (s < a->v) ? Ref(n, s) : *a; break;
        case SMAX: case MAXS: r = (s > a->v) ? Ref(n, s) : *a; break;
        default: return false;
        }
        val[i] = r;
    }
    return true;
}

// domain of the operation given the reference values of the operands.  `strict` (property mode)
// additionally keeps away from kinks, ties and the 0-base branch of pow(E,E).
bool inDomain(Op o, const Ref* a, const Ref* b, double s, bool strict) {
    const double av = a ? a->v : 0, bv = b ? b->v : 0;
    switch (o) {
    case DIV: return std::fabs(bv) > 0.05;
    case DIVS: return std::fabs(s) > 0.05;
    case SDIV: case DUPDIV: return std::fabs(av) > 0.05;
    case ABS: return !strict || std::fabs(av) > 1e-3;
    case TAN: return std::fabs(std::cos(av)) > 0.1;
    case ASIN: case ACOS: return std::fabs(av) < 0.95;
    case ACOSH: return av > 1.05;
    case SINH: case COSH: case EXP: return std::fabs(av) < 15;
    case SQRT: case LOG: case LOG10: return av > 0.01;
    case POW: return (av > 0.01 && std::fabs(bv) < 6) || (!strict && av == 0.0);
    case POWS: return (av > 0.01 && std::fabs(s) < 6) || (av == 0.0 && s > 1.0);
    case SPOW: return (s > 0.01 && std::fabs(av) < 6) || (s == 0.0 && av > 0.0);
    // (the implementation's formula divides by y*y; strict mode also keeps off the branch cut)
    case ATAN2: return std::fabs(bv) > 0.05 && (!strict || bv > 0 || std::fabs(av) > 1e-3);
    case ATAN2S: return std::fabs(s) > 0.05 && (!strict || s > 0 || std::fabs(av) > 1e-3);
    case SATAN2: return std::fabs(av) > 0.05 && (!strict || av > 0 || std::fabs(s) > 1e-3);
    case MIN: case MAX: return !strict || std::fabs(av - bv) > 1e-3;
    case SMIN: case SMAX: case MINS: case MAXS: return !strict || std::fabs(av - s) > 1e-3;
    default: return true;
    }
}
bool tame(const Ref& r) {
    if (!std::isfinite(r.v) || std::fabs(r.v) > 1e6) return false;
    for (double d : r.d) if (!std::isfinite(d) || std::fabs(d) > 1e8) return false;
    return true;
}

struct GenOpts {
    bool strict = false;        // property mode: stay inside the differentiable domain
    bool varsOnly = false;      // leaves are independent variables / constants only (finite differences)
    bool sdivOk = true;         // scalar / Evaluation usable for this variant
    bool satan2Ok = DENSEAD_HAVE_SATAN2;
};

struct Gen {
    vh::Rng& rng; Case& c; const GenOpts& o; std::vector<Ref> val;
    Gen(vh::Rng& r, Case& cs, const GenOpts& op) : rng(r), c(cs), o(op) {}

    int push(const Node& nd) {
        c.nodes.push_back(nd);
        refEval(c, val, (int) c.nodes.size());
        return (int) c.nodes.size() - 1;
    }
    // scalar operands: in varsOnly mode ss[0..n-1] are the coordinates of the point, constants follow
    int scalarIdx() { return o.varsOnly ? rng.range(c.n, (int) c.ss.size() - 1) : rng.range(0, (int) c.ss.size() - 1); }
    int leaf() {
        Node nd;
        int pick = rng.range(0, 9);
        if (o.varsOnly) pick = rng.coin(4, 5) ? 9 : 8;
        if (pick <= 5) { nd.op = X; nd.k = rng.range(0, (int) c.xs.size() - 1); }
        else if (pick <= 8) { nd.op = CONST; nd.k = scalarIdx(); }
        else { nd.op = VAR; nd.pos = rng.range(0, c.n - 1); nd.k = o.varsOnly ? nd.pos : scalarIdx(); }
        return push(nd);
    }
    int gen(int depth) {
        if (depth == 0 || rng.coin(1, 7)) return leaf();
        // children first
        int cat = rng.range(0, 99);
        int sh = cat < 30 ? 1 : cat < 65 ? 2 : cat < 83 ? 3 : 4;
        int l = gen(depth - 1);
        int r = (sh == 2) ? gen(rng.coin() ? depth - 1 : rng.range(0, depth - 1)) : -1;
        std::vector<Op> cand;
        for (int q = 0; q < NOPS; ++q) if (shape((Op) q) == sh) cand.push_back((Op) q);
        for (int attempt = 0; attempt < 12; ++attempt) {
            Node nd; nd.op = rng.pick(cand); nd.l = l; nd.r = r;
            nd.k = scalarIdx(); nd.form = rng.range(0, 1);
            if (nd.op == SDIV && !o.sdivOk) continue;
            if (nd.op == SATAN2 && !o.satan2Ok) continue;
            if (o.varsOnly && (nd.op == COPYD || nd.op == CLEARD || nd.op == ASSIGN)) continue;   // not functions of the point
            if (!inDomain(nd.op, &val[l], r >= 0 ? &val[r] : nullptr, c.ss[nd.k], o.strict)) continue;
            int id = push(nd);
            if (tame(val[id])) return id;
            c.nodes.pop_back(); val.pop_back();
        }
        Node nd; nd.l = l; nd.r = r;
        nd.op = (sh == 2) ? (rng.coin() ? MIN : MAX) : NEG;
        if (sh == 2 && o.strict && !inDomain(MIN, &val[l], &val[r], 0, true)) nd.op = COPYD;
        if (o.varsOnly && nd.op == COPYD) { nd.op = NEG; nd.r = -1; }
        return push(nd);
    }
};

double randVal(vh::Rng& rng) {
    int k = rng.range(0, 19);
    if (k == 0) return 0.0;
    if (k == 1) return 1.0;
    if (k == 2) return -1.0;
    if (k == 3) return rng.range(-4, 4);
    if (k <= 6) return 0.05 + 0.9 * rng.unit();              // inside (-1,1): asin/acos
    if (k <= 9) return 1.1 + 3.0 * rng.unit();               // > 1: acosh
    return -3.0 + 6.0 * rng.unit();
}
double randScalar(vh::Rng& rng) {
    int k = rng.range(0, 11);
    if (k == 0) return 0.0;
    if (k == 1) return 2.0;
    if (k == 2) return 0.5;
    if (k == 3) return rng.range(-3, 3);
    double v = -3.0 + 6.0 * rng.unit();
    return v;
}

Case makeCase(vh::Rng& rng, int n, int maxDepth, const GenOpts& o) {
    Case c; c.n = n;
    int nx = 3;
    for (int i = 0; i < nx; ++i) {
        std::vector<double> x(n + 1);
        x[0] = randVal(rng);
        for (int j = 1; j <= n; ++j) {
            int k = rng.range(0, 9);
            x[j] = k == 0 ? 0.0 : k == 1 ? 1.0 : (-2.0 + 4.0 * rng.unit());
        }
        c.xs.push_back(x);
    }
    int ns = o.varsOnly ? n + 3 : 3;
    for (int i = 0; i < ns; ++i) c.ss.push_back(o.varsOnly ? (0.2 + 2.5 * rng.unit()) * (rng.coin(1, 4) ? -1 : 1) : randScalar(rng));
    c.depth = rng.range(1, maxDepth);
    Gen g(rng, c, o);
    g.gen(c.depth);
    return c;
}

std::string program(const Case& c) {
    // post-order program: because nodes are stored children-first and every node is used exactly
    // once as a child (tree), emit recursively from the root
    std::string out;
    struct Rec { const Case& c; std::string& out;
        void go(int i) {
            const Node& nd = c.nodes[i];
            auto S = [&] { out += "s" + std::to_string(nd.k) + " "; };
            switch (shape(nd.op)) {
            case 0:
                if (nd.op == X) { out += "x" + std::to_string(nd.k) + " "; }
                else if (nd.op == VAR) { S(); out += "var" + std::to_string(nd.pos) + " "; }
                else { S(); out += "const "; }
                return;
            case 1: go(nd.l); break;
            case 2: go(nd.l); go(nd.r); break;
            case 3: go(nd.l); S(); break;
            default: S(); go(nd.l); break;
            }
            out += opName[nd.op]; out += " ";
        } } rec{c, out};
    rec.go((int) c.nodes.size() - 1);
    return out;
}

// ---------------------------------------------------------------------------------------------
// the real code

template <class E> struct Traits {
    static constexpr bool dynamic = (E::numVars == AD::DynamicSize);
    static E blank(int n) { if constexpr (dynamic) return E(n); else { (void) n; return E(); } }
    static E constant(int n, double c, int form) {
        if constexpr (dynamic) return form ? E::createConstant(n, c) : E(n, c);
        else { (void) n; if (form) return E::createConstant(c); return E(c); }
    }
    static E variable(int n, double c, int pos, int form) {
        if constexpr (dynamic) return form ? E::createVariable(n, c, pos) : E(n, c, pos);
        else { (void) n; if (form) return E::createVariable(c, pos); return E(c, pos); }
    }
};

template <class E> E fromVec(int n, const std::vector<double>& x) {
    E e = Traits<E>::blank(n);
    e.setValue(x[0]);
    for (int j = 0; j < n; ++j) e.setDerivative(j, x[j + 1]);
    return e;
}
template <class E> std::vector<double> toVec(const E& e) {
    std::vector<double> out; out.push_back(e.value());
    for (int j = 0; j < e.size(); ++j) out.push_back(e.derivative(j));
    return out;
}

template <class E> E evalNode(const Case& c, int i) {
    const Node& nd = c.nodes[i];
    const int n = c.n, f = nd.form;
    const double s = c.ss[nd.k % c.ss.size()];
    using T = Traits<E>;
    if (nd.op == X) return fromVec<E>(n, c.xs[nd.k]);
    if (nd.op == VAR) return T::variable(n, s, nd.pos, f);
    if (nd.op == CONST) return T::constant(n, s, f);
    E a = evalNode<E>(c, nd.l);
    switch (nd.op) {
    case ADD: { E b = evalNode<E>(c, nd.r); if (f) { a += b; return a; } return a + b; }
    case SUB: { E b = evalNode<E>(c, nd.r); if (f) { a -= b; return a; } return a - b; }
    case MUL: { E b = evalNode<E>(c, nd.r); if (f) { a *= b; return a; } return a * b; }
    case DIV: { E b = evalNode<E>(c, nd.r); if (f) { a /= b; return a; } return a / b; }
    case ADDS: if (f) { a += s; return a; } return a + s;
    case SUBS: if (f) { a -= s; return a; } return a - s;
    case MULS: if (f) { a *= s; return a; } return a * s;
    case DIVS: if (f) { a /= s; return a; } return a / s;
    case SADD: return s + a;
    case SSUB: return s - a;
    case SMUL: return s * a;
    case SDIV: return s / a;
    case NEG: return -a;
    case DUPADD: a += a; return a;
    case DUPSUB: a -= a; return a;
    case DUPMUL: a *= a; return a;
    case DUPDIV: a /= a; return a;
    case ASSIGN: a = s; return a;
    case COPYD: { E b = evalNode<E>(c, nd.r); a.copyDerivatives(b); return a; }
    case CLEARD: a.clearDerivatives(); return a;
    case ABS: return f ? Opm::abs(a) : AD::abs(a);
    case TAN: return f ? Opm::tan(a) : AD::tan(a);
    case ATAN: return f ? Opm::atan(a) : AD::atan(a);
    case SIN: return f ? Opm::sin(a) : AD::sin(a);
    case ASIN: return f ? Opm::asin(a) : AD::asin(a);
    case SINH: return AD::sinh(a);
    case ASINH: return AD::asinh(a);
    case COS: return f ? Opm::cos(a) : AD::cos(a);
    case ACOS: return f ? Opm::acos(a) : AD::acos(a);
    case COSH: return AD::cosh(a);
    case ACOSH: return AD::acosh(a);
    case SQRT: return f ? Opm::sqrt(a) : AD::sqrt(a);
    case EXP: return f ? Opm::exp(a) : AD::exp(a);
    case LOG: return f ? Opm::log(a) : AD::log(a);
    case LOG10: return f ? Opm::log10(a) : AD::log10(a);
    case POW: { E b = evalNode<E>(c, nd.r); return f ? Opm::pow(a, b) : AD::pow(a, b); }
    case POWS: return f ? Opm::pow(a, s) : AD::pow(a, s);
    case SPOW: return f ? Opm::pow(s, a) : AD::pow(s, a);
    case ATAN2: { E b = evalNode<E>(c, nd.r); return f ? Opm::atan2(a, b) : AD::atan2(a, b); }
    case ATAN2S: return AD::atan2(a, s);
#if DENSEAD_HAVE_SATAN2
    case SATAN2: return AD::atan2(s, a);
#endif
    case MIN: { E b = evalNode<E>(c, nd.r); return f ? Opm::min(a, b) : AD::min(a, b); }
    case MAX: { E b = evalNode<E>(c, nd.r); return f ? Opm::max(a, b) : AD::max(a, b); }
    case SMIN: return f ? Opm::min(s, a) : AD::min(s, a);
    case SMAX: return f ? Opm::max(s, a) : AD::max(s, a);
    case MINS: return f ? Opm::min(a, s) : AD::min(a, s);
    case MAXS: return f ? Opm::max(a, s) : AD::max(a, s);
    default: throw std::logic_error("evalNode: unhandled op");
    }
}
template <class E> std::vector<double> evalReal(const Case& c) { return toVec(evalNode<E>(c, (int) c.nodes.size() - 1)); }

using Dyn = AD::Evaluation<double, AD::DynamicSize, 6>;   // sizes <= 6 in the small buffer, larger on the heap

// variant: 'U' specialisation, 'L' primary template (loop form), 'D' dynamic
std::vector<double> evalVariant(char v, const Case& c) {
    if (v == 'D') return evalReal<Dyn>(c);
#define U_CASE(N) case N: return evalReal<AD::Evaluation<double, N>>(c);
#define L_CASE(N) case N: return evalReal<AD::Evaluation<double, N, 1u>>(c);
    if (v == 'U') {
        switch (c.n) { U_CASE(1) U_CASE(2) U_CASE(3) U_CASE(4) U_CASE(5) U_CASE(6) U_CASE(7) U_CASE(8) U_CASE(9) U_CASE(10) U_CASE(11) U_CASE(12) }
    } else if (v == 'L') {
        switch (c.n) {
            L_CASE(1) L_CASE(2) L_CASE(3) L_CASE(4) L_CASE(5) L_CASE(6) L_CASE(7) L_CASE(8) L_CASE(9) L_CASE(10) L_CASE(11) L_CASE(12)
            U_CASE(13) U_CASE(14) U_CASE(15) U_CASE(16)      // no specialisation: primary template
        }
    }
    throw std::logic_error("evalVariant: unsupported variant/size");
}

std::string hexVec(const std::vector<double>& v) { std::string s; for (double d : v) s += vh::hexF64(d); return s; }

// ---------------------------------------------------------------------------------------------
// second operator set: comparison operators and factories on the real classes

template <class E> struct Tag { using type = E; };
template <class F> void withVariant(char v, int n, F&& f) {
    if (v == 'D') { f(Tag<Dyn>{}); return; }
#define UV_CASE(N) case N: f(Tag<AD::Evaluation<double, N>>{}); return;
#define LV_CASE(N) case N: f(Tag<AD::Evaluation<double, N, 1u>>{}); return;
    if (v == 'U') {
        switch (n) { UV_CASE(1) UV_CASE(2) UV_CASE(3) UV_CASE(4) UV_CASE(5) UV_CASE(6) UV_CASE(7) UV_CASE(8) UV_CASE(9) UV_CASE(10) UV_CASE(11) UV_CASE(12) }
    } else if (v == 'L') {
        switch (n) {
            LV_CASE(1) LV_CASE(2) LV_CASE(3) LV_CASE(4) LV_CASE(5) LV_CASE(6) LV_CASE(7) LV_CASE(8) LV_CASE(9) LV_CASE(10) LV_CASE(11) LV_CASE(12)
            UV_CASE(13) UV_CASE(14) UV_CASE(15) UV_CASE(16)
        }
    }
    throw std::logic_error("withVariant: unsupported variant/size");
}

// eqE neE ltE gtE leE geE | eqS neS ltS gtS leS geS | sne slt sgt sle sge
const char* cmpName[17] = { "eqE", "neE", "ltE", "gtE", "leE", "geE", "eqS", "neS", "ltS", "gtS", "leS", "geS", "sne", "slt", "sgt", "sle", "sge" };
std::string cmpReal(char v, int n, const std::vector<double>& A, const std::vector<double>& B, double c) {
    std::string s;
    withVariant(v, n, [&](auto tag) {
        using E = typename decltype(tag)::type;
        const E a = fromVec<E>(n, A), b = fromVec<E>(n, B);
        auto p = [&](bool x) { s += x ? '1' : '0'; };
        p(a == b); p(a != b); p(a < b); p(a > b); p(a <= b); p(a >= b);
        p(a == c); p(a != c); p(a < c); p(a > c); p(a <= c); p(a >= c);
        p(c != a); p(c < a); p(c > a); p(c <= a); p(c >= a);
    });
    return s;
}
// the statement, on plain doubles
std::string cmpExpected(const std::vector<double>& A, const std::vector<double>& B, double c) {
    std::string s; auto p = [&](bool x) { s += x ? '1' : '0'; };
    bool eq = true; for (size_t i = 0; i < A.size(); ++i) eq = eq && A[i] == B[i];
    const double a = A[0], b = B[0];
    p(eq); p(!eq); p(a < b); p(a > b); p(a <= b); p(a >= b);
    p(a == c); p(a != c); p(a < c); p(a > c); p(a <= c); p(a >= c);
    p(c != a); p(c < a); p(c > a); p(c <= a); p(c >= a);
    return s;
}
struct CmpCase { std::vector<double> A, B; double c; };
CmpCase makeCmp(vh::Rng& rng, int n, bool withNan) {
    CmpCase k; k.A.resize(n + 1); k.B.resize(n + 1);
    auto val = [&] { int q = rng.range(0, 9); return q == 0 ? 0.0 : q == 1 ? -0.0 : q == 2 ? 1.0 : (double) rng.range(-2, 2) + (rng.coin() ? 0.0 : rng.unit()); };
    for (auto& x : k.A) x = val();
    int mode = rng.range(0, 5);
    if (mode == 0) k.B = k.A;                                              // equal in every slot
    else if (mode == 1) { k.B = k.A; k.B[rng.range(0, n)] += 0.5; }        // exactly one slot differs
    else if (mode == 2) { for (auto& x : k.B) x = val(); k.B[0] = k.A[0]; } // tie of the values only
    else if (mode == 3) { k.B = k.A; k.B[rng.range(1, n)] = val(); }
    else for (auto& x : k.B) x = val();
    k.c = rng.coin() ? k.A[0] : val();
    if (withNan && rng.coin(1, 25)) (rng.coin() ? k.A : k.B)[rng.range(0, n)] = std::nan("");
    if (rng.coin(1, 30)) { k.A[0] = 0.0; k.B[0] = -0.0; k.c = rng.coin() ? 0.0 : -0.0; }
    return k;
}

struct FactCase { std::string kind; int nVars = 0, pos = 0, form = 0; double c = 0; };
// -> "err" when the factory throws, else the slots
std::string factReal(char v, int n, const FactCase& f) {
    std::string out;
    withVariant(v, n, [&](auto tag) {
        using E = typename decltype(tag)::type;
        using TB = Opm::MathToolbox<E>;
        constexpr bool dyn = Traits<E>::dynamic;
        const E x = Traits<E>::constant(n, 7.25, 0);
        try {
            if (f.kind == "zero") out = hexVec(toVec(f.form ? TB::createConstantZero(x) : E::createConstantZero(x)));
            else if (f.kind == "one") out = hexVec(toVec(f.form ? TB::createConstantOne(x) : E::createConstantOne(x)));
            else if (f.kind == "cx") out = hexVec(toVec(f.form ? TB::createConstant(x, f.c) : E::createConstant(x, f.c)));
            else if (f.kind == "vx") out = hexVec(toVec(E::createVariable(x, f.c, f.pos)));
            else if (f.kind == "c1") out = hexVec(toVec(f.form ? TB::createConstant(f.c) : E::createConstant(f.c)));
            else if (f.kind == "v2") out = hexVec(toVec(f.form ? TB::createVariable(f.c, f.pos) : E::createVariable(f.c, f.pos)));
            else if (f.kind == "cn") out = hexVec(toVec(f.form && f.nVars >= 0 ? TB::createConstant((unsigned) f.nVars, f.c) : E::createConstant(f.nVars, f.c)));
            else if (f.kind == "blank") { if constexpr (!dyn) out = hexVec(toVec(f.form ? TB::createBlank(x) : E::createBlank(x))); else out = "skip"; }
            else if (f.kind == "vn") {
                if constexpr (dyn) out = hexVec(toVec(E::createVariable(f.nVars, f.c, f.pos)));
#if DENSEAD_HAVE_CREATEVARN_U
                else if constexpr (E::numVars <= 12) out = hexVec(toVec(E::createVariable(f.nVars, f.c, f.pos)));
#endif
#if DENSEAD_HAVE_CREATEVARN_L
                else if constexpr (E::numVars > 12) out = hexVec(toVec(E::createVariable(f.nVars, f.c, f.pos)));
#endif
                else out = "skip";
            }
            else throw std::runtime_error("factReal: kind");
        } catch (const std::logic_error&) { out = "err"; }
    });
    return out;
}
FactCase makeFact(vh::Rng& rng, char v, int n) {
    static const char* kinds[] = { "zero", "one", "cx", "vx", "c1", "v2", "cn", "cn", "vn", "blank" };
    FactCase f; f.kind = kinds[rng.below(10)];
    f.c = randScalar(rng); f.pos = rng.range(0, n - 1); f.form = rng.range(0, 1);
    f.nVars = n;
    if (v != 'D' && (f.kind == "cn" || f.kind == "vn")) { int q = rng.range(0, 3); f.nVars = q == 0 ? 0 : q == 1 ? n + 1 : q == 2 ? n - 1 : n; }
    return f;
}
// the statement: what a factory has to return (empty = must throw)
std::vector<double> factExpected(char v, int n, const FactCase& f, bool& mustThrow) {
    mustThrow = false;
    std::vector<double> r(n + 1, 0.0);
    if (f.kind == "zero" || f.kind == "blank") return r;
    if (f.kind == "one") { r[0] = 1.0; return r; }
    if (f.kind == "c1" || f.kind == "v2") { if (v == 'D') { mustThrow = true; return r; } }
    if (f.kind == "cn" || f.kind == "vn") { if (v != 'D' && f.nVars != n) { mustThrow = true; return r; } }
    r[0] = f.c;
    if (f.kind == "vx" || f.kind == "v2" || f.kind == "vn") r[f.pos + 1] = 1.0;
    return r;
}

// scalar / dynamic Evaluation, run in a child process (it may abort or read out of bounds)
bool probeDynamicScalarDiv(std::string& detail) {
    int fd[2];
    if (pipe(fd) != 0) { detail = "pipe failed"; return false; }
    pid_t pid = fork();
    if (pid == 0) {
        close(fd[0]);
        if (!freopen("/dev/null", "w", stderr)) _exit(3);
        Dyn x = Dyn::createVariable(3, 2.0, 1);
        Dyn r = 5.5 / x;
        double out[3] = { (double) r.size(), r.value(), r.size() > 1 ? r.derivative(1) : std::nan("") };
        ssize_t w = write(fd[1], out, sizeof out); (void) w;
        _exit(0);
    }
    close(fd[1]);
    double out[3] = { 0, 0, 0 };
    ssize_t got = read(fd[0], out, sizeof out);
    close(fd[0]);
    int status = 0;
    waitpid(pid, &status, 0);
    if (!WIFEXITED(status) || WEXITSTATUS(status) != 0 || got != (ssize_t) sizeof out) {
        detail = "5.5/variable(3,2.0,1): child " + std::string(WIFSIGNALED(status) ? "killed by signal " + std::to_string(WTERMSIG(status)) : "failed") + " (assert size()==other.size() in operator/=)";
        return false;
    }
    if (out[0] != 3 || out[1] != 2.75 || out[2] != -1.375) {
        detail = "5.5/variable(3,2.0,1): size=" + std::to_string((int) out[0]) + " value=" + vh::hexF64(out[1]) + " d1=" + vh::hexF64(out[2]) + " expected size 3 value 2.75 d1 -1.375";
        return false;
    }
    return true;
}

bool close(double a, double b, double rel, double scale) {
    if (a == b) return true;
    if (!std::isfinite(a) || !std::isfinite(b)) return false;
    return std::fabs(a - b) <= rel * std::max({ std::fabs(a), std::fabs(b), scale });
}

std::string describe(char v, const Case& c) {
    std::string s = std::string(1, v) + " n=" + std::to_string(c.n) + " xs=";
    for (auto& x : c.xs) s += hexVec(x) + ",";
    s += " ss=" + hexVec(c.ss) + " prog=" + program(c);
    for (char& ch : s) if (ch == '\n') ch = ' ';
    return s;
}

struct Sizes { char v; int n; };
Sizes pickVariant(vh::Rng& rng) {
    int k = rng.range(0, 9);
    if (k <= 4) return { 'U', rng.range(1, 12) };
    if (k <= 6) return { 'L', rng.coin(2, 3) ? rng.range(13, 16) : rng.range(1, 12) };
    static const std::vector<int> dyn = { 1, 2, 3, 4, 5, 6, 7, 8, 9, 12, 13, 16, 20, 24 };
    return { 'D', rng.pick(dyn) };
}

} // namespace

int main(int argc, char** argv) {
    if (argc < 5) { std::cerr << "usage: densead corr|prop <seed> <tier> <outdir>\n"; return 2; }
    const std::string mode = argv[1];
    const uint64_t seed = std::strtoull(argv[2], nullptr, 10);
    const std::string tier = argv[3];
    const std::string outdir = argv[4];
    fs::create_directories(outdir);
    vh::Rng rng(seed);
    const bool thorough = tier == "thorough";

    std::string sdivDetail;
    const bool sdivDynOk = probeDynamicScalarDiv(sdivDetail);

    if (mode == "corr") {
        vh::Sink sink(outdir);
        // what the real code lacks must be exactly what the translator could not translate
        {
            std::string lacking;
            if (!sdivDynOk) lacking += "D.sdiv";
            if (!DENSEAD_HAVE_SATAN2) lacking += std::string(lacking.empty() ? "" : " ") + "M.satan2";
            if (!DENSEAD_HAVE_CREATEVARN_U) lacking += std::string(lacking.empty() ? "" : " ") + "U.createVariableN";
            if (!DENSEAD_HAVE_CREATEVARN_L) lacking += std::string(lacking.empty() ? "" : " ") + "L.createVariableN";
            sink.emit("densead.untranslatable", lacking);
        }
        // comparison operators (ties, one differing slot, NaN, signed zeros) and factories
        const long cmps = thorough ? 60000 : 6000;
        for (long it = 0; it < cmps; ++it) {
            Sizes sz = pickVariant(rng);
            CmpCase k = makeCmp(rng, sz.n, true);
            sink.emit(std::string("densead.cmp ") + sz.v + " " + std::to_string(sz.n) + " " + hexVec(k.A) + " " + hexVec(k.B) + " " + vh::hexF64(k.c) +
                      " = " + cmpReal(sz.v, sz.n, k.A, k.B, k.c), "ok");
            sink.count(std::string("cmp.variant.") + sz.v);
        }
        // MathToolbox<E>::isSame / isfinite / isnan: one slot perturbed / NaN / inf
        const long preds = thorough ? 30000 : 3000;
        for (long it = 0; it < preds; ++it) {
            Sizes sz = pickVariant(rng);
            CmpCase k = makeCmp(rng, sz.n, false);
            k.B = k.A;
            const int slot = rng.range(0, sz.n), what = rng.range(0, 5);
            if (what == 0) k.B[slot] += 0.5; else if (what == 1) k.B[slot] += 1e-11 * (1.0 + std::fabs(k.B[slot]));
            else if (what == 2) k.A[slot] = std::nan(""); else if (what == 3) k.A[slot] = rng.coin() ? INFINITY : -INFINITY;
            else if (what == 4) k.B[slot] *= 1.0 + 1e-8;
            const double tol = rng.coin() ? 1e-9 : 1e-3;
            std::string bits;
            withVariant(sz.v, sz.n, [&](auto tag) {
                using E = typename decltype(tag)::type;
                const E a = fromVec<E>(sz.n, k.A), b = fromVec<E>(sz.n, k.B);
                bits += Opm::MathToolbox<E>::isSame(a, b, tol) ? '1' : '0';
                bits += (rng.coin() ? Opm::MathToolbox<E>::isfinite(a) : Opm::isfinite(a)) ? '1' : '0';
                bits += (rng.coin() ? Opm::MathToolbox<E>::isnan(a) : Opm::isnan(a)) ? '1' : '0';
            });
            sink.emit("densead.pred " + std::to_string(sz.n) + " " + hexVec(k.A) + " " + hexVec(k.B) + " " + vh::hexF64(tol) + " = " + bits, "ok");
            sink.count(std::string("pred.variant.") + sz.v);
            sink.count("pred.bits." + bits);
        }
        const long facts = thorough ? 30000 : 3000;
        for (long it = 0; it < facts; ++it) {
            Sizes sz = pickVariant(rng);
            FactCase f = makeFact(rng, sz.v, sz.n);
            std::string r = factReal(sz.v, sz.n, f);
            if (r == "skip") { sink.count("fact.skipped." + f.kind); continue; }
            sink.emit(std::string("densead.fact ") + sz.v + " " + std::to_string(sz.n) + " " + f.kind + " " + std::to_string(f.nVars) + " " + vh::hexF64(f.c) + " " +
                      std::to_string(f.pos) + " = " + r, "ok");
            sink.count("fact." + f.kind + (r == "err" ? ".throws" : ""));
        }
        const long cases = thorough ? 250000 : 20000;
        for (long it = 0; it < cases; ++it) {
            Sizes sz = pickVariant(rng);
            GenOpts o; o.sdivOk = sz.v != 'D' || sdivDynOk;
            Case c = makeCase(rng, sz.n, 6, o);
            std::vector<double> r = evalVariant(sz.v, c);
            bool finite = true;
            for (double d : r) finite = finite && std::isfinite(d);
            if (!finite) { sink.count("skipped.nonfinite"); continue; }
            std::string op = std::string("densead.eval ") + sz.v + " " + std::to_string(c.n) + " 0 " +
                std::to_string(c.xs.size()) + " " + std::to_string(c.ss.size());
            for (auto& x : c.xs) op += " " + hexVec(x);
            for (double s : c.ss) op += " " + vh::hexF64(s);
            op += " " + program(c) + "= " + hexVec(r);
            sink.emit(op, "ok");
            sink.count(std::string("variant.") + sz.v);
            sink.count("size." + std::to_string(c.n));
            sink.count("depth." + std::to_string(c.depth));
            for (auto& nd : c.nodes) sink.count(std::string("op.") + opName[nd.op]);
            sink.count("nodes", (long) c.nodes.size());
        }
        sink.writeStats(outdir + "/stats.json");
        return 0;
    }

    if (mode == "prop") {
        vh::PropLog log(outdir + "/prop.txt");
        std::map<std::string, long> st;
        // probes
        if (!sdivDynOk) log.fail("dynamic-scalar-div", sdivDetail); else log.ok();
        if (!DENSEAD_HAVE_SATAN2) log.fail("atan2-scalar-eval", "Opm::DenseAd::atan2(const ValueType&, const Evaluation&) does not compile (x.value() on a scalar, Math.hpp) - try-compile probe failed");
        else log.ok();

        // (1) all variants agree bit for bit, and agree with the independent dual evaluator
        const long trees = thorough ? 150000 : 10000;
        for (long it = 0; it < trees; ++it) {
            int n = rng.range(1, 16);
            GenOpts o; o.strict = true; o.sdivOk = sdivDynOk;
            Case c = makeCase(rng, n, 6, o);
            std::vector<Ref> val; refEval(c, val);
            const Ref& ref = val.back();
            std::vector<double> rL = evalVariant('L', c), rD = evalVariant('D', c);
            std::vector<double> rU = n <= 12 ? evalVariant('U', c) : rL;
            ++st["trees"]; st["nodes"] += (long) c.nodes.size();
            if (hexVec(rU) != hexVec(rL)) log.fail("variants-disagree.unrolled-vs-generic", describe('U', c) + " U=" + hexVec(rU) + " L=" + hexVec(rL)); else log.ok();
            if (hexVec(rD) != hexVec(rL)) log.fail("variants-disagree.dynamic-vs-generic", describe('D', c) + " D=" + hexVec(rD) + " L=" + hexVec(rL)); else log.ok();
            bool good = (int) rU.size() == n + 1 && close(rU[0], ref.v, 1e-9, 1e-6);
            int bad = good ? -1 : 0;
            for (int j = 0; good && j < n; ++j)
                if (!close(rU[j + 1], ref.d[j], 1e-8, 1e-5) && !(std::fabs(rU[j + 1] - ref.d[j]) <= 1e-10 * ref.e[j])) { good = false; bad = j + 1; }
            if (!good) log.fail("dual-evaluator-disagrees", describe(n <= 12 ? 'U' : 'L', c) + " slot=" + std::to_string(bad) + " real=" + hexVec(rU) + " ref.v=" + vh::hexF64(ref.v) + " ref.d=" + hexVec(ref.d));
            else log.ok();
        }
        // (2) mixed scalar/Evaluation == lifted all-Evaluation form (single operations)
        const long mixes = thorough ? 150000 : 10000;
        static const Op mixedOps[] = { ADDS, SUBS, MULS, DIVS, SADD, SSUB, SMUL, SDIV, POWS, SPOW, ATAN2S, SATAN2, SMIN, SMAX, MINS, MAXS };
        for (long it = 0; it < mixes; ++it) {
            Sizes sz = pickVariant(rng);
            GenOpts o; o.strict = true;
            Case c; c.n = sz.n;
            std::vector<double> x(sz.n + 1); x[0] = randVal(rng);
            for (int j = 1; j <= sz.n; ++j) x[j] = -2.0 + 4.0 * rng.unit();
            c.xs.push_back(x);
            c.ss.push_back(randScalar(rng));
            Op op = mixedOps[rng.below(sizeof mixedOps / sizeof mixedOps[0])];
            if (op == SDIV && sz.v == 'D' && !sdivDynOk) continue;
            if (op == SATAN2 && !DENSEAD_HAVE_SATAN2) continue;
            Ref a(sz.n, x[0]);
            if (!inDomain(op, &a, nullptr, c.ss[0], true)) continue;
            // mixed: node0 = x0, node1 = op(x0, s0)
            Case m = c; { Node l; l.op = X; l.k = 0; m.nodes.push_back(l); Node nd; nd.op = op; nd.l = 0; nd.k = 0; nd.form = rng.range(0, 1); m.nodes.push_back(nd); }
            // lifted: node0 = x0, node1 = const(s0), node2 = OP(x0, const) or OP(const, x0)
            Op lifted; bool scalarFirst = shape(op) == 4;
            switch (op) {
            case ADDS: case SADD: lifted = ADD; break; case SUBS: case SSUB: lifted = SUB; break;
            case MULS: case SMUL: lifted = MUL; break; case DIVS: case SDIV: lifted = DIV; break;
            case POWS: case SPOW: lifted = POW; break; case ATAN2S: case SATAN2: lifted = ATAN2; break;
            case SMIN: case MINS: lifted = MIN; break; default: lifted = MAX; break;
            }
            if (lifted == POW && (x[0] == 0.0 || c.ss[0] == 0.0)) continue;     // 0-base branch: (E,E) form differs by design
            Case f = c; { Node l; l.op = X; l.k = 0; f.nodes.push_back(l); Node k; k.op = CONST; k.k = 0; k.form = rng.range(0, 1); f.nodes.push_back(k);
                Node nd; nd.op = lifted; nd.l = scalarFirst ? 1 : 0; nd.r = scalarFirst ? 0 : 1; nd.form = rng.range(0, 1); f.nodes.push_back(nd); }
            std::vector<double> rm = evalVariant(sz.v, m), rf = evalVariant(sz.v, f);
            bool good = rm.size() == rf.size();
            for (size_t j = 0; good && j < rm.size(); ++j) good = close(rm[j], rf[j], 1e-12, 1e-300);
            ++st[std::string("mixed.") + opName[op]];
            if (!good) log.fail(std::string("mixed-ne-lifted.") + opName[op], describe(sz.v, m) + " mixed=" + hexVec(rm) + " lifted=" + hexVec(rf));
            else log.ok();
        }
        // (2b) the scalar operand is the object's own value(): `x op= x.value()` must equal `x op= c` for a copy c of it
        for (long it = 0; it < mixes / 4; ++it) {
            Sizes sz = pickVariant(rng);
            std::vector<double> x(sz.n + 1); x[0] = randVal(rng);
            if (std::fabs(x[0]) < 0.05) continue;
            for (int j = 1; j <= sz.n; ++j) x[j] = -2.0 + 4.0 * rng.unit();
            const int which = rng.range(0, 3);
            static const char* nm[] = { "adds", "subs", "muls", "divs" };
            std::vector<double> ra, rc;
            withVariant(sz.v, sz.n, [&](auto tag) {
                using E = typename decltype(tag)::type;
                E a = fromVec<E>(sz.n, x), c = fromVec<E>(sz.n, x);
                const double copy = x[0];
                switch (which) {
                case 0: a += a.value(); c += copy; break;
                case 1: a -= a.value(); c -= copy; break;
                case 2: a *= a.value(); c *= copy; break;
                default: a /= a.value(); c /= copy; break;
                }
                ra = toVec(a); rc = toVec(c);
            });
            ++st[std::string("self-valued.") + nm[which]];
            if (hexVec(ra) != hexVec(rc)) log.fail(std::string("self-valued-scalar.") + nm[which], std::string(1, sz.v) + " n=" + std::to_string(sz.n) + " x=" + hexVec(x) + " x op= x.value(): " + hexVec(ra) + " x op= copy: " + hexVec(rc));
            else log.ok();
        }
        // (2c) dynamically sized evaluations change their number of derivatives by assignment, across the boundary
        // between the in-object buffer (<= 6 here) and heap storage, in both directions and repeatedly: after every
        // assignment the object must read as its source, and compute like it
        for (long it = 0; it < mixes / 4; ++it) {
            static const int sizes[] = { 1, 2, 5, 6, 7, 8, 12, 16 };
            Dyn acc = fromVec<Dyn>(sizes[rng.below(8)], [&] { std::vector<double> x(17); for (auto& v : x) v = randVal(rng); return x; }());
            std::string hist = "n=" + std::to_string(acc.size());
            bool good = true; std::string what;
            for (int step = 0; step < 6 && good; ++step) {
                const int n = sizes[rng.below(8)];
                std::vector<double> x(n + 1); for (auto& v : x) v = -2.0 + 4.0 * rng.unit();
                Dyn src = fromVec<Dyn>(n, x);
                const int how = rng.range(0, 3);
                static const char* hn[] = { "=lvalue", "=move", "=copy-of-copy", "swap-through-temp" };
                hist += std::string(" ") + hn[how] + "(" + std::to_string(n) + ")";
                switch (how) {
                case 0: acc = src; break;
                case 1: { Dyn tmp = src; acc = std::move(tmp); break; }
                case 2: { Dyn tmp(src); Dyn tmp2 = tmp; acc = tmp2; break; }
                default: { Dyn tmp = acc; acc = src; tmp = acc; acc = tmp; break; }
                }
                if (hexVec(toVec(acc)) != hexVec(x)) { good = false; what = "reads " + hexVec(toVec(acc)) + " expected " + hexVec(x); break; }
                Dyn twice = acc + acc; Dyn sq = acc; sq *= acc;
                std::vector<double> e2(n + 1), es(n + 1);
                for (int j = 0; j <= n; ++j) e2[j] = x[j] + x[j];
                es[0] = x[0] * x[0]; for (int j = 1; j <= n; ++j) es[j] = x[j] * x[0] + x[j] * x[0];
                if (hexVec(toVec(twice)) != hexVec(e2)) { good = false; what = "acc + acc = " + hexVec(toVec(twice)) + " expected " + hexVec(e2); }
                else if (hexVec(toVec(sq)) != hexVec(es)) { good = false; what = "acc * acc = " + hexVec(toVec(sq)) + " expected " + hexVec(es); }
            }
            ++st["dynamic-resize-histories"];
            if (!good) log.fail("dynamic-storage-transition", hist + ": " + what); else log.ok();
        }
        // (3) derivatives == central finite differences of value() (real code on both sides)
        const long fds = thorough ? 40000 : 3000;
        for (long it = 0; it < fds; ++it) {
            Sizes sz = pickVariant(rng);
            if (sz.n > 8) sz.n = rng.range(1, 8), sz.v = rng.coin() ? 'U' : 'D';
            GenOpts o; o.strict = true; o.varsOnly = true; o.sdivOk = sz.v != 'D' || sdivDynOk;
            Case c = makeCase(rng, sz.n, 4, o);
            std::vector<double> r = evalVariant(sz.v, c);
            ++st["fd.trees"];
            for (int j = 0; j < sz.n; ++j) {
                auto valueAt = [&](double dx, bool& ok) {
                    Case s = c; s.ss[j] += dx;
                    std::vector<Ref> v; refEval(s, v);
                    // every operation must stay inside its strict domain at the shifted point
                    for (size_t q = 0; q < s.nodes.size(); ++q) {
                        const Node& nd = s.nodes[q];
                        if (shape(nd.op) && !inDomain(nd.op, &v[nd.l], nd.r >= 0 ? &v[nd.r] : nullptr, s.ss[nd.k % s.ss.size()], true)) ok = false;
                    }
                    return evalVariant(sz.v, s)[0];
                };
                const double h = 1e-4 * std::max(1.0, std::fabs(c.ss[j]));
                bool ok = true;
                double d1 = (valueAt(h, ok) - valueAt(-h, ok)) / (2 * h);
                double d2 = (valueAt(h / 2, ok) - valueAt(-h / 2, ok)) / h;
                if (!ok) { ++st["fd.skipped-domain"]; continue; }
                double rich = (4 * d2 - d1) / 3;
                double err = std::fabs(d2 - d1);
                double tol = 20 * err + 1e-6 * (std::fabs(r[j + 1]) + std::fabs(rich) + 1.0);
                ++st["fd.partials"];
                if (!(std::fabs(r[j + 1] - rich) <= tol) && err < 1e-2 * (std::fabs(rich) + 1.0))
                    log.fail("finite-difference-disagrees", describe(sz.v, c) + " var=" + std::to_string(j) + " derivative=" + vh::hexF64(r[j + 1]) + " fd=" + vh::hexF64(rich) + " err=" + vh::hexF64(err));
                else log.ok();
            }
        }
        // (5) comparison operators: the statement on plain doubles, in every variant, ties included
        const long cmps = thorough ? 60000 : 6000;
        for (long it = 0; it < cmps; ++it) {
            int n = rng.range(1, 16);
            CmpCase k = makeCmp(rng, n, false);
            const std::string want = cmpExpected(k.A, k.B, k.c);
            for (char v : { 'U', 'L', 'D' }) {
                if (v == 'U' && n > 12) continue;
                const std::string got = cmpReal(v, n, k.A, k.B, k.c);
                ++st["cmp.cases"];
                if (got == want) { log.ok(); continue; }
                size_t q = 0; while (q < 17 && got[q] == want[q]) ++q;
                log.fail(std::string("comparison-wrong.") + cmpName[q], std::string(1, v) + " n=" + std::to_string(n) + " A=" + hexVec(k.A) + " B=" + hexVec(k.B) +
                         " c=" + vh::hexF64(k.c) + " got=" + got + " want=" + want);
            }
        }
        // (6) factories: constants / variable seeds, same in every variant; nVars forms accept nVars == size
        const long facts = thorough ? 30000 : 3000;
        long arityViolations = 0;
        for (long it = 0; it < facts; ++it) {
            Sizes sz = pickVariant(rng);
            FactCase f = makeFact(rng, sz.v, sz.n);
            std::string r = factReal(sz.v, sz.n, f);
            if (r == "skip") continue;
            bool mustThrow = false;
            std::vector<double> want = factExpected(sz.v, sz.n, f, mustThrow);
            const bool good = mustThrow ? r == "err" : r == hexVec(want);
            ++st["fact." + f.kind];
            const bool genericArity = !good && sz.v == 'L' && (f.kind == "cn" || f.kind == "vn");
            if (genericArity && !DENSEAD_ARM_GENERIC_ARITY) { ++arityViolations; continue; }
            if (!good) log.fail("factory-wrong." + f.kind, std::string(1, sz.v) + " n=" + std::to_string(sz.n) + " nVars=" + std::to_string(f.nVars) + " c=" + vh::hexF64(f.c) +
                                " pos=" + std::to_string(f.pos) + " form=" + std::to_string(f.form) + " got=" + r + " want=" + (mustThrow ? std::string("err") : hexVec(want)));
            else log.ok();
        }
        st["probe.generic-factory-arity-violations"] = arityViolations;
        // (7) MathToolbox predicates look at every derivative in every variant
        {
            long bad = 0;
            for (int it = 0; it < 200; ++it) {
                int n = rng.range(1, 12), j = rng.range(0, n - 1);
                std::vector<double> A(n + 1, 1.0), B(n + 1, 1.0); A[j + 1] = std::nan(""); B[j + 1] = 6.0;
                std::vector<double> One(n + 1, 1.0);
                for (char v : { 'U', 'L', 'D' }) {
                    bool isn = false, isf = true, same = true;
                    withVariant(v, n, [&](auto tag) {
                        using E = typename decltype(tag)::type;
                        const E a = fromVec<E>(n, A), b = fromVec<E>(n, B), o = fromVec<E>(n, One);
                        isn = Opm::MathToolbox<E>::isnan(a); isf = Opm::MathToolbox<E>::isfinite(a); same = Opm::MathToolbox<E>::isSame(o, b, 1e-9);
                    });
                    const bool good = isn && !isf && !same;
                    if (good) { log.ok(); continue; }
                    if (v == 'D' && !DENSEAD_ARM_DYNAMIC_PREDICATES) { ++bad; continue; }
                    log.fail("toolbox-predicate-ignores-derivative", std::string(1, v) + " n=" + std::to_string(n) + " slot=" + std::to_string(j + 1) +
                             " isnan=" + std::to_string(isn) + " isfinite=" + std::to_string(isf) + " isSame=" + std::to_string(same));
                }
            }
            st["probe.dynamic-predicate-violations"] = bad;
        }
        // (8) ties and the kink: min/max return one operand whole, abs(0) = 0
        for (long it = 0; it < (thorough ? 20000 : 2000); ++it) {
            int n = rng.range(1, 16);
            CmpCase k = makeCmp(rng, n, false);
            k.B[0] = k.A[0];                                               // tie
            for (char v : { 'U', 'L', 'D' }) {
                if (v == 'U' && n > 12) continue;
                bool good = true; std::string what;
                withVariant(v, n, [&](auto tag) {
                    using E = typename decltype(tag)::type;
                    const E a = fromVec<E>(n, k.A), b = fromVec<E>(n, k.B);
                    for (int which = 0; which < 4; ++which) {
                        E r = which == 0 ? AD::min(a, b) : which == 1 ? AD::max(a, b) : which == 2 ? AD::min(a, k.A[0]) : AD::max(k.A[0], a);
                        const bool isA = hexVec(toVec(r)) == hexVec(k.A), isB = hexVec(toVec(r)) == hexVec(k.B);
                        std::vector<double> cst(n + 1, 0.0); cst[0] = k.A[0];
                        const bool isC = hexVec(toVec(r)) == hexVec(cst);
                        if (!(which < 2 ? (isA || isB) : (isA || isC))) { good = false; what = "min/max at a tie is neither operand (form " + std::to_string(which) + ") r=" + hexVec(toVec(r)); }
                    }
                    std::vector<double> Z = k.A; Z[0] = 0.0;
                    E z = AD::abs(fromVec<E>(n, Z));
                    if (z.value() != 0.0) { good = false; what = "abs(0) != 0"; }
                    for (int j = 0; j < n; ++j) if (std::fabs(z.derivative(j)) != std::fabs(Z[j + 1])) { good = false; what = "abs at 0: derivative is not +-x'"; }
                });
                ++st["ties.cases"];
                if (good) log.ok(); else log.fail("tie-semantics", std::string(1, v) + " n=" + std::to_string(n) + " A=" + hexVec(k.A) + " B=" + hexVec(k.B) + " " + what);
            }
        }
        std::ofstream ps(outdir + "/prop_stats.json");
        ps << "{\n  \"checked\": " << log.checked << ",\n  \"failed\": " << log.failed;
        for (auto& kv : st) ps << ",\n  \"" << kv.first << "\": " << kv.second;
        ps << "\n}\n";
        return 0;
    }
    std::cerr << "unknown mode " << mode << "\n";
    return 2;
}
