// try-compile probe used by lib/props/C16.py: does atan2(scalar, Evaluation) instantiate?
#include <opm/material/densead/Evaluation.hpp>
#include <opm/material/densead/Math.hpp>
double probe() {
    using E = Opm::DenseAd::Evaluation<double, 3>;
    using D = Opm::DenseAd::Evaluation<double, Opm::DenseAd::DynamicSize, 4>;
    E y = E::createVariable(2.0, 1);
    D z = D::createVariable(3, 2.0, 1);
    return Opm::DenseAd::atan2(1.5, y).derivative(1) + Opm::DenseAd::atan2(1.5, z).derivative(1);
}
