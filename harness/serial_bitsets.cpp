// C11 harness, second translation unit: the bitset packer of the working tree for widths the library does
// not instantiate.
//
// Packing<false, std::bitset<Size>>::{packSize, pack, unpack} are templates DEFINED in
// opm/common/utility/MemPacker.cpp and explicitly instantiated there for the four widths the serialised
// classes use (3, 4, 10, NUM_FIP_REPORT).  A representation that is too narrow for a width nobody uses
// today is the same defect waiting for the next flag; to reach the template bodies with other widths this
// file compiles MemPacker.cpp of the working tree ($VERIF_REPO) once more and adds instantiations for
// 1, 8, 16, 32, 33 and 64 bits.  It defines every symbol MemPacker.o of libopmcommon.a defines, so the
// linker never pulls that archive member (no duplicate definitions); the code is the same source file.
#include <opm/common/utility/MemPacker.cpp>

namespace Opm { namespace Serialization { namespace detail {
template struct Packing<false, std::bitset<1>>;
template struct Packing<false, std::bitset<8>>;
template struct Packing<false, std::bitset<16>>;
template struct Packing<false, std::bitset<32>>;
template struct Packing<false, std::bitset<33>>;
template struct Packing<false, std::bitset<64>>;
}}}
