// C11 harness, combinator level: a menu of real C++ types, each with
//   ty()    the model's type descriptor (see lean/OpmVerif/Model/SerialIO.lean)
//   gen()   a random value drawn from vh::Rng
//   show()  the value in the model's textual syntax (canon = true: entries of unordered
//           containers sorted by their text, because their iteration order is unspecified)
#pragma once
#include "common/vh.hpp"

#include <opm/common/utility/Serializer.hpp>
#include <opm/common/utility/MemPacker.hpp>
#include <opm/common/utility/TimeService.hpp>
#include <opm/input/eclipse/Schedule/ScheduleState.hpp>

#include <algorithm>
#include <array>
#include <bitset>
#include <map>
#include <memory>
#include <optional>
#include <set>
#include <string>
#include <tuple>
#include <unordered_map>
#include <unordered_set>
#include <variant>
#include <vector>
#include <cstdio>
#include <sys/mman.h>

namespace sc {

using Packer = Opm::Serialization::MemPacker;

// The serializer keeps its buffer protected; the harness needs to read and to plant it.
struct Ser : public Opm::Serializer<Packer> {
    explicit Ser(const Packer& p) : Opm::Serializer<Packer>(p) {}
    const std::vector<char>& buffer() const { return this->m_buffer; }
    void setBuffer(const std::vector<char>& b) { this->m_buffer = b; }
    std::string hex() const {
        return vh::hex(reinterpret_cast<const unsigned char*>(m_buffer.data()), m_buffer.size());
    }
};

struct GenCfg { int maxLen = 4; int depth = 0; };

inline size_t genLen(vh::Rng& r, const GenCfg& c) {
    if (r.coin(1, 5)) return 0;
    return r.below(static_cast<uint64_t>(c.maxLen) + 1);
}

template <class T, class = void> struct Codec;

template <class T> std::string podHex(const T& v) {
    unsigned char b[sizeof(T)]; std::memcpy(b, &v, sizeof(T));
    return "#" + vh::hex(b, sizeof(T));
}

// ---- scalars --------------------------------------------------------------------------
template <class T> struct IntCodec {
    static std::string ty() { return (std::is_signed_v<T> ? "i" : "p") + std::to_string(sizeof(T)); }
    static T gen(vh::Rng& r, const GenCfg&) {
        switch (r.below(5)) {
        case 0: return static_cast<T>(r.below(7));
        case 1: return static_cast<T>(-static_cast<long long>(r.below(7)));
        case 2: return std::numeric_limits<T>::max();
        case 3: return std::numeric_limits<T>::min();
        default: return static_cast<T>(r.next());
        }
    }
    static std::string show(const T& v, bool) { return podHex(v); }
};
template <> struct Codec<int> : IntCodec<int> {};
template <> struct Codec<long> : IntCodec<long> {};
template <> struct Codec<short> : IntCodec<short> {};
template <> struct Codec<unsigned char> : IntCodec<unsigned char> {};
template <> struct Codec<std::size_t> : IntCodec<std::size_t> {};
template <> struct Codec<unsigned int> : IntCodec<unsigned int> {};

template <> struct Codec<double> {
    static std::string ty() { return "p8"; }
    static double gen(vh::Rng& r, const GenCfg&) {
        switch (r.below(4)) {
        case 0: return 0.0;
        case 1: return static_cast<double>(r.range(-1000, 1000)) / 8.0;
        case 2: return vh::f64FromBits(r.next());      // any bit pattern, NaNs included
        default: return r.unit() * 1e5;
        }
    }
    static std::string show(const double& v, bool) { return podHex(v); }
};
template <> struct Codec<float> {
    static std::string ty() { return "p4"; }
    static float gen(vh::Rng& r, const GenCfg&) { return vh::f32FromBits(static_cast<uint32_t>(r.next())); }
    static std::string show(const float& v, bool) { return podHex(v); }
};
template <> struct Codec<bool> {
    static std::string ty() { return "p1"; }
    static bool gen(vh::Rng& r, const GenCfg&) { return r.coin(); }
    static std::string show(const bool& v, bool) { return v ? "#01" : "#00"; }
};
enum class Colour : int { Red = 0, Green = 1, Blue = 7, Neg = -3 };
template <> struct Codec<Colour> {
    static std::string ty() { return "i4"; }
    static Colour gen(vh::Rng& r, const GenCfg&) { static const std::vector<Colour> cs{Colour::Red, Colour::Green, Colour::Blue, Colour::Neg}; return r.pick(cs); }
    static std::string show(const Colour& v, bool) { return podHex(v); }
};
// a trivially copyable aggregate without padding: one memcpy of 16 bytes
struct Pod16 { double x; int a; int b; bool operator==(const Pod16& o) const { return std::memcmp(this, &o, sizeof *this) == 0; } };
static_assert(sizeof(Pod16) == 16, "Pod16 has padding");
template <> struct Codec<Pod16> {
    static std::string ty() { return "p16"; }
    static Pod16 gen(vh::Rng& r, const GenCfg& c) { return Pod16{ Codec<double>::gen(r, c), Codec<int>::gen(r, c), Codec<int>::gen(r, c) }; }
    static std::string show(const Pod16& v, bool) { return podHex(v); }
};
// time_point travels as one 8-byte integer: the int64 millisecond count (since fix e3efc3a5b;
// time_t before).  The unit is probed from the real packer once so that the correspondence is
// byte-exact on either encoding; a loss of sub-second times is found by the property mode
// (generated decks with sub-second TSTEP, query end_ms / start_ms).
inline bool timePointPackedAsMs() {
    static const bool ms = [] {
        Packer p; Ser s(p);
        const Opm::time_point tp{ Opm::time_point::duration(1500) };
        s.pack(tp);
        std::int64_t v = 0;
        if (s.buffer().size() == sizeof v) std::memcpy(&v, s.buffer().data(), sizeof v);
        return v == 1500;
    }();
    return ms;
}
template <> struct Codec<Opm::time_point> {
    static std::string ty() { return "i8"; }
    static Opm::time_point gen(vh::Rng& r, const GenCfg&) {
        const auto secs = Opm::TimeService::from_time_t(static_cast<std::time_t>(r.below(4000000000ull)));
        return timePointPackedAsMs() ? secs + Opm::time_point::duration(static_cast<std::int64_t>(r.below(1000))) : secs;
    }
    static std::string show(const Opm::time_point& v, bool) {
        if (timePointPackedAsMs()) { std::int64_t t = v.time_since_epoch().count(); return podHex(t); }
        std::time_t t = Opm::TimeService::to_time_t(v); return podHex(t);
    }
};
// bitset<N> travels as unsigned long long.  MemPacker.cpp instantiates the packer for the sizes the
// serialised classes use (3, 4, 10 and FIPConfig's NUM_FIP_REPORT = 17); harness/serial_bitsets.cpp
// compiles the same template bodies for 1, 8, 16, 32, 33 and 64 so that every width of the wire
// integer is exercised.  Generator: half of the values are directed (none, all, only the highest
// bit, only the lowest, one random bit, all but one) so that no width of a narrowed representation
// survives a handful of draws; the rest are uniform bit patterns.
template <std::size_t N> struct Codec<std::bitset<N>> {
    static std::string ty() { return "p8"; }
    static std::bitset<N> gen(vh::Rng& r, const GenCfg&) {
        std::bitset<N> b;
        switch (r.below(12)) {
        case 0: return b;
        case 1: return b.set();
        case 2: return b.set(N - 1);
        case 3: return b.set(0);
        case 4: return b.set(r.below(N));
        case 5: return b.set().reset(r.below(N));
        default: return std::bitset<N>(r.next());
        }
    }
    static std::string show(const std::bitset<N>& v, bool) { unsigned long long u = v.to_ullong(); return podHex(u); }
};

// ---- strings --------------------------------------------------------------------------
template <> struct Codec<std::string> {
    static std::string ty() { return "s"; }
    static std::string gen(vh::Rng& r, const GenCfg& c) {
        size_t n = r.coin(1, 4) ? 0 : r.below(3 * static_cast<uint64_t>(c.maxLen) + 1);
        std::string s;
        bool binary = r.coin(1, 4);
        for (size_t i = 0; i < n; ++i)
            s.push_back(binary ? static_cast<char>(r.below(256)) : static_cast<char>('A' + r.below(26)));
        return s;
    }
    static std::string show(const std::string& v, bool) { return "$" + vh::hex(v); }
};

// ---- sequences ------------------------------------------------------------------------
inline std::string joinList(const std::vector<std::string>& xs) {
    std::string s = "[";
    for (size_t i = 0; i < xs.size(); ++i) { if (i) s += ","; s += xs[i]; }
    return s + "]";
}

template <class T> struct Codec<std::vector<T>> {
    static std::string ty() { return "v(" + Codec<T>::ty() + ")"; }
    static std::vector<T> gen(vh::Rng& r, const GenCfg& c) {
        std::vector<T> v; size_t n = genLen(r, c);
        GenCfg d = c; d.depth++; if (d.depth > 1 && d.maxLen > 2) d.maxLen = 2;
        for (size_t i = 0; i < n; ++i) v.push_back(Codec<T>::gen(r, d));
        return v;
    }
    static std::string show(const std::vector<T>& v, bool canon) {
        std::vector<std::string> xs; for (const auto& x : v) xs.push_back(Codec<T>::show(x, canon));
        return joinList(xs);
    }
};
template <> struct Codec<std::vector<bool>> {
    static std::string ty() { return "B"; }
    static std::vector<bool> gen(vh::Rng& r, const GenCfg& c) {
        std::vector<bool> v; size_t n = genLen(r, c) * 3;
        for (size_t i = 0; i < n; ++i) v.push_back(r.coin());
        return v;
    }
    static std::string show(const std::vector<bool>& v, bool) {
        if (v.empty()) return "b-";
        std::string s = "b"; for (bool b : v) s += b ? '1' : '0'; return s;
    }
};
template <class T, std::size_t N> struct Codec<std::array<T, N>> {
    static std::string ty() { return "a" + std::to_string(N) + "(" + Codec<T>::ty() + ")"; }
    static std::array<T, N> gen(vh::Rng& r, const GenCfg& c) {
        std::array<T, N> a{}; for (auto& x : a) x = Codec<T>::gen(r, c); return a;
    }
    static std::string show(const std::array<T, N>& v, bool canon) {
        std::vector<std::string> xs; for (const auto& x : v) xs.push_back(Codec<T>::show(x, canon));
        return joinList(xs);
    }
};

// ---- optional / unique_ptr ---------------------------------------------------------------
template <class T> struct Codec<std::optional<T>> {
    static std::string ty() { return "o(" + Codec<T>::ty() + ")"; }
    static std::optional<T> gen(vh::Rng& r, const GenCfg& c) {
        if (r.coin(1, 3)) return std::nullopt;
        return std::optional<T>(Codec<T>::gen(r, c));
    }
    static std::string show(const std::optional<T>& v, bool canon) {
        return v ? "j(" + Codec<T>::show(*v, canon) + ")" : "n";
    }
};
template <class T> struct Codec<std::unique_ptr<T>> {
    static std::string ty() { return "u(" + Codec<T>::ty() + ")"; }
    static std::unique_ptr<T> gen(vh::Rng& r, const GenCfg& c) {
        if (r.coin(1, 3)) return nullptr;
        return std::make_unique<T>(Codec<T>::gen(r, c));
    }
    static std::string show(const std::unique_ptr<T>& v, bool canon) {
        return v ? "j(" + Codec<T>::show(*v, canon) + ")" : "n";
    }
};

// ---- shared_ptr -------------------------------------------------------------------------
// Serializer::shared_ptr writes the ADDRESS of the pointee.  To keep ops.txt reproducible the
// pointees of generated values live in an arena mapped at a fixed address (bump allocation, reset
// for every top-level value), so their addresses depend on the seed only.  Objects made by UNPACK
// (make_shared) have unpredictable addresses: results are rendered with LABELS 1,2,.. in order of
// first occurrence (pre-order), which shows exactly the aliasing graph.
struct Arena {
    static constexpr std::uintptr_t kBase = 0x5e0000000000ull;
    static constexpr std::size_t kSize = std::size_t(64) << 20;
    char* base = nullptr; std::size_t used = 0;
    Arena();
    void* take(std::size_t n, std::size_t al) {
        std::size_t at = (used + al - 1) / al * al;
        if (at + n > kSize) throw std::bad_alloc();
        used = at + n; return base + at;
    }
};
inline Arena::Arena() {
    void* p = mmap(reinterpret_cast<void*>(kBase), kSize, PROT_READ | PROT_WRITE, MAP_PRIVATE | MAP_ANONYMOUS | MAP_FIXED_NOREPLACE, -1, 0);
    if (p == MAP_FAILED || reinterpret_cast<std::uintptr_t>(p) != kBase) {   // fall back: addresses then vary between runs
        if (p != MAP_FAILED) munmap(p, kSize);
        p = mmap(nullptr, kSize, PROT_READ | PROT_WRITE, MAP_PRIVATE | MAP_ANONYMOUS, -1, 0);
        if (p == MAP_FAILED) throw std::bad_alloc();
    }
    base = static_cast<char*>(p);
}
inline Arena& arena() { static Arena a; return a; }
template <class T> struct ArenaAlloc {
    using value_type = T;
    ArenaAlloc() = default;
    template <class U> ArenaAlloc(const ArenaAlloc<U>&) {}
    T* allocate(std::size_t n) { return static_cast<T*>(arena().take(n * sizeof(T), alignof(T) < 16 ? 16 : alignof(T))); }
    void deallocate(T*, std::size_t) {}
    template <class U> bool operator==(const ArenaAlloc<U>&) const { return true; }
    template <class U> bool operator!=(const ArenaAlloc<U>&) const { return false; }
};
// pools of live pointees per type (aliasing is drawn from them); all emptied for a new value
inline std::vector<void (*)()>& poolClearers() { static std::vector<void (*)()> v; return v; }
inline void newGraphEpoch() { for (auto f : poolClearers()) f(); arena().used = 0; }
struct Labels { std::map<const void*, int> of; int get(const void* p) { auto it = of.find(p); if (it != of.end()) return it->second; int l = static_cast<int>(of.size()) + 1; of[p] = l; return l; } };
inline Labels& labels() { static Labels l; return l; }

template <class T> struct Codec<std::shared_ptr<T>> {
    static std::vector<std::shared_ptr<T>>& pool() {
        static std::vector<std::shared_ptr<T>> p;
        static bool reg = (poolClearers().push_back([] { Codec<std::shared_ptr<T>>::pool().clear(); }), true);
        (void)reg; return p;
    }
    static std::string ty() { return "P(" + Codec<T>::ty() + ")"; }
    static std::shared_ptr<T> gen(vh::Rng& r, const GenCfg& c) {
        if (r.coin(1, 4)) return nullptr;
        if (!pool().empty() && r.coin(2, 5)) { auto& p = pool(); return p[r.below(p.size())]; }   // a second owner
        T val = Codec<T>::gen(r, c);                       // the pointee first: no cycles
        auto sp = std::allocate_shared<T>(ArenaAlloc<T>{}, std::move(val));
        pool().push_back(sp);
        return sp;
    }
    static std::string show(const std::shared_ptr<T>& v, bool canon) {
        if (!v) return "n";
        if (canon) { const int l = labels().get(v.get()); return "&" + std::to_string(l) + "(" + Codec<T>::show(*v, canon) + ")"; }
        char b[32]; std::snprintf(b, sizeof b, "%llx", static_cast<unsigned long long>(reinterpret_cast<std::uintptr_t>(v.get())));
        return "&" + std::string(b) + "(" + Codec<T>::show(*v, canon) + ")";
    }
};

// ---- pair / tuple / variant ------------------------------------------------------------
template <class A, class B> struct Codec<std::pair<A, B>> {
    static std::string ty() { return "t(" + Codec<A>::ty() + "," + Codec<B>::ty() + ")"; }
    static std::pair<A, B> gen(vh::Rng& r, const GenCfg& c) {
        A a = Codec<A>::gen(r, c); B b = Codec<B>::gen(r, c); return std::pair<A, B>(std::move(a), std::move(b));
    }
    static std::string show(const std::pair<A, B>& v, bool canon) {
        const std::string a = Codec<A>::show(v.first, canon);      // sequenced: rendering assigns pointer labels
        const std::string b = Codec<B>::show(v.second, canon);
        return "[" + a + "," + b + "]";
    }
};
template <class... Ts> struct Codec<std::tuple<Ts...>> {
    static std::string ty() {
        std::vector<std::string> xs{ Codec<Ts>::ty()... };
        std::string s = "t("; for (size_t i = 0; i < xs.size(); ++i) { if (i) s += ","; s += xs[i]; } return s + ")";
    }
    static std::tuple<Ts...> gen(vh::Rng& r, const GenCfg& c) {
        return std::tuple<Ts...>{ Codec<Ts>::gen(r, c)... };   // braced init: left-to-right evaluation
    }
    template <std::size_t... I> static std::string showImpl(const std::tuple<Ts...>& v, bool canon, std::index_sequence<I...>) {
        std::vector<std::string> xs{ Codec<Ts>::show(std::get<I>(v), canon)... };
        return joinList(xs);
    }
    static std::string show(const std::tuple<Ts...>& v, bool canon) { return showImpl(v, canon, std::index_sequence_for<Ts...>{}); }
};
template <class... Ts> struct Codec<std::variant<Ts...>> {
    using V = std::variant<Ts...>;
    static std::string ty() {
        std::vector<std::string> xs{ Codec<Ts>::ty()... };
        std::string s = "x("; for (size_t i = 0; i < xs.size(); ++i) { if (i) s += ","; s += xs[i]; } return s + ")";
    }
    template <std::size_t I> static V genAt(vh::Rng& r, const GenCfg& c, std::size_t k) {
        if constexpr (I < sizeof...(Ts)) {
            if (k == I) return V(std::in_place_index<I>, Codec<std::variant_alternative_t<I, V>>::gen(r, c));
            return genAt<I + 1>(r, c, k);
        } else { throw std::logic_error("variant index"); }
    }
    static V gen(vh::Rng& r, const GenCfg& c) { return genAt<0>(r, c, r.below(sizeof...(Ts))); }
    static std::string show(const V& v, bool canon) {
        return "@" + std::to_string(v.index()) + "(" +
               std::visit([canon](const auto& x) { return Codec<std::decay_t<decltype(x)>>::show(x, canon); }, v) + ")";
    }
};

// ---- associative containers -------------------------------------------------------------
template <class C, class E> std::string showAssoc(const C& c, bool canon, bool unordered) {
    std::vector<std::string> xs;
    for (const auto& e : c) xs.push_back(Codec<E>::show(e, canon));
    if (canon && unordered) std::sort(xs.begin(), xs.end());
    return joinList(xs);
}
template <class T> struct Codec<std::set<T>> {
    static std::string ty() { return "S(" + Codec<T>::ty() + ")"; }
    static std::set<T> gen(vh::Rng& r, const GenCfg& c) { std::set<T> s; size_t n = genLen(r, c); for (size_t i = 0; i < n; ++i) s.insert(Codec<T>::gen(r, c)); return s; }
    static std::string show(const std::set<T>& v, bool canon) { return showAssoc<std::set<T>, T>(v, canon, false); }
};
template <class T> struct Codec<std::unordered_set<T>> {
    static std::string ty() { return "H(" + Codec<T>::ty() + ")"; }
    static std::unordered_set<T> gen(vh::Rng& r, const GenCfg& c) { std::unordered_set<T> s; size_t n = genLen(r, c); for (size_t i = 0; i < n; ++i) s.insert(Codec<T>::gen(r, c)); return s; }
    static std::string show(const std::unordered_set<T>& v, bool canon) { return showAssoc<std::unordered_set<T>, T>(v, canon, true); }
};
template <class K, class V> struct Codec<std::map<K, V>> {
    using M = std::map<K, V>;
    static std::string ty() { return "M(" + Codec<K>::ty() + "," + Codec<V>::ty() + ")"; }
    static M gen(vh::Rng& r, const GenCfg& c) {
        M m; size_t n = genLen(r, c);
        GenCfg d = c; d.depth++; if (d.depth > 1 && d.maxLen > 2) d.maxLen = 2;
        for (size_t i = 0; i < n; ++i) { K k = Codec<K>::gen(r, c); m.emplace(std::move(k), Codec<V>::gen(r, d)); }
        return m;
    }
    static std::string show(const M& v, bool canon) {
        std::vector<std::string> xs;
        for (const auto& e : v) xs.push_back("[" + Codec<K>::show(e.first, canon) + "," + Codec<V>::show(e.second, canon) + "]");
        return joinList(xs);
    }
};
template <class K, class V> struct Codec<std::unordered_map<K, V>> {
    using M = std::unordered_map<K, V>;
    static std::string ty() { return "N(" + Codec<K>::ty() + "," + Codec<V>::ty() + ")"; }
    static M gen(vh::Rng& r, const GenCfg& c) {
        M m; size_t n = genLen(r, c);
        GenCfg d = c; d.depth++; if (d.depth > 1 && d.maxLen > 2) d.maxLen = 2;
        for (size_t i = 0; i < n; ++i) { K k = Codec<K>::gen(r, c); m.emplace(std::move(k), Codec<V>::gen(r, d)); }
        return m;
    }
    // canon: entries in the order of their KEY text (keys are unique, so this is the order of the entry
    // texts too); the values are rendered in that order because rendering assigns pointer labels
    static std::string show(const M& v, bool canon) {
        std::vector<std::pair<std::string, const V*>> ks;
        for (const auto& e : v) ks.emplace_back(Codec<K>::show(e.first, canon), &e.second);
        if (canon) std::sort(ks.begin(), ks.end(), [](const auto& a, const auto& b) { return a.first < b.first; });
        std::vector<std::string> xs;
        for (const auto& e : ks) xs.push_back("[" + e.first + "," + Codec<V>::show(*e.second, canon) + "]");
        return joinList(xs);
    }
};

// ---- classes with serializeOp ------------------------------------------------------------
struct Rec {
    int id = 0;
    std::string name;
    std::vector<double> xs;
    std::optional<int> limit;
    template <class S> void serializeOp(S& s) { s(id); s(name); s(xs); s(limit); }
};
template <> struct Codec<Rec> {
    static std::string ty() { return "c(i4,s,v(p8),o(i4))"; }
    static Rec gen(vh::Rng& r, const GenCfg& c) {
        Rec x; x.id = Codec<int>::gen(r, c); x.name = Codec<std::string>::gen(r, c);
        x.xs = Codec<std::vector<double>>::gen(r, c); x.limit = Codec<std::optional<int>>::gen(r, c); return x;
    }
    static std::string show(const Rec& v, bool canon) {
        return joinList({ Codec<int>::show(v.id, canon), Codec<std::string>::show(v.name, canon),
                          Codec<std::vector<double>>::show(v.xs, canon), Codec<std::optional<int>>::show(v.limit, canon) });
    }
};
// a class shaped like the schedule objects: nested class, map of classes, pointer, variant, set;
// its default constructor leaves a NON-EMPTY map behind (like classes that pre-register entries)
struct Outer {
    Rec head;
    std::map<std::string, Rec> byName;
    std::vector<Rec> all;
    std::unique_ptr<Rec> extra;
    std::variant<int, std::string, Rec> what;
    std::unordered_map<std::string, double> values;
    std::set<std::pair<int, int>> cells;
    template <class S> void serializeOp(S& s) { s(head); s(byName); s(all); s(extra); s(what); s(values); s(cells); }
};
template <> struct Codec<Outer> {
    static std::string ty() {
        return "c(" + Codec<Rec>::ty() + "," + Codec<std::map<std::string, Rec>>::ty() + "," + Codec<std::vector<Rec>>::ty() + "," +
               Codec<std::unique_ptr<Rec>>::ty() + "," + Codec<std::variant<int, std::string, Rec>>::ty() + "," +
               Codec<std::unordered_map<std::string, double>>::ty() + "," + Codec<std::set<std::pair<int, int>>>::ty() + ")";
    }
    static Outer gen(vh::Rng& r, const GenCfg& c) {
        Outer o;
        o.head = Codec<Rec>::gen(r, c);
        o.byName = Codec<std::map<std::string, Rec>>::gen(r, c);
        o.all = Codec<std::vector<Rec>>::gen(r, c);
        o.extra = Codec<std::unique_ptr<Rec>>::gen(r, c);
        o.what = Codec<std::variant<int, std::string, Rec>>::gen(r, c);
        o.values = Codec<std::unordered_map<std::string, double>>::gen(r, c);
        o.cells = Codec<std::set<std::pair<int, int>>>::gen(r, c);
        return o;
    }
    static std::string show(const Outer& v, bool canon) {
        return joinList({ Codec<Rec>::show(v.head, canon), Codec<std::map<std::string, Rec>>::show(v.byName, canon),
                          Codec<std::vector<Rec>>::show(v.all, canon), Codec<std::unique_ptr<Rec>>::show(v.extra, canon),
                          Codec<std::variant<int, std::string, Rec>>::show(v.what, canon),
                          Codec<std::unordered_map<std::string, double>>::show(v.values, canon),
                          Codec<std::set<std::pair<int, int>>>::show(v.cells, canon) });
    }
};

// a class whose DEFAULT constructor leaves engaged optionals and a non-empty vector behind (like
// Opm::SICD::m_scaling_factor{1.0}): UNPACK into a default-constructed object must still reset them
struct Preset {
    std::optional<int> limit{42};
    std::optional<std::string> tag{std::string("dflt")};
    std::vector<std::optional<double>> xs{1.0, std::nullopt};
    int n = 3;
    template <class S> void serializeOp(S& s) { s(limit); s(tag); s(xs); s(n); }
};
template <> struct Codec<Preset> {
    using A = std::optional<int>; using B = std::optional<std::string>; using C = std::vector<std::optional<double>>;
    static std::string ty() { return "c(" + Codec<A>::ty() + "," + Codec<B>::ty() + "," + Codec<C>::ty() + ",i4)"; }
    static Preset gen(vh::Rng& r, const GenCfg& c) {
        Preset x; x.limit = Codec<A>::gen(r, c); x.tag = Codec<B>::gen(r, c); x.xs = Codec<C>::gen(r, c); x.n = Codec<int>::gen(r, c); return x;
    }
    static std::string show(const Preset& v, bool canon) {
        return joinList({ Codec<A>::show(v.limit, canon), Codec<B>::show(v.tag, canon), Codec<C>::show(v.xs, canon), Codec<int>::show(v.n, canon) });
    }
};

// ---- classes holding shared_ptr, shaped like Well / ScheduleState ---------------------------------
struct WellLike {
    int id = 0;
    std::shared_ptr<double> limit;
    std::shared_ptr<Rec> conns;
    template <class S> void serializeOp(S& s) { s(id); s(limit); s(conns); }
};
template <> struct Codec<WellLike> {
    static std::string ty() { return "c(i4," + Codec<std::shared_ptr<double>>::ty() + "," + Codec<std::shared_ptr<Rec>>::ty() + ")"; }
    static WellLike gen(vh::Rng& r, const GenCfg& c) {
        WellLike w; w.id = Codec<int>::gen(r, c); w.limit = Codec<std::shared_ptr<double>>::gen(r, c);
        w.conns = Codec<std::shared_ptr<Rec>>::gen(r, c); return w;
    }
    static std::string show(const WellLike& v, bool canon) {
        const std::string a = Codec<int>::show(v.id, canon);
        const std::string b = Codec<std::shared_ptr<double>>::show(v.limit, canon);
        const std::string c = Codec<std::shared_ptr<Rec>>::show(v.conns, canon);
        return joinList({ a, b, c });
    }
};
struct StepLike {
    std::shared_ptr<std::string> title;                                   // ptr_member<T>
    std::unordered_map<std::string, std::shared_ptr<WellLike>> wells;     // map_member<K,T>
    std::vector<std::shared_ptr<WellLike>> order;
    std::optional<std::shared_ptr<Rec>> extra;
    std::map<int, std::shared_ptr<Rec>> byId;
    template <class S> void serializeOp(S& s) { s(title); s(wells); s(order); s(extra); s(byId); }
};
template <> struct Codec<StepLike> {
    using A = std::shared_ptr<std::string>; using B = std::unordered_map<std::string, std::shared_ptr<WellLike>>;
    using C = std::vector<std::shared_ptr<WellLike>>; using D = std::optional<std::shared_ptr<Rec>>; using E = std::map<int, std::shared_ptr<Rec>>;
    static std::string ty() { return "c(" + Codec<A>::ty() + "," + Codec<B>::ty() + "," + Codec<C>::ty() + "," + Codec<D>::ty() + "," + Codec<E>::ty() + ")"; }
    static StepLike gen(vh::Rng& r, const GenCfg& c) {
        StepLike x; x.title = Codec<A>::gen(r, c); x.wells = Codec<B>::gen(r, c); x.order = Codec<C>::gen(r, c);
        x.extra = Codec<D>::gen(r, c); x.byId = Codec<E>::gen(r, c); return x;
    }
    static std::string show(const StepLike& v, bool canon) {     // one member after the other: labels follow the traversal
        const std::string a = Codec<A>::show(v.title, canon);
        const std::string b = Codec<B>::show(v.wells, canon);
        const std::string c = Codec<C>::show(v.order, canon);
        const std::string d = Codec<D>::show(v.extra, canon);
        const std::string e = Codec<E>::show(v.byId, canon);
        return joinList({ a, b, c, d, e });
    }
};

// ---- the REAL wrappers of ScheduleState: ptr_member<T> = class{shared_ptr<T>}, map_member<K,T> =
//      class{unordered_map<K, shared_ptr<T>>}; pointees are made by make_shared inside the wrappers, so
//      their addresses (printed raw in serial.gpack lines) vary from run to run ---------------------------
struct NamedRec {
    std::string nm; int v = 0; std::shared_ptr<double> lim;
    const std::string& name() const { return nm; }
    template <class S> void serializeOp(S& s) { s(nm); s(v); s(lim); }
};
template <> struct Codec<NamedRec> {
    static std::string ty() { return "c(s,i4," + Codec<std::shared_ptr<double>>::ty() + ")"; }
    static NamedRec gen(vh::Rng& r, const GenCfg& c) {
        NamedRec x; x.nm = "W" + std::to_string(r.below(6)); x.v = Codec<int>::gen(r, c); x.lim = Codec<std::shared_ptr<double>>::gen(r, c); return x;
    }
    static std::string show(const NamedRec& v, bool canon) {
        const std::string a = Codec<std::string>::show(v.nm, canon), b = Codec<int>::show(v.v, canon);
        const std::string c = Codec<std::shared_ptr<double>>::show(v.lim, canon);
        return joinList({ a, b, c });
    }
};
inline std::string showPtr(const void* p, bool canon) {
    if (canon) return "&" + std::to_string(labels().get(p));
    char b[32]; std::snprintf(b, sizeof b, "%llx", static_cast<unsigned long long>(reinterpret_cast<std::uintptr_t>(p)));
    return "&" + std::string(b);
}
template <class T> struct Codec<Opm::ScheduleState::ptr_member<T>> {
    using PM = Opm::ScheduleState::ptr_member<T>;
    static std::vector<PM>& pool() {
        static std::vector<PM> p;
        static bool reg = (poolClearers().push_back([] { Codec<PM>::pool().clear(); }), true);
        (void)reg; return p;
    }
    static std::string ty() { return "c(P(" + Codec<T>::ty() + "))"; }
    static PM gen(vh::Rng& r, const GenCfg& c) {       // never null: get() of an unset ptr_member is not defined
        PM pm;
        if (!pool().empty() && r.coin(1, 2)) pm.update(pool()[r.below(pool().size())]);   // "unchanged since an earlier step"
        else pm.update(Codec<T>::gen(r, c));
        pool().push_back(pm);
        return pm;
    }
    static std::string show(const PM& v, bool canon) {
        const std::string a = showPtr(&v.get(), canon);
        return "[" + a + "(" + Codec<T>::show(v.get(), canon) + ")]";
    }
};
template <class T> struct Codec<Opm::ScheduleState::map_member<std::string, T>> {
    using MM = Opm::ScheduleState::map_member<std::string, T>;
    static std::vector<MM>& pool() {
        static std::vector<MM> p;
        static bool reg = (poolClearers().push_back([] { Codec<MM>::pool().clear(); }), true);
        (void)reg; return p;
    }
    static std::string ty() { return "c(N(s,P(" + Codec<T>::ty() + ")))"; }
    static MM gen(vh::Rng& r, const GenCfg& c) {
        MM m;
        if (!pool().empty() && r.coin(2, 3)) m = pool()[r.below(pool().size())];            // the previous step's map: all shared
        const size_t n = genLen(r, c);
        for (size_t i = 0; i < n; ++i) {
            if (!pool().empty() && r.coin(1, 3)) {
                const MM& o = pool()[r.below(pool().size())];
                const auto ks = o.keys();
                if (!ks.empty()) { m.update(ks[r.below(ks.size())], o); continue; }
            }
            m.update(Codec<T>::gen(r, c));
        }
        pool().push_back(m);
        return m;
    }
    static std::string show(const MM& v, bool canon) {
        std::vector<std::pair<std::string, const std::shared_ptr<T>*>> ks;
        for (auto it = v.begin(); it != v.end(); ++it) ks.emplace_back(Codec<std::string>::show(it->first, canon), &it->second);
        if (canon) std::sort(ks.begin(), ks.end(), [](const auto& a, const auto& b) { return a.first < b.first; });
        std::vector<std::string> xs;
        for (const auto& e : ks) {
            const std::string a = showPtr(e.second->get(), canon);
            xs.push_back("[" + e.first + "," + a + "(" + Codec<T>::show(**e.second, canon) + ")]");
        }
        return "[" + joinList(xs) + "]";
    }
};
// one "report step" made of the real wrappers
struct RealStep {
    Opm::ScheduleState::ptr_member<Rec> tuning;
    Opm::ScheduleState::map_member<std::string, NamedRec> wells;
    Opm::ScheduleState::ptr_member<NamedRec> field;
    template <class S> void serializeOp(S& s) { s(tuning); s(wells); s(field); }
};
template <> struct Codec<RealStep> {
    using A = Opm::ScheduleState::ptr_member<Rec>; using B = Opm::ScheduleState::map_member<std::string, NamedRec>; using C = Opm::ScheduleState::ptr_member<NamedRec>;
    static std::string ty() { return "c(" + Codec<A>::ty() + "," + Codec<B>::ty() + "," + Codec<C>::ty() + ")"; }
    static RealStep gen(vh::Rng& r, const GenCfg& c) { RealStep x; x.tuning = Codec<A>::gen(r, c); x.wells = Codec<B>::gen(r, c); x.field = Codec<C>::gen(r, c); return x; }
    static std::string show(const RealStep& v, bool canon) {
        const std::string a = Codec<A>::show(v.tuning, canon), b = Codec<B>::show(v.wells, canon), c = Codec<C>::show(v.field, canon);
        return joinList({ a, b, c });
    }
};

} // namespace sc
