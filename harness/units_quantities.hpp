// C02 — declarations for the hand-written keyword item -> physical quantity tables
// (harness/units_quantities.cpp; read by harness/units.cpp and by translate/units.py).
#pragma once
#include <string>
#include <vector>

namespace uq {

// SI value of one unit of the quantity in METRIC / FIELD / LAB / PVT-M (index 0..3) and the additive
// offset (temperature only): si = raw * scale[t] + offset[t]
struct Quantity { std::string name; double scale[4]; double offset[4]; };

// "KEYWORD.record.ITEM" (names of the keyword JSON) -> quantity of each column of the item
struct ItemQ { std::string key; std::vector<std::string> q; };

// a keyword as a user writes it (ECLIPSE reference manual item ORDER): section + text; every token
// <Quantity> stands for one number of that physical quantity, everything else is literal
struct Template { std::string kw; std::string section; std::string text; };

extern const std::vector<Quantity> QUANTITIES;
extern const std::vector<ItemQ> ITEM_QUANTITIES;
extern const std::vector<Template> TEMPLATES;

}
