// C18 harness: real ACTIONX condition parser / evaluator and the ready/add_run state machine.
//   action corr <seed> <tier> <outdir>     action prop <seed> <tier> <outdir>
#include "common/vh.hpp"

#include <opm/common/utility/TimeService.hpp>
#include <opm/common/utility/shmatch.hpp>
#include <opm/input/eclipse/Schedule/Action/ActionAST.hpp>
#include <opm/input/eclipse/Schedule/Action/ActionContext.hpp>
#include <opm/input/eclipse/Schedule/Action/ActionParser.hpp>
#include <opm/input/eclipse/Schedule/Action/ActionResult.hpp>
#include <opm/input/eclipse/Schedule/Action/ActionValue.hpp>
#include <opm/input/eclipse/Schedule/Action/ActionX.hpp>
#include <opm/input/eclipse/Schedule/Action/Actions.hpp>
#include <opm/input/eclipse/Schedule/Action/Actdims.hpp>
#include <opm/input/eclipse/Deck/Deck.hpp>
#include <opm/input/eclipse/Deck/DeckKeyword.hpp>
#include <opm/input/eclipse/Parser/Parser.hpp>
#include <opm/input/eclipse/Schedule/Action/ASTNode.hpp>
#include <opm/input/eclipse/Schedule/Action/State.hpp>
#include <opm/input/eclipse/Schedule/SummaryState.hpp>
#include <opm/input/eclipse/Schedule/Well/WListManager.hpp>
#include <opm/input/eclipse/Schedule/Action/Condition.hpp>
#include <opm/input/eclipse/Schedule/Action/Enums.hpp>
#include <opm/common/utility/String.hpp>
#include <opm/io/eclipse/rst/action.hpp>
#include <opm/output/eclipse/VectorItems/action.hpp>

#include <algorithm>
#include <cmath>
#include <cstring>
#include <cstdio>
#include <filesystem>
#include <iostream>
#include <map>
#include <memory>
#include <optional>
#include <set>

using namespace Opm;
namespace fs = std::filesystem;
using Strs = std::vector<std::string>;

// ---------------------------------------------------------------------------------------------
// reading the tree through the public serializeOp

struct NodeInfo {
    Action::TokenType type{};
    Action::FuncType func_type{};
    std::string func;
    Strs args;
    double number = 0;
    std::vector<Action::ASTNode> children;
};
struct NodeReader {
    NodeInfo i;
    void operator()(Action::TokenType& v) { i.type = v; }
    void operator()(Action::FuncType& v) { i.func_type = v; }
    void operator()(std::string& v) { i.func = v; }
    void operator()(Strs& v) { i.args = v; }
    void operator()(double& v) { i.number = v; }
    void operator()(std::vector<Action::ASTNode>& v) { i.children = v; }
};
static NodeInfo readNode(const Action::ASTNode& n) { NodeReader r; const_cast<Action::ASTNode&>(n).serializeOp(r); return r.i; }
struct AstReader {
    std::shared_ptr<Action::ASTNode> root;
    void operator()(std::shared_ptr<Action::ASTNode>& p) { root = p; }
};

static std::string listHex(const Strs& v) {
    if (v.empty()) return "-";
    std::string o;
    for (size_t i = 0; i < v.size(); ++i) { if (i) o += ","; o += vh::hex(v[i]); }
    return o;
}

static std::string showNode(const Action::ASTNode& n) {
    NodeInfo i = readNode(n);
    using T = Action::TokenType;
    if (i.type == T::number) return "#" + vh::hexF64(i.number);
    if (i.type == T::ecl_expr) return "x" + std::to_string(static_cast<int>(i.func_type)) + ";" + vh::hex(i.func) + ";" + listHex(i.args);
    std::string o = "(";
    if (i.type == T::op_and) o += "and"; else if (i.type == T::op_or) o += "or"; else o += std::to_string(static_cast<int>(i.type));
    for (auto& c : i.children) o += " " + showNode(c);
    return o + ")";
}

static const char* typeName(Action::TokenType t) {
    using T = Action::TokenType;
    switch (t) {
    case T::number: return "number";
    case T::ecl_expr: return "expr";
    case T::open_paren: return "lp";
    case T::close_paren: return "rp";
    case T::op_and: return "and";
    case T::op_or: return "or";
    case T::op_gt: return "cmp4";
    case T::op_ge: return "cmp5";
    case T::op_lt: return "cmp6";
    case T::op_le: return "cmp7";
    case T::op_eq: return "cmp8";
    case T::op_ne: return "cmp9";
    default: return "?";
    }
}

// raw token: text, what strtod makes of it, FuncType code; the MODEL classifies the text itself
static std::string tokProto(const std::string& s) {
    int code = 0;
    try { code = static_cast<int>(Action::Parser::get_func(s)); } catch (...) { code = 0; }
    return "T:" + vh::hex(s) + ":" + vh::hexF64(std::strtod(s.c_str(), nullptr)) + ":" + std::to_string(code);
}

// ---------------------------------------------------------------------------------------------

struct World {
    Strs wells;
    std::map<std::string, double> keys;    // everything Context::get knows: FOPR, WOPR:P1, GOPR:G1, ROPR:1, MNTH, JAN ...
    std::map<std::string, Strs> wellsOf;   // func -> wells carrying it (SummaryState::wells(func))
    std::map<std::string, Strs> wlists;    // WLIST name -> wells
    double udqUndef = 0.0;                 // SummaryState's value of an undefined UDQ
};

// the harness's own reading of "is a user defined quantity": second letter U after W G F C R B S A
static bool ownIsUdq(const std::string& k) { return k.size() > 1 && k[1] == 'U' && std::string("WGFCRBSA").find(k[0]) != std::string::npos; }
// reference look-up: a known value, else the undefined value for a UDQ
static std::optional<double> refGet(const World& w, const std::string& key) {
    auto it = w.keys.find(key);
    if (it != w.keys.end()) return it->second;
    if (ownIsUdq(key)) return w.udqUndef;
    return std::nullopt;
}

static double gridVal(vh::Rng& rng) { return rng.range(0, 8) * 0.25; }

static const Strs kWellFuncs = { "WOPR", "WWCT", "WUX" };

struct Env {
    SummaryState st;
    WListManager wlm;
    std::unique_ptr<Action::Context> ctx;
    World w;
    static double pickUndef(vh::Rng& rng) { return rng.pick(std::vector<double>{ 0.0, 0.0, 0.5, -99.0, 1.0e20 }); }
    explicit Env(vh::Rng& rng) : Env(rng, pickUndef(rng)) {}
    Env(vh::Rng& rng, double undef) : st(TimeService::now(), undef) {
        w.udqUndef = undef;
        static const Strs wn = { "P1", "P2", "P3", "I1", "PA", "OP_1", "OP1" };
        int nw = rng.range(1, 7);
        for (int i = 0; i < nw; ++i) w.wells.push_back(wn[i]);
        for (size_t i = w.wells.size(); i > 1; --i) std::swap(w.wells[i - 1], w.wells[rng.below(i)]);
        auto put = [&](const std::string& key) { double v = gridVal(rng); st.update(key, v); w.keys[key] = v; };
        for (const char* f : { "FOPR", "FWCT", "FUX" }) put(f);                      // field vectors + a field UDQ
        for (const char* k : { "ROPR:1", "ROPR:2", "BPR:1:2:3", "COPR:P1:1:2:3" }) put(k);   // numeric arguments
        for (const auto& f : kWellFuncs)
            for (auto& well : w.wells) {
                if (f != "WOPR" && rng.coin(1, f == "WUX" ? 3 : 10)) continue;      // some wells lack WWCT / the well UDQ
                double v = gridVal(rng);
                st.update_well_var(well, f, v);
                w.keys[f + ":" + well] = v;
            }
        for (const char* f : { "GOPR", "GUX" })
            for (const char* g : { "G1", "G2" }) { double v = gridVal(rng); st.update_group_var(g, f, v); w.keys[std::string(f) + ":" + g] = v; }
        // well lists
        for (const char* ln : { "*L1", "*L2", "*M" }) {
            if (rng.coin(1, 3)) continue;
            Strs ws; for (auto& well : w.wells) if (rng.coin()) ws.push_back(well);
            if (rng.coin(1, 12)) ws.push_back("NOSUCH");          // a listed well without summary values
            wlm.newList(ln, ws);
            w.wlists[ln] = wlm.getList(ln).wells();
        }
        ctx = std::make_unique<Action::Context>(st, wlm);
        for (const auto& [m, idx] : TimeService::eclipseMonthIndices()) w.keys[m] = idx;
        double mnth = rng.range(1, 12), day = rng.range(1, 28), year = rng.range(2020, 2024);
        ctx->add("MNTH", mnth); ctx->add("DAY", day); ctx->add("YEAR", year);
        w.keys["MNTH"] = mnth; w.keys["DAY"] = day; w.keys["YEAR"] = year;
        for (const auto& f : kWellFuncs) w.wellsOf[f] = st.wells(f);
    }
};

static std::string stripQ(const std::string& s) { return (!s.empty() && s.front() == '\'') ? s.substr(1, s.size() - 2) : s; }

// generator's own tree (used by the reference evaluator of the property mode)
struct GNode {
    enum K { CMP, AND, OR } k = CMP;
    std::vector<GNode> ch;
    // comparison
    std::string func; Strs args; std::string op; Strs rhs;
    bool paren = false;
};

static const Strs kOps = { ">", "<", ">=", "<=", "=", "!=", ".GT.", ".lt.", ".GE.", ".Le.", ".EQ.", ".ne." };

struct Gen {
    vh::Rng& rng;
    const World& w;
    int ncmp = 0;
    bool dequoteRhsHead = false;     // what ActionX's dequote does to a quoted right-hand side name
    Gen(vh::Rng& r, const World& wo) : rng(r), w(wo) {}

    GNode cmp() {
        GNode n; n.k = GNode::CMP; ++ncmp;
        static const Strs pats = { "P*", "*", "'P*'", "I*", "X*", "*1", "\\*", "?P*", "P?", "*P*", "\\*P*", "OP_*", "'\\*'", "*L1", "*L*", "'*L2'", "*M", "O*1", "\\P1", "P[12]*", "[!O]*", "*[1-2]", "[OP]P*", "P[!1]*", "[A-P]*", "*[]3]", "[^P]*_*", "*[3-1]", "P[1*", "'[O-P]?*'", "P\\1*", "*\\_1", "[\\O]P*" };
        switch (rng.below(14)) {
        case 0: n.func = rng.pick(Strs{ "FOPR", "FWCT", "FUX" }); break;
        case 1: n.func = rng.coin() ? "GOPR" : "GUX"; n.args = { rng.pick(Strs{ "G1", "G2", "'G1'", "G1", "G2", "'G2'", "G1", "G2", "G*", "G3" }) }; break;
        case 2: n.func = rng.pick(kWellFuncs); n.args = { rng.pick(w.wells) }; break;
        case 3: case 4: case 9: { n.func = rng.pick(kWellFuncs); n.args = { rng.pick(pats) }; break; }
        case 5: n.func = "MNTH"; break;
        case 6: n.func = rng.coin() ? "DAY" : "YEAR"; break;
        case 7: n.func = "WOPR"; n.args = { "*" }; break;
        case 10: n.func = "ROPR"; n.args = { rng.pick(Strs{ "1", "2", "1", "2", "1", "2", "1", "3" }) }; break;
        case 11: n.func = "BPR"; n.args = { "1", "2", rng.coin(1, 10) ? "4" : "3" }; break;
        case 12: n.func = "COPR"; n.args = { rng.coin(1, 10) ? "P*" : "P1", "1", "2", "3" }; break;
        default: n.func = "WWCT"; n.args = { "'" + rng.pick(w.wells) + "'" }; break;
        }
        n.op = rng.pick(kOps);
        if (n.func == "MNTH") n.rhs = { rng.coin() ? rng.pick(Strs{ "JUN", "JAN", "DEC", "OKT", "JLY", "JUL", "'MAR'", "FEB", "NOV", "AUG", "SEP", "APR", "MAY", "OCT" }) : rng.pick(Strs{ "6", "6.3", "5.5", "11.5", "1", "6.5", "0.4", "12.49", "2.5", "4.5", "8.5", "10.5", "0.5", "3.7" }) };
        else if (n.func == "YEAR") n.rhs = { rng.pick(Strs{ "2021", "2022.5", "2019", "2.022E3" }) };
        else if (n.func == "DAY") n.rhs = { rng.pick(Strs{ "1", "14", "28", "14.5", "+7" }) };
        else switch (rng.below(10)) {
            case 0: n.rhs = { rng.coin() ? "FOPR" : "FUX" }; break;
            case 1: n.rhs = { rng.coin() ? "WOPR" : "WUX", rng.pick(w.wells) }; break;
            case 2: if (rng.coin(1, 3)) n.rhs = { "WOPR", "P*" }; else n.rhs = { "FWCT" }; break;   // a list on the right: the code throws
            case 3: n.rhs = { rng.coin() ? "GOPR" : "GUX", rng.coin() ? "G1" : "G2" }; break;
            case 4: n.rhs = { "ROPR", rng.pick(Strs{ "1", "2" }) }; break;
            case 5: n.rhs = { rng.pick(Strs{ "BPR", "COPR" }) }; if (n.rhs[0] == "BPR") { n.rhs.insert(n.rhs.end(), { "1", "2", "3" }); } else { n.rhs.insert(n.rhs.end(), { "P1", "1", "2", "3" }); } break;
            default: n.rhs = { rng.pick(Strs{ "0", "0.5", "1", "1.25", "2", "0.75", "1e0", "-1", ".5", "1.", "0x1p-1", "+1.5E0", "5e-1" }) }; break;
        }
        return n;
    }
    GNode node(int depth, int budget) {
        if (depth <= 0 || budget <= 1 || rng.coin(1, 3)) return cmp();
        GNode n; n.k = rng.coin() ? GNode::AND : GNode::OR;
        int nch = rng.range(2, 3);
        for (int i = 0; i < nch && ncmp < 8; ++i) { GNode c = node(depth - 1, budget / nch + 1); c.paren = (c.k != GNode::CMP) && ((n.k == GNode::AND && c.k == GNode::OR) || rng.coin(1, 2)); n.ch.push_back(c); }
        if (n.ch.size() == 1) return n.ch[0];
        return n;
    }
    void render(const GNode& n, Strs& out) {
        if (n.k == GNode::CMP) {
            out.push_back(n.func); for (auto& a : n.args) out.push_back(a);
            out.push_back(n.op);
            for (size_t i = 0; i < n.rhs.size(); ++i) out.push_back(i == 0 && dequoteRhsHead ? stripQ(n.rhs[i]) : n.rhs[i]);
            return;
        }
        for (size_t i = 0; i < n.ch.size(); ++i) {
            if (i) out.push_back(n.k == GNode::AND ? (rng.coin() ? "AND" : "and") : (rng.coin() ? "OR" : "Or"));
            if (n.ch[i].paren) out.push_back("(");
            render(n.ch[i], out);
            if (n.ch[i].paren) out.push_back(")");
        }
    }
};


// the harness's OWN pattern matcher for the reference evaluator (documented meaning of * ? \c)
static bool ownGlob(const char* p, const char* n) {
    if (*p == 0) return *n == 0;
    if (*p == '*') { for (const char* q = n;; ++q) { if (ownGlob(p + 1, q)) return true; if (*q == 0) return false; } }
    if (*n == 0) return false;
    if (*p == '?') return ownGlob(p + 1, n + 1);
    if (*p == '\\') { return p[1] != 0 && p[1] == *n && ownGlob(p + 2, n + 1); }
    if (*p == '[') {
        // documented meaning of a bracket expression: the set of its members / ranges, `!` or `^` first negates,
        // `]` first is a member; without a closing `]` the `[` stands for itself
        const char* q = p + 1; bool neg = false;
        if (*q == '!' || *q == '^') { neg = true; ++q; }
        std::string members; std::vector<std::pair<char, char>> ranges; bool first = true, closed = false;
        while (*q) {
            if (*q == ']' && !first) { closed = true; ++q; break; }
            first = false;
            char a = *q++;
            if (a == '\\') { if (!*q) return false; a = *q++; }
            if (*q == '-' && q[1] && q[1] != ']') { char b = q[1]; q += 2; if (b == '\\') { if (!*q) return false; b = *q++; } ranges.push_back({ a, b }); }
            else members += a;
        }
        if (!closed) return *n == '[' && ownGlob(p + 1, n + 1);
        bool in = members.find(*n) != std::string::npos;
        for (auto& r : ranges) if (r.first <= *n && *n <= r.second) in = true;
        return in != neg && ownGlob(q, n + 1);
    }
    return *p == *n && ownGlob(p + 1, n + 1);
}

// reference: the wells a well argument names.  "*NAME" = well list(s), a leading backslash protects
// a pattern that starts with '*', otherwise the wells carrying the vector that match the pattern
static Strs matchWells(const World& w, const std::string& func, const std::string& quoted) {
    std::string p = stripQ(quoted);
    Strs out;
    if (p.size() > 1 && p.front() == '*') {
        auto it = w.wlists.find(p);
        if (it != w.wlists.end()) return it->second;
        for (auto& kv : w.wlists)
            if (ownGlob(p.c_str() + 1, kv.first.c_str() + 1))
                for (auto& x : kv.second) if (std::find(out.begin(), out.end(), x) == out.end()) out.push_back(x);
        return out;
    }
    if (!p.empty() && p.front() == '\\') p = p.substr(1);
    auto it = w.wellsOf.find(func);
    if (it == w.wellsOf.end()) return out;
    for (auto& well : it->second) if (ownGlob(p.c_str(), well.c_str())) out.push_back(well);
    return out;
}

static std::string ctxProto(const World& w) {
    std::string o = "WF=" + std::to_string(static_cast<int>(Action::FuncType::well)) + " MF=" + std::to_string(static_cast<int>(Action::FuncType::time_month));
    o += " UD=" + vh::hexF64(w.udqUndef);
    for (auto& kv : w.keys) o += " K:" + vh::hex(kv.first) + "=" + vh::hexF64(kv.second);
    for (auto& kv : w.wellsOf) o += " W:" + vh::hex(kv.first) + ":" + listHex(kv.second);
    for (auto& kv : w.wlists) o += " L:" + vh::hex(kv.first) + ":" + listHex(kv.second);      // std::map order
    return o;
}

static std::string showResult(const Action::Result& r) {
    Strs ws;
    for (const auto& x : r.matches().wells()) ws.push_back(x);
    return std::string("ok ") + (r.conditionSatisfied() ? "1 " : "0 ") + listHex(ws);
}

static std::string joinStrs(const Strs& v) { std::string s; for (size_t i = 0; i < v.size(); ++i) { if (i) s += " "; s += v[i]; } return s; }

// ---------------------------------------------------------------------------------------------
// reference evaluator (property mode): from the documented rule, on the generator's own tree

struct RefRes { bool ok = false; std::optional<std::set<std::string>> wells; bool bad = false; };

static bool holds(double a, const std::string& op0, double b) {
    std::string op; for (char c : op0) op += static_cast<char>(std::tolower(c));
    if (op == ">" || op == ".gt.") return a > b;
    if (op == ">=" || op == ".ge.") return a >= b;
    if (op == "<" || op == ".lt.") return a < b;
    if (op == "<=" || op == ".le.") return a <= b;
    if (op == "=" || op == ".eq.") return a == b;
    return a != b;
}

static std::string joinColon(const Strs& v, size_t from) { std::string o; for (size_t i = from; i < v.size(); ++i) { if (i > from) o += ":"; o += stripQ(v[i]); } return o; }

static RefRes refEval(const GNode& n, const World& w) {
    RefRes r;
    if (n.k == GNode::CMP) {
        double rhs = 0;
        const std::string r0 = stripQ(n.rhs[0]);
        if (n.rhs.size() == 1) {
            char* e = nullptr; double x = std::strtod(r0.c_str(), &e);
            if (*e == 0) rhs = (n.func == "MNTH") ? std::round(x) : x;
            else { auto v = refGet(w, r0); if (!v) { r.bad = true; return r; } rhs = *v; }
        } else {
            if (n.rhs.size() == 2 && n.rhs[1].find('*') != std::string::npos) { r.bad = true; return r; }
            auto v = refGet(w, r0 + ":" + joinColon(n.rhs, 1)); if (!v) { r.bad = true; return r; } rhs = *v;
        }
        if (n.args.empty()) { auto v = refGet(w, n.func); if (!v) { r.bad = true; return r; } r.ok = holds(*v, n.op, rhs); return r; }
        std::string a = stripQ(n.args[0]);
        bool wellLevel = n.func[0] == 'W';
        bool pattern = n.args.size() == 1 && a.find('*') != std::string::npos;
        if (!wellLevel) {
            if (pattern) { r.bad = true; return r; }                 // lists of groups etc. are not supported
            auto v = refGet(w, n.func + ":" + joinColon(n.args, 0)); if (!v) { r.bad = true; return r; }
            r.ok = holds(*v, n.op, rhs); return r;
        }
        Strs ws = pattern ? matchWells(w, n.func, n.args[0]) : Strs{ a };
        r.wells = std::set<std::string>{};
        for (auto& well : ws) { auto v = refGet(w, n.func + ":" + well); if (!v) { r.bad = true; return r; } if (holds(*v, n.op, rhs)) r.wells->insert(well); }
        r.ok = !r.wells->empty();
        return r;
    }
    std::vector<RefRes> cs;
    for (auto& c : n.ch) { cs.push_back(refEval(c, w)); if (cs.back().bad) { r.bad = true; return r; } }
    if (n.k == GNode::AND) {
        r.ok = true; for (auto& c : cs) r.ok = r.ok && c.ok;
        if (!r.ok) return r;                                   // false: no wells
        for (auto& c : cs) if (c.wells) {
            if (!r.wells) r.wells = c.wells;
            else { std::set<std::string> i; for (auto& x : *r.wells) if (c.wells->count(x)) i.insert(x); r.wells = i; }
        }
    } else {
        for (auto& c : cs) r.ok = r.ok || c.ok;
        if (!r.ok) return r;
        for (auto& c : cs) if (c.ok && c.wells) { if (!r.wells) r.wells = std::set<std::string>{}; r.wells->insert(c.wells->begin(), c.wells->end()); }
    }
    return r;
}

// ---------------------------------------------------------------------------------------------

struct RunCfg { size_t maxRun; double minWait; std::time_t start; };

static std::vector<std::time_t> realDrive(const RunCfg& c, const std::vector<std::pair<std::time_t, bool>>& evs, size_t& count) {
    Action::ActionX action("A", c.maxRun, c.minWait, c.start);
    Action::State state;
    std::vector<std::time_t> runs;
    for (auto& [t, cond] : evs) {
        if (action.ready(state, t) && cond) { state.add_run(action, t, Action::Result{ true }); runs.push_back(t); }
    }
    count = state.run_count(action);
    return runs;
}


// ---------------------------------------------------------------------------------------------
// several actions over report steps: real Actions::add / Actions::pending / State::add_run

struct SimEvent { char kind; std::string name; size_t maxRun = 0; long minWait = 0; long start = 0; long t = 0; Strs trueNames; };
struct SimRun { std::string name; size_t id; long t; size_t maxRun; long minWait; long start; };

static std::vector<SimEvent> genSim(vh::Rng& rng, int len) {
    static const Strs names = { "A", "B", "ACT3" };
    std::vector<SimEvent> evs;
    long t = rng.range(0, 4);
    for (int i = 0; i < len; ++i) {
        SimEvent e;
        if (i == 0 || rng.coin(1, 5)) {
            e.kind = 'D'; e.name = rng.pick(names); e.maxRun = static_cast<size_t>(rng.range(0, 3));
            e.minWait = rng.pick(std::vector<int>{ 0, 0, 1, 5, 10 }); e.start = rng.pick(std::vector<int>{ 0, 0, 3, 12 });
        } else {
            e.kind = 'S'; t += rng.pick(std::vector<int>{ 0, 1, 1, 2, 4, 5, 9, 10, 11 }); e.t = t;
            for (auto& n : names) if (rng.coin(2, 3)) e.trueNames.push_back(n);
        }
        evs.push_back(e);
    }
    return evs;
}

static std::string simProto(const std::vector<SimEvent>& evs) {
    std::string o = "action.sim";
    for (auto& e : evs) {
        if (e.kind == 'D') o += " D:" + vh::hex(e.name) + ":" + std::to_string(e.maxRun) + ":" + std::to_string(e.minWait) + ":" + std::to_string(e.start);
        else o += " S:" + std::to_string(e.t) + ":" + listHex(e.trueNames);
    }
    return o;
}

// the simulator's loop (msim::post_step / flow's action handler): pending, evaluate, add_run
static std::string realSim(const std::vector<SimEvent>& evs, std::vector<SimRun>* runsOut = nullptr) {
    Action::Actions actions;
    Action::State state;
    std::string log;
    for (auto& e : evs) {
        if (e.kind == 'D') { actions.add(Action::ActionX(e.name, e.maxRun, static_cast<double>(e.minWait), static_cast<std::time_t>(e.start))); continue; }
        for (const auto* a : actions.pending(state, static_cast<std::time_t>(e.t))) {
            if (std::find(e.trueNames.begin(), e.trueNames.end(), a->name()) == e.trueNames.end()) continue;
            state.add_run(*a, static_cast<std::time_t>(e.t), Action::Result{ true });
            log += (log.empty() ? "" : ",") + vh::hex(a->name()) + "." + std::to_string(a->id()) + "@" + std::to_string(e.t);
            if (runsOut) runsOut->push_back({ a->name(), a->id(), e.t, a->max_run(), static_cast<long>(a->min_wait()), static_cast<long>(a->start_time()) });
        }
    }
    if (log.empty()) log = "-";
    log += " ;";
    for (const auto& a : actions) {
        size_t c = state.run_count(a);
        log += " " + vh::hex(a.name()) + "." + std::to_string(a.id()) + "=" + std::to_string(c) + ":" + (c ? std::to_string(static_cast<long>(state.run_time(a))) : std::string("-"));
    }
    return log;
}

// ---------------------------------------------------------------------------------------------
// the real entry point: ACTIONX keyword in a deck -> parseActionX -> ActionX::eval

static std::string deckText(const Strs& toks) {
    std::string d = "RUNSPEC\nACTDIMS\n  4 50 80 64 /\nSCHEDULE\nACTIONX\n  ACT 10 0 /\n ";
    for (size_t i = 0; i < toks.size(); ++i) {
        d += " " + toks[i];
        auto t = Action::Parser::get_type(toks[i]);
        if ((t == Action::TokenType::op_and || t == Action::TokenType::op_or) && i + 1 < toks.size()) d += " /\n ";
    }
    d += " /\n/\n";
    return d;
}

// "noparse" | "err" | "ok <0|1> <wells>"
static std::string deckEval(const Strs& toks, const Action::Context& ctx, Action::Result* out = nullptr) {
    try {
        const auto deck = Parser{}.parseString(deckText(toks));
        const auto& kw = deck["ACTIONX"].back();
        auto [action, errors] = Action::parseActionX(kw, Actdims(deck), 0);
        if (!errors.empty()) return "noparse";
        try { auto r = action.eval(ctx); if (out) *out = r; return showResult(r); }
        catch (const std::exception&) { return "err"; }
    } catch (const std::exception&) { return "noparse"; }
}

static std::string randomToken(vh::Rng& rng) {
    static const Strs pieces = { "1", "0", "9", ".", "e", "E", "+", "-", "x", "X", "p", "P", "inf", "INF", "nan", "NaN", "inity", "infinity",
        "(", ")", "a", "f", "F", "_", " ", "\t", "and", "AND", "Or", "or", ".gt.", ".GE.", ".ge", ">", "=", "!", "<", "0x", "0X1", "1e5", "1.5", "d", "D",
        ".Ne.", ".EQ.", ".lt.", ".LE.", "W", "i", "n", "*", "'", "nan(", "a1)", "1.", ".5", "e+", "e-3", "p+2" };
    std::string t; int n = rng.range(1, 4);
    for (int i = 0; i < n; ++i) t += rng.pick(pieces);
    return t;
}

// decimal / hexadecimal literals aimed at the rounding of strtod: long digit strings, ties, the
// subnormal and overflow borders, exponents of every size
static std::string randomLiteral(vh::Rng& rng) {
    static const Strs fixed = { "9007199254740993", "9007199254740992", "9007199254740995", "0.1", "1e23", "8.5", "4.9e-324", "2.4703282292062327e-324",
        "2.4703282292062328e-324", "2.47032822920623272e-324", "1.7976931348623157e308", "1.7976931348623158e308", "1.7976931348623159e308", "1e400", "1e-400", "2.2250738585072011e-308",
        "2.2250738585072014e-308", "0x1.8p1", "0x1p-1074", "0x1p-1075", "0x1.8p-1075", "0x1.fffffffffffff8p1023", "0x1.fffffffffffff7p1023", "0X.8P+1", "0x10.p-4", "1E+5", "-0", "-0.0e9", "+.5E-1",
        "0e99999999999", "1e99999999999", "1e-99999999999", "0x1p99999999999", "0x0p99999999999", "0x1p-99999999999", "000123.4500e-0007", "5e-324", "3e-324", "2e-324", "0.5", "1.5", "2.5", "12.5", "7.50" };
    if (rng.range(0, 5) == 0) { std::string t = rng.pick(fixed); if (rng.range(0, 3) == 0) t = rng.pick(Strs{ "-", "+", " ", " -", "\t+" }) + t; return t; }
    std::string t;
    if (rng.range(0, 6) == 0) t += rng.pick(Strs{ " ", "\t", "  " });
    if (rng.range(0, 2) == 0) t += rng.pick(Strs{ "-", "+" });
    const bool hexa = rng.range(0, 5) == 0;
    const std::string digs = hexa ? "0123456789abcdefABCDEF" : "0123456789";
    if (hexa) t += rng.pick(Strs{ "0x", "0X" });
    int ni = rng.range(0, rng.range(0, 1) ? 22 : 4), nf = rng.range(0, rng.range(0, 1) ? 22 : 4);
    for (int i = 0; i < ni; ++i) t += (i == 0 && rng.range(0, 3) == 0) ? '0' : digs[rng.range(0, (int)digs.size() - 1)];
    if (nf > 0 || rng.range(0, 3) == 0) { t += "."; for (int i = 0; i < nf; ++i) t += digs[rng.range(0, (int)digs.size() - 1)]; }
    if (rng.range(0, 1)) {
        t += hexa ? rng.pick(Strs{ "p", "P" }) : rng.pick(Strs{ "e", "E" });
        t += rng.pick(Strs{ "", "", "+", "-" });
        int ne = rng.range(0, 4);
        if (rng.range(0, 9) == 0) t += "00";
        for (int i = 0; i < ne; ++i) t += "0123456789"[rng.range(0, 9)];
        if (ne == 0 && rng.range(0, 3)) t += hexa ? rng.pick(Strs{ "1074", "1022", "1023", "1075", "-1074" }) : rng.pick(Strs{ "308", "309", "324", "323", "22", "23" });
    }
    if (rng.range(0, 30) == 0) t += rng.pick(Strs{ "x", " ", "e", ".", "f" });
    return t;
}

// class of a token and, for a number, the bits of the value the real parser stores (parse_right)
static std::string realNumval(const std::string& t) {
    std::string ans = typeName(Action::Parser::get_type(t));
    if (ans != "number") return ans;
    std::string low; for (char c : t) low += static_cast<char>(std::tolower(static_cast<unsigned char>(c)));
    if (low.find("nan(") != std::string::npos) return ans + " -";       // payload of nan(chars): not modelled
    try {
        Action::AST ast(Strs{ "FOPR", ">", t });
        AstReader ar; ast.serializeOp(ar);
        NodeInfo top = readNode(*ar.root);
        if (top.children.size() != 2) return ans + " shape";
        NodeInfo rhs = readNode(top.children[1]);
        if (rhs.type != Action::TokenType::number) return ans + " notnumber";
        return ans + " " + vh::hexF64(rhs.number);
    } catch (const std::exception&) { return ans + " err"; }
}


// ---------------------------------------------------------------------------------------------
// fifth round: what a restart does to a condition (format_double, RstAction::Condition::tokens)

// is format_double defined for x (finite; an integer-valued x must fit an int)
static bool fmtDefined(double x) {
    if (!std::isfinite(x)) return false;
    double ip; if (std::modf(x, &ip) != 0.0) return true;
    return x >= -2147483648.0 && x < 2147483648.0;
}
static std::string realFmtDouble(double x) { return fmtDefined(x) ? vh::hex(format_double(x)) : std::string("none"); }

// constants as they occur in ACTIONX conditions: integers of every size, halves, eighths, decimals with few and
// many digits, values at the rounding ties of "%f", tiny and huge numbers, non-finite ones
static double restartConstant(vh::Rng& rng) {
    switch (rng.range(0, 11)) {
    case 0: return static_cast<double>(rng.range(-20, 400));
    case 1: return static_cast<double>(rng.range(-0x7fffffff, 0x7fffffff));
    case 2: return rng.range(-80000, 80000) * 0.125;
    case 3: return rng.range(-2000000, 2000000) * 1e-3;
    case 4: return (rng.range(-4000000, 4000000) + 0.5) * 1e-6 * (rng.coin() ? 1.0 : 0.1);       // near a tie of the sixth decimal
    case 5: return std::ldexp(static_cast<double>(rng.range(1, 0x7fffffff)), rng.range(-80, 40)) * (rng.coin() ? 1 : -1);
    case 6: return rng.pick(std::vector<double>{ 0.0, -0.0, 1e-7, 4.9e-324, 5e-7, 5.000001e-7, -2147483648.0, 2147483647.0, 2147483648.0, -2147483649.0,
                                                 3e9, 1e20, 1.0e15 + 0.5, 0.1, 0.3, 215.1234567, 1e-6, 0.9999995, 0.99999949, 999999.9999995, -0.5e-6, 1.5e-6, 2.5e-6,
                                                 std::numeric_limits<double>::infinity(), -std::numeric_limits<double>::infinity(), std::nan(""), 1.7976931348623157e308 });
    case 7: return static_cast<double>(rng.range(-0x7fffffff, 0x7fffffff)) * 4.0 + rng.range(0, 3);   // around and beyond the int range
    case 8: return std::strtod(randomLiteral(rng).c_str(), nullptr);
    case 9: return rng.range(0, 1000) * 0.01;
    case 10: return rng.range(1, 12) + (rng.coin(1, 4) ? 0.5 : 0.0);
    default: { uint64_t b = (static_cast<uint64_t>(rng.range(0, 0x7fffffff)) << 33) ^ (static_cast<uint64_t>(rng.range(0, 0x7fffffff)) << 11) ^ static_cast<uint64_t>(rng.range(0, 0x7ff));
               return vh::f64FromBits(b); }
    }
}

struct RstSpec { std::string lhs, lhsWg, rhsQ, rhsWg; bool rhsConst = false; double rhsVal = 0; int cmp = 1; bool lp = false, rp = false; int logic = 0; };

static RstSpec genRst(vh::Rng& rng) {
    RstSpec s;
    s.lhs = rng.pick(Strs{ "WOPR", "WWCT", "FOPR", "FWCT", "GOPR", "WUX", "FUX", "GUX" });
    if (s.lhs[0] == 'W') s.lhsWg = rng.pick(Strs{ "P1", "P2", "OP_1", "P*", "*", "*L1", "'P 1'", "" });
    if (s.lhs[0] == 'G') s.lhsWg = rng.pick(Strs{ "G1", "G2", "FIELD" });
    s.cmp = rng.range(1, 6);
    if (rng.coin(1, 6)) {          // DAY / MNTH / YEAR: rebuilt from the quantity TYPE, constant right-hand side
        s.lhs = rng.pick(Strs{ "DAY", "MNTH", "YEAR" }); s.lhsWg.clear(); s.rhsConst = true;
        s.rhsVal = s.lhs == "MNTH" ? rng.range(-1, 14) + (rng.coin(1, 4) ? 0.5 : 0.0) : s.lhs == "DAY" ? rng.range(1, 31) : rng.range(2019, 2026);
        if (rng.coin(1, 10)) s.rhsVal = restartConstant(rng);
        if (s.lhs == "MNTH" && !(std::fabs(s.rhsVal) < 1e9)) s.rhsVal = 3;      // the int cast of the month index must be defined
    }
    else if (rng.coin(2, 3)) { s.rhsConst = true; s.rhsVal = restartConstant(rng); }
    else {
        s.rhsQ = rng.pick(Strs{ "WOPR", "FOPR", "GOPR", "FWCT" });
        if (s.rhsQ[0] == 'W') s.rhsWg = rng.pick(Strs{ "P1", "P3", "I1" });
        if (s.rhsQ[0] == 'G') s.rhsWg = rng.pick(Strs{ "G1", "G2" });
    }
    int par = rng.range(0, 3); s.lp = par == 1; s.rp = par == 2;
    s.logic = rng.range(0, 2);
    return s;
}

// the arrays of one condition as the restart file holds them -> RstAction::Condition
static RestartIO::RstAction::Condition rstCondition(const RstSpec& s) {
    namespace VI = RestartIO::Helpers::VectorItems;
    std::vector<std::string> zacn(VI::ZACN::ConditionSize, std::string(8, ' '));
    std::vector<int> iacn(VI::IACN::ConditionSize, 0);
    std::vector<double> sacn(VI::SACN::ConditionSize, 0.0);
    zacn[VI::ZACN::LHSQuantity] = s.lhs;
    if (s.lhs[0] == 'W') zacn[VI::ZACN::LHSWell] = s.lhsWg;
    if (s.lhs[0] == 'G') zacn[VI::ZACN::LHSGroup] = s.lhsWg;
    if (!s.rhsConst) {
        zacn[VI::ZACN::RHSQuantity] = s.rhsQ;
        if (s.rhsQ[0] == 'W') zacn[VI::ZACN::RHSWell] = s.rhsWg;
        if (s.rhsQ[0] == 'G') zacn[VI::ZACN::RHSGroup] = s.rhsWg;
    }
    iacn[VI::IACN::LHSQuantityType] = s.lhs[0] == 'W' ? VI::IACN::Value::Well : s.lhs[0] == 'G' ? VI::IACN::Value::Group :
                                      s.lhs[0] == 'D' ? VI::IACN::Value::Day : s.lhs[0] == 'M' ? VI::IACN::Value::Month : s.lhs[0] == 'Y' ? VI::IACN::Value::Year : VI::IACN::Value::Field;
    iacn[VI::IACN::TerminalLogic] = s.logic;
    iacn[VI::IACN::Paren] = s.lp ? VI::IACN::Value::Open : s.rp ? VI::IACN::Value::Close : VI::IACN::Value::None;
    iacn[VI::IACN::Comparator] = s.cmp;
    sacn[VI::SACN::RHSValue0] = s.rhsVal;
    return RestartIO::RstAction::Condition(zacn.data(), iacn.data(), sacn.data());
}

static std::string rstProto(const RstSpec& s) {
    const bool lw = s.lhs[0] == 'W' || s.lhs[0] == 'G';
    std::string r = s.rhsConst ? "V:" + vh::hexF64(s.rhsVal)
                               : "N:" + vh::hex(s.rhsQ) + ":" + ((s.rhsQ[0] == 'W' || s.rhsQ[0] == 'G') ? (s.rhsWg.empty() ? std::string("e") : vh::hex(s.rhsWg)) : std::string("-"));
    // "-" = no well / group name, "e" = a present but empty one
    return "action.rsttok " + vh::hex(s.lhs) + " " + (lw ? (s.lhsWg.empty() ? std::string("e") : vh::hex(s.lhsWg)) : std::string("-")) + " " + std::to_string(s.cmp) + " " + r + " " +
           (s.lp ? "1" : "0") + " " + (s.rp ? "1" : "0") + " " + std::to_string(s.logic);
}

static std::string realRstTokens(const RstSpec& s) {
    if (s.rhsConst && !fmtDefined(s.rhsVal)) return "none";
    Strs toks;
    try { toks = rstCondition(s).tokens(); } catch (const std::out_of_range&) { return "none"; }      // month index outside 1..12
    std::string o;
    for (size_t i = 0; i < toks.size(); ++i) { if (i) o += ","; o += toks[i].empty() ? std::string("-") : vh::hex(toks[i]); }
    return o;
}

// class and value bits of format_double(x) read again by the real parser
static std::string realFmtRt(double x) {
    if (!fmtDefined(x)) return "none";
    const std::string a = realNumval(format_double(x));
    return a.substr(0, 6) == "number" ? a : std::string("notnumber");
}


// the number grammar of ACTIONX tokens, written down independently of the code (and of the Lean model's staged parser):
//   token := "" | ws* [+-] body      body := dec | hex | inf | infinity | nan | nan( [A-Za-z0-9_]* )      (after lower-casing)
//   dec := (d+ | d+ . d* | . d+) [ e [+-] d+ ]          hex := 0x (h+ | h+ . h* | . h+) [ p [+-] d+ ]
static bool ownNumberGrammar(const std::string& tok) {
    std::string s; for (char c : tok) s += (c >= 'A' && c <= 'Z') ? static_cast<char>(c + 32) : c;
    if (s.empty()) return true;
    size_t i = 0;
    while (i < s.size() && (s[i] == ' ' || (s[i] >= '\t' && s[i] <= '\r'))) ++i;
    if (i < s.size() && (s[i] == '+' || s[i] == '-')) ++i;
    const std::string b = s.substr(i);
    if (b == "inf" || b == "infinity" || b == "nan") return true;
    if (b.size() >= 5 && b.substr(0, 4) == "nan(" && b.back() == ')') {
        for (size_t k = 4; k + 1 < b.size(); ++k) { const char c = b[k]; if (!((c >= '0' && c <= '9') || (c >= 'a' && c <= 'z') || c == '_')) return false; }
        return true;
    }
    auto isd = [](char c) { return c >= '0' && c <= '9'; };
    auto ish = [&](char c) { return isd(c) || (c >= 'a' && c <= 'f'); };
    auto mantExp = [&](const std::string& t, bool hexa, char mark) {
        size_t k = 0, nd = 0;
        auto dig = [&](char c) { return hexa ? ish(c) : isd(c); };
        while (k < t.size() && dig(t[k])) { ++k; ++nd; }
        if (k < t.size() && t[k] == '.') { ++k; while (k < t.size() && dig(t[k])) { ++k; ++nd; } }
        if (nd == 0) return false;
        if (k == t.size()) return true;
        if (t[k] != mark) return false;
        ++k;
        if (k < t.size() && (t[k] == '+' || t[k] == '-')) ++k;
        size_t ne = 0; while (k < t.size() && isd(t[k])) { ++k; ++ne; }
        return ne > 0 && k == t.size();
    };
    if (b.size() >= 2 && b[0] == '0' && b[1] == 'x') return mantExp(b.substr(2), true, 'p');
    return mantExp(b, false, 'e');
}


// a whole restart action: the conditions one after the other, read back through ActionX(RstAction) (tokens(),
// dequote, Action::Parser) and evaluated
static std::string realRstEval(const std::vector<RstSpec>& cs, const Action::Context& ctx) {
    for (auto& c : cs) if (c.rhsConst && !fmtDefined(c.rhsVal)) return "none";
    try {
        std::vector<RestartIO::RstAction::Condition> conds;
        try { for (auto& c : cs) conds.push_back(rstCondition(c)); } catch (const std::out_of_range&) { return "none"; }
        RestartIO::RstAction ra("ACT", 10, 0, 0.0, 0, 0, conds);
        Action::ActionX ax(ra);
        try { return showResult(ax.eval(ctx)); } catch (const std::exception&) { return "err"; }
    } catch (const std::exception&) { return "noparse"; }
}

static std::string rstEvalProto(const std::vector<RstSpec>& cs) {
    auto wg = [](const std::string& q, const std::string& w) { return (q[0] == 'W' || q[0] == 'G') ? (w.empty() ? std::string("e") : vh::hex(w)) : std::string("-"); };
    std::string o;
    for (auto& c : cs) {
        int code = 0; try { code = static_cast<int>(Action::Parser::get_func(c.lhs)); } catch (...) {}
        o += " C;" + vh::hex(c.lhs) + ";" + std::to_string(code) + ";" + wg(c.lhs, c.lhsWg) + ";" + std::to_string(c.cmp) + ";" +
             (c.rhsConst ? "V:" + vh::hexF64(c.rhsVal) : "N:" + vh::hex(c.rhsQ) + ":" + wg(c.rhsQ, c.rhsWg)) + ";" +
             (c.lp ? "1" : "0") + ";" + (c.rp ? "1" : "0") + ";" + std::to_string(c.logic);
    }
    return o;
}

// a condition list over the quantities of the world: 1..4 comparisons joined by AND / OR, at most one parenthesised group
// (all the per-comparison storage can express); `exact` = only constants that survive format_double
static std::vector<RstSpec> genRstList(vh::Rng& rng, bool exact) {
    std::vector<RstSpec> cs;
    const int n = rng.range(1, 4);
    for (int i = 0; i < n; ++i) {
        RstSpec s;
        s.lhs = rng.pick(Strs{ "FOPR", "FWCT", "FUX", "WOPR", "WWCT", "WUX", "GOPR", "GUX" });
        if (s.lhs[0] == 'W') s.lhsWg = rng.pick(Strs{ "P1", "P2", "P3", "'P1'", "P*", "*", "OP_1", "?P*", "*L1", "'*L2'", "\\*", "P[12]", "I1" });
        if (s.lhs[0] == 'G') s.lhsWg = rng.pick(Strs{ "G1", "G2", "'G1'" });
        s.cmp = rng.range(1, 6);
        if (rng.coin(3, 4)) {
            s.rhsConst = true;
            switch (rng.range(0, exact ? 2 : 4)) {
            case 0: s.rhsVal = rng.range(-1, 3); break;
            case 1: s.rhsVal = rng.range(0, 8) * 0.25; break;
            case 2: s.rhsVal = rng.range(-16, 16) * 0.125; break;
            case 3: s.rhsVal = rng.range(0, 2000) * 1e-3 + (rng.coin() ? 4e-7 : 0.0); break;
            default: s.rhsVal = restartConstant(rng); break;
            }
        } else {
            s.rhsQ = rng.pick(Strs{ "FOPR", "FWCT", "GOPR", "WOPR" });
            if (s.rhsQ[0] == 'W') s.rhsWg = rng.pick(Strs{ "P1", "P2", "'P1'" });
            if (s.rhsQ[0] == 'G') s.rhsWg = rng.pick(Strs{ "G1", "G2" });
        }
        if (rng.coin(1, 5)) {      // a date condition
            s.lhs = rng.pick(Strs{ "DAY", "MNTH", "YEAR" }); s.lhsWg.clear(); s.rhsConst = true; s.rhsQ.clear(); s.rhsWg.clear();
            s.rhsVal = s.lhs == "MNTH" ? rng.range(exact ? 1 : 0, exact ? 12 : 13) : s.lhs == "DAY" ? rng.range(1, 28) : rng.range(2019, 2025);
        }
        s.logic = (i + 1 < n) ? rng.range(1, 2) : 0;
        cs.push_back(s);
    }
    if (n >= 2 && rng.coin(1, 2)) { int a = rng.range(0, n - 2), b = rng.range(a + 1, n - 1); cs[a].lp = true; cs[b].rp = true; }
    if (!exact && rng.coin(1, 12)) { RstSpec& x = cs[rng.below(cs.size())]; switch (rng.range(0, 3)) { case 0: x.lp = !x.lp; break; case 1: x.rp = !x.rp; break; case 2: x.logic = rng.range(0, 2); break; default: if (x.lhs[0] == 'W') x.lhsWg = "'P1"; break; } }
    for (auto& c : cs) if (c.lp && c.rp) c.rp = false;      // IACN has ONE parenthesis slot per condition (Open | Close | None)
    return cs;
}

int main(int argc, char** argv) {
    if (argc < 5) { std::cerr << "usage: action corr|prop <seed> <tier> <outdir>\n"; return 2; }
    const std::string mode = argv[1];
    const uint64_t seed = std::strtoull(argv[2], nullptr, 10);
    const bool thorough = std::string(argv[3]) == "thorough";
    const std::string outdir = argv[4];
    fs::create_directories(outdir);
    vh::Rng rng(seed * 1000003ULL + 104729ULL);

    std::vector<RunCfg> cfgs;
    for (size_t mr : { 0u, 1u, 2u, 3u }) for (double mw : { 0.0, 1.0, 10.0 }) for (std::time_t st : { std::time_t(0), std::time_t(5) }) cfgs.push_back({ mr, mw, st });
    auto sequences = [&](int maxLen, auto&& f) {
        for (auto& c : cfgs) for (int L = 1; L <= maxLen; ++L) for (unsigned mask = 0; mask < (1u << L); ++mask) {
            std::vector<std::pair<std::time_t, bool>> evs;
            std::time_t t = rng.range(0, 6);
            for (int i = 0; i < L; ++i) { evs.push_back({ t, (mask >> i) & 1u }); t += rng.pick(std::vector<int>{ 0, 1, 1, 3, 9, 10, 11 }); }
            f(c, evs);
        }
    };

    if (mode == "corr") {
        vh::Sink sink(outdir);
        int nworlds = thorough ? 200 : 80, per = thorough ? 60 : 40;
        Strs alphabet = { "(", ")", "AND", "OR", ">", "<=", "1", "FOPR", "WOPR", "P*", "=", "and" };
        for (int wi = 0; wi < nworlds; ++wi) {
            Env env(rng);
            for (int k = 0; k < per; ++k) {
                Gen g(rng, env.w);
                GNode root = g.node(3, 8);
                Strs toks; g.render(root, toks);
                bool mutate = rng.coin(1, 5);
                if (mutate && !toks.empty()) {
                    size_t p = rng.below(toks.size());
                    switch (rng.below(3)) {
                    case 0: toks.erase(toks.begin() + static_cast<long>(p)); break;
                    case 1: toks.insert(toks.begin() + static_cast<long>(p), rng.pick(alphabet)); break;
                    default: toks[p] = rng.pick(alphabet); break;
                    }
                }
                std::string tp; for (auto& t : toks) tp += " " + tokProto(t);
                std::string pans, eans;
                try {
                    Action::AST ast(toks);
                    AstReader ar; ast.serializeOp(ar);
                    NodeInfo top = readNode(*ar.root);
                    pans = (top.type == Action::TokenType::end) ? "empty" : "tree " + showNode(*ar.root);
                    try { eans = showResult(ast.eval(*env.ctx)); } catch (const std::exception&) { eans = "err"; }
                } catch (const std::exception&) { pans = "err"; eans = "noparse"; }
                sink.emit("action.parse" + tp, pans);
                sink.count(mutate ? "parse.mutated" : "parse.grammar");
                sink.count(pans == "err" ? "parse.answer.err" : "parse.answer.tree");
                sink.emit("action.eval " + ctxProto(env.w) + " |" + tp, eans);
                sink.count("eval"); sink.count("eval.answer." + eans.substr(0, eans.find(' ')));
                if (eans.size() > 5 && eans.substr(0, 4) == "ok 1" && eans.substr(5) != "-") sink.count("eval.true_with_wells");
                if (!mutate && k % 4 == 0) {
                    // the same condition through the deck: ACTIONX keyword -> parseActionX (dequote) -> eval
                    std::string dp; for (auto& t : toks) { std::string u = stripQ(t); int code = 0; try { code = static_cast<int>(Action::Parser::get_func(u)); } catch (...) {} dp += " T:" + vh::hex(t) + ":" + vh::hexF64(std::strtod(u.c_str(), nullptr)) + ":" + std::to_string(code); }
                    std::string dans = deckEval(toks, *env.ctx);
                    sink.emit("action.deckeval " + ctxProto(env.w) + " |" + dp, dans);
                    sink.count("deckeval"); sink.count("deckeval.answer." + dans.substr(0, dans.find(' ')));
                }
            }
        }
        // ready / add_run: every outcome sequence up to length 8 (quick: 6) for each limit configuration
        sequences(thorough ? 8 : 6, [&](const RunCfg& c, const std::vector<std::pair<std::time_t, bool>>& evs) {
            size_t count = 0;
            auto runs = realDrive(c, evs, count);
            std::string op = "action.run " + std::to_string(c.maxRun) + " " + std::to_string(static_cast<long>(c.minWait)) + " " + std::to_string(static_cast<long>(c.start));
            for (auto& e : evs) op += " " + std::to_string(static_cast<long>(e.first)) + ":" + (e.second ? "1" : "0");
            std::string ans;
            for (size_t i = 0; i < runs.size(); ++i) ans += (i ? "," : "") + std::to_string(static_cast<long>(runs[i]));
            if (runs.empty()) ans = "-";
            sink.emit(op, ans + " " + std::to_string(count));
            sink.count("run");
        });
        // Parser::get_type on token strings built to hit the strtod corner cases
        for (int i = 0; i < (thorough ? 20000 : 4000); ++i) {
            std::string t = randomToken(rng);
            std::string ans = typeName(Action::Parser::get_type(t));
            sink.emit("action.classify " + vh::hex(t), ans);
            sink.count("classify"); sink.count(std::string("classify.") + (ans.substr(0, 3) == "cmp" ? "cmp" : ans));
        }
        // the value of number tokens (parse_right -> strtod) and their class
        for (int i = 0; i < (thorough ? 30000 : 6000); ++i) {
            std::string t = (i % 3 == 0) ? randomToken(rng) : randomLiteral(rng);
            std::string ans = realNumval(t);
            sink.emit("action.numval " + vh::hex(t), ans);
            sink.count("numval"); sink.count("numval." + ans.substr(0, ans.find(' ')));
            if (ans.size() > 7 && ans.substr(0, 7) == "number ") {
                const std::string b = ans.substr(7);
                sink.count(b == "-" ? "numval.value.unmodelled" : (b.substr(1, 3) == "ff0" || b.substr(1, 3) == "ff8") ? "numval.value.infnan" :
                           (b.substr(1) == "000000000000000") ? "numval.value.zero" : (b.substr(1, 3) == "000") ? "numval.value.subnormal" : "numval.value.normal");
                if (t.find_first_of("xX") != std::string::npos) sink.count("numval.hex");
            }
        }
        // fnmatch (shmatch) incl. bracket expressions
        for (int i = 0; i < (thorough ? 40000 : 8000); ++i) {
            static const Strs pa0 = { "P", "O", "1", "_", "*", "?", "\\", "*", "P" }, na = { "P", "O", "1", "_", "*", "?", "P", "1", "[", "]", "-", "!", "A", "B", "\\", "^" };
            static const Strs pa1 = { "P", "O", "1", "_", "*", "?", "\\", "*", "P", "[", "[", "]", "]", "-", "-", "!", "^", "A", "B", "[!", "[P-", "[A-P]", "[]", "[1O]", "[!P]", "[^_]", "\\]", "[\\" };
            const Strs& pa = (i % 4 == 0) ? pa0 : pa1;
            std::string pt, nm; int lp = rng.range(0, (i % 4 == 0) ? 5 : 7), ln = rng.range(0, 5);
            for (int k = 0; k < lp; ++k) pt += rng.pick(pa);
            for (int k = 0; k < ln; ++k) nm += rng.pick(na);
            if (i % 4 == 1 || i % 4 == 2) {
                // pattern derived from the name: each name character becomes itself, `?`, a bracket expression that
                // contains it (member, range, escaped, `]` first) or a negated one that does not; now and then a `*`
                pt.clear(); if (nm.empty()) nm = "P1";
                for (char ch : nm) {
                    const std::string c(1, ch);
                    const std::string esc = (ch == ']' || ch == '\\' || ch == '-' || ch == '!' || ch == '^' || ch == '[') ? "\\" + c : c;
                    switch (rng.range(0, 9)) {
                    case 0: pt += (ch == '*' || ch == '?' || ch == '[' || ch == '\\') ? "\\" + c : c; break;
                    case 1: pt += "?"; break;
                    case 2: pt += "[" + std::string(ch == ']' ? "]" : "") + rng.pick(Strs{ "", "A", "1O", "_" }) + (ch == ']' ? "" : esc) + rng.pick(Strs{ "", "B", "P" }) + "]"; break;
                    case 3: pt += "[" + rng.pick(Strs{ "!", "^" }) + rng.pick(Strs{ "Q", "Z", "QZ", "R-Z", "2-9" }) + "]"; break;
                    case 4: pt += "[" + std::string(1, static_cast<char>(ch - rng.range(0, 2))) + "-" + std::string(1, static_cast<char>(ch + rng.range(0, 2))) + "]"; break;
                    case 5: pt += "[" + rng.pick(Strs{ "!", "^", "" }) + esc + rng.pick(Strs{ "", "-", "Q" }) + "]"; break;
                    case 6: pt += "*"; if (rng.range(0, 1)) pt += esc == c ? c : "?"; break;
                    case 7: pt += "[" + rng.pick(Strs{ "A-", "0-", "!0-" }) + esc + rng.pick(Strs{ "", "]", "Q" }) ; if (rng.range(0, 3)) pt += "]"; break;
                    default: pt += (ch == '*' || ch == '?' || ch == '[' || ch == '\\') ? "\\" + c : c; break;
                    }
                }
                if (rng.range(0, 7) == 0) pt += rng.pick(Strs{ "*", "[", "[!", "\\", "[a-", "]" });
            }
            if (pt.find('[') != std::string::npos) sink.count("glob.bracket");
            if (pt.find('[') != std::string::npos && shmatch(pt, nm)) sink.count("glob.bracket.match");
            bool m = shmatch(pt, nm);
            sink.emit("action.glob " + vh::hex(pt) + " " + vh::hex(nm), m ? "1" : "0");
            sink.count("glob"); sink.count(m ? "glob.match" : "glob.nomatch");
        }
        // fifth round: format_double, its re-reading by the parser, and the restart token list
        for (int i = 0; i < (thorough ? 24000 : 6000); ++i) {
            const double x = restartConstant(rng);
            const std::string a = realFmtDouble(x);
            sink.emit("action.fmtdouble " + vh::hexF64(x), a);
            sink.emit("action.fmtrt " + vh::hexF64(x), realFmtRt(x));
            sink.count("fmtdouble");
            double ip;
            sink.count(a == "none" ? "fmtdouble.undefined" : std::modf(x, &ip) == 0.0 ? "fmtdouble.integer" : "fmtdouble.fixed");
        }
        for (int i = 0; i < (thorough ? 12000 : 3000); ++i) {
            const RstSpec sp = genRst(rng);
            const std::string a = realRstTokens(sp);
            sink.emit(rstProto(sp), a);
            sink.count("rsttok"); sink.count(a == "none" ? "rsttok.undefined" : sp.rhsConst ? "rsttok.constant" : "rsttok.quantity");
        }
        // a whole condition through the restart reader: ActionX(RstAction) = tokens() + dequote + Parser, then eval
        for (int wi = 0; wi < (thorough ? 150 : 50); ++wi) {
            Env env(rng);
            for (int k = 0; k < 40; ++k) {
                const auto cs = genRstList(rng, false);
                const std::string a = realRstEval(cs, *env.ctx);
                sink.emit("action.rsteval " + ctxProto(env.w) + " |" + rstEvalProto(cs), a);
                sink.count("rsteval"); sink.count("rsteval.answer." + a.substr(0, a.find(' ')));
                if (a.size() > 5 && a.substr(0, 4) == "ok 1" && a.substr(5) != "-") sink.count("rsteval.true_with_wells");
            }
        }
        // several actions, redefinitions, report steps
        for (int i = 0; i < (thorough ? 6000 : 1500); ++i) {
            auto evs = genSim(rng, rng.range(2, thorough ? 24 : 14));
            sink.emit(simProto(evs), realSim(evs));
            sink.count("sim");
        }
        sink.writeStats(outdir + "/stats.json");
        return 0;
    }

    if (mode == "prop") {
        vh::PropLog log(outdir + "/prop.txt");
        std::map<std::string, long> stats;
        int nworlds = thorough ? 400 : 120, per = thorough ? 80 : 50;
        for (int wi = 0; wi < nworlds; ++wi) {
            Env env(rng);
            for (int k = 0; k < per; ++k) {
                Gen g(rng, env.w);
                GNode root = g.node(3, 8);
                Strs toks; g.render(root, toks);
                RefRes ref = refEval(root, env.w);
                if (ref.bad) { ++stats["ref_out_of_domain"]; continue; }
                std::set<std::string> want = ref.wells ? *ref.wells : std::set<std::string>{};
                if (!ref.ok) want.clear();
                auto judge = [&](const std::string& path, const Strs& tk, const Action::Result& res) {
                    std::set<std::string> got;
                    for (const auto& x : res.matches().wells()) got.insert(x);
                    if (res.conditionSatisfied() != ref.ok) log.fail("cond-truth", path + " cond=" + joinStrs(tk) + " impl=" + std::to_string(res.conditionSatisfied()) + " ref=" + std::to_string(ref.ok));
                    else if (got != want) log.fail("cond-wells", path + " cond=" + joinStrs(tk) + " impl=" + listHex(Strs(got.begin(), got.end())) + " ref=" + listHex(Strs(want.begin(), want.end())));
                    else { log.ok(); ++stats[path + (ref.ok ? ".true" : ".false")]; if (!want.empty()) ++stats[path + ".with_wells"]; }
                    // the reported range is sorted and duplicate free; hasWell agrees with it
                    Strs seq; for (const auto& x : res.matches().wells()) seq.push_back(x);
                    if (!std::is_sorted(seq.begin(), seq.end()) || std::adjacent_find(seq.begin(), seq.end()) != seq.end()) log.fail("wells-sorted", path + " cond=" + joinStrs(tk));
                    for (auto& wn : env.w.wells) if (res.matches().hasWell(wn) != (got.count(wn) > 0)) log.fail("has-well", path + " cond=" + joinStrs(tk) + " well=" + wn);
                };
                // (a) the token list as ActionX hands it to the AST (a quoted right-hand side name dequoted)
                {
                    Gen g2(rng, env.w); g2.dequoteRhsHead = true;
                    Strs tk; g2.render(root, tk);
                    try { Action::AST ast(tk); judge("ast", tk, ast.eval(*env.ctx)); }
                    catch (const std::exception& e) { log.fail("cond-exception", "ast cond=" + joinStrs(tk) + " what=" + std::string(e.what()).substr(0, 60)); }
                }
                // (b) the real entry point: ACTIONX keyword of a deck -> parseActionX -> ActionX::eval
                if (k % 3 == 0) {
                    Action::Result res{ false };
                    std::string a = deckEval(toks, *env.ctx, &res);
                    if (a == "noparse" || a == "err") log.fail("cond-exception", "deck " + a + " cond=" + joinStrs(toks));
                    else judge("deck", toks, res);
                }
            }
        }
        // month comparisons: a numeric right-hand side counts as its NEAREST integer (halves away from zero)
        for (int m = 1; m <= 12; ++m) {
            SummaryState st(TimeService::now(), 0.0); WListManager wl; Action::Context cx(st, wl);
            cx.add("MNTH", static_cast<double>(m));
            for (double fr : { -0.5, -0.49, -0.3, 0.0, 0.3, 0.49, 0.5 }) {
                char buf[32]; std::snprintf(buf, sizeof buf, "%.2f", m + fr);
                const double nearest = std::floor(m + fr + 0.5);
                for (const char* op : { "=", ">=", "<", "!=" }) {
                    bool want = holds(static_cast<double>(m), op, nearest);
                    bool got = Action::AST(Strs{ "MNTH", op, buf }).eval(cx).conditionSatisfied();
                    if (got != want) log.fail("month-nearest", std::string("MNTH=") + std::to_string(m) + " cond=MNTH " + op + " " + buf);
                    else { log.ok(); ++stats["month_nearest"]; }
                }
            }
        }
        // Parser::get_type: every operator spelling in every letter case, against the harness's own table
        {
            static const std::vector<std::pair<std::string, std::string>> table = {
                { "and", "and" }, { "or", "or" }, { "(", "lp" }, { ")", "rp" }, { ">", "cmp4" }, { ".gt.", "cmp4" }, { ">=", "cmp5" }, { ".ge.", "cmp5" },
                { "<", "cmp6" }, { ".lt.", "cmp6" }, { "<=", "cmp7" }, { ".le.", "cmp7" }, { "=", "cmp8" }, { ".eq.", "cmp8" }, { "!=", "cmp9" }, { ".ne.", "cmp9" } };
            for (auto& [sp, want] : table) for (unsigned mask = 0; mask < (1u << sp.size()); ++mask) {
                std::string t = sp; for (size_t i = 0; i < t.size(); ++i) if ((mask >> i) & 1u) t[i] = static_cast<char>(std::toupper(static_cast<unsigned char>(t[i])));
                if (typeName(Action::Parser::get_type(t)) != want) log.fail("token-class", t); else { log.ok(); ++stats["token_class"]; }
            }
            for (const char* t : { "WOPR", "P1", "JAN", "OP_1", "G1", "MNTH", "*", "P*", "'P*'", "\\*", "A1.5", "1.5A", "E5", "ANDY", "ORE", "1E", ".", "-", "+" })
                if (std::string(typeName(Action::Parser::get_type(t))) != "expr") log.fail("token-class", t); else { log.ok(); ++stats["token_class"]; }
            for (const char* t : { "1", "1.5", "-1", "+2", ".5", "1.", "1e5", "1E-3", "2.5E+2", "007" })
                if (std::string(typeName(Action::Parser::get_type(t))) != "number") log.fail("token-class", t); else { log.ok(); ++stats["token_class"]; }
        }
        // number tokens denote their value: a double printed with 17 significant digits (or an integer, or a
        // multiple of 1/8 in plain notation) is a number token whose stored value is that double, bit for bit
        for (int rep = 0; rep < (thorough ? 20000 : 4000); ++rep) {
            double x; char buf[64];
            switch (rng.range(0, 3)) {
            case 0: { uint64_t b = (static_cast<uint64_t>(rng.range(0, 0x7fffffff)) << 33) ^ (static_cast<uint64_t>(rng.range(0, 0x7fffffff)) << 11) ^ static_cast<uint64_t>(rng.range(0, 0x7ff));
                      std::memcpy(&x, &b, 8); if (!std::isfinite(x)) x = 1.0; std::snprintf(buf, sizeof buf, rng.coin(1, 2) ? "%.17g" : "%.16e", x); break; }
            case 1: x = static_cast<double>(rng.range(-1000000, 1000000)); std::snprintf(buf, sizeof buf, "%.0f", x); break;
            case 2: x = rng.range(-80000, 80000) * 0.125; std::snprintf(buf, sizeof buf, "%.3f", x); break;
            default: x = std::ldexp(static_cast<double>(rng.range(1, 0x7fffffff)), rng.range(-1100, 990)); std::snprintf(buf, sizeof buf, rng.coin(1, 2) ? "%.17G" : "%.20e", x); break;
            }
            const std::string ans = realNumval(buf);
            if (ans != "number " + vh::hexF64(x)) log.fail("number-value", std::string(buf) + " -> " + ans + " want " + vh::hexF64(x));
            else { log.ok(); ++stats["number_value"]; }
        }
        // several actions over report steps, with redefinitions: every (name, id) respects its own limits and nothing is withheld
        for (int rep = 0; rep < (thorough ? 8000 : 2000); ++rep) {
            auto evs = genSim(rng, rng.range(2, thorough ? 24 : 14));
            std::vector<SimRun> runs;
            realSim(evs, &runs);
            bool okk = true; std::string why;
            std::map<std::pair<std::string, size_t>, std::vector<SimRun>> by;
            for (auto& r : runs) by[{ r.name, r.id }].push_back(r);
            for (auto& [key, rs] : by) {
                if (rs.size() > rs[0].maxRun) { okk = false; why = "more than max_run"; }
                for (size_t i = 0; i < rs.size(); ++i) {
                    if (rs[i].t < rs[i].start) { okk = false; why = "before start"; }
                    if (i && rs[i].minWait > 0 && rs[i].t - rs[i - 1].t < rs[i].minWait) { okk = false; why = "sooner than min_wait"; }
                }
            }
            // reference replay of the documented rule: definitions in order, a redefinition is a new action
            struct RefAct { std::string name; size_t maxRun; long minWait, start; size_t count = 0; long last = 0; };
            std::vector<RefAct> acts; std::vector<std::pair<std::string, long>> want, got;
            for (auto& e : evs) {
                if (e.kind == 'D') {
                    RefAct a{ e.name, e.maxRun, e.minWait, e.start };
                    auto it = std::find_if(acts.begin(), acts.end(), [&](const RefAct& x) { return x.name == e.name; });
                    if (it == acts.end()) acts.push_back(a); else *it = a;
                    continue;
                }
                for (auto& a : acts) {
                    bool allowed = a.count < a.maxRun && e.t >= a.start && (a.count == 0 || a.minWait <= 0 || e.t - a.last >= a.minWait);
                    if (allowed && std::find(e.trueNames.begin(), e.trueNames.end(), a.name) != e.trueNames.end()) { ++a.count; a.last = e.t; want.push_back({ a.name, e.t }); }
                }
            }
            for (auto& r : runs) got.push_back({ r.name, r.t });
            if (want != got) { okk = false; why = "runs differ from the documented rule"; }
            if (okk) { log.ok(); ++stats["sim_histories"]; }
            else log.fail("sim-run-limits", why + ": " + simProto(evs));
        }
        // precedence: a OR b AND c == a OR (b AND c);  (a OR b) AND c differs structurally
        {
            Env env(rng);
            auto ev = [&](const Strs& t) { Action::AST a(t); return a.eval(*env.ctx).conditionSatisfied(); };
            for (int rep = 0; rep < (thorough ? 400 : 100); ++rep) {
                auto c = [&]() { return Strs{ "FOPR", rng.pick(Strs{ ">", "<", "=" }), rng.pick(Strs{ "0.5", "1", "1.5" }) }; };
                Strs a = c(), b = c(), d = c();
                auto cat = [](std::initializer_list<Strs> l) { Strs o; for (auto& x : l) o.insert(o.end(), x.begin(), x.end()); return o; };
                bool flat = ev(cat({ a, { "OR" }, b, { "AND" }, d }));
                bool want = ev(a) || (ev(b) && ev(d));
                bool flat2 = ev(cat({ a, { "AND" }, b, { "OR" }, d }));
                bool want2 = (ev(a) && ev(b)) || ev(d);
                bool par = ev(cat({ { "(" }, a, { "OR" }, b, { ")" }, { "AND" }, d }));
                bool want3 = (ev(a) || ev(b)) && ev(d);
                if (flat != want || flat2 != want2 || par != want3) log.fail("and-or-precedence", joinStrs(cat({ a, b, d })));
                else { log.ok(); ++stats["precedence"]; }
            }
        }
        // fifth round — the number grammar itself: get_type calls a token a number exactly when it is in the grammar
        // (the empty token included; none of the operator spellings is)
        for (int rep = 0; rep < (thorough ? 60000 : 12000); ++rep) {
            std::string t = rep < 40 ? rng.pick(Strs{ "", "+", "-", ".", "e5", "1e", "1e+", "0x", "0x.", "0x.p1", "0x1p", "1.e1", ".e1", "nan()", "nan(", "NAN(A_1)", "nan(a-1)", "infinit", "infinityx", "+inf", "- 1", " 1", "1 ", "\t-.5E-07", "0X1.8P+2", "1d5", "1.5.2", "--1", "and", ".gt.", "(", "0xg", "0x1e5", "0x1.p", ".", "+.", "1e5.0" })
                                     : (rep % 3 == 0 ? randomToken(rng) : randomLiteral(rng));
            const bool isNum = std::string(typeName(Action::Parser::get_type(t))) == "number";
            if (isNum != ownNumberGrammar(t)) log.fail("number-grammar", "token=" + vh::hex(t) + " '" + t + "' get_type=" + typeName(Action::Parser::get_type(t)));
            else { log.ok(); ++stats[isNum ? "number_grammar.in" : "number_grammar.out"]; }
        }
        // fifth round — restart: a condition is stored per comparison (names as text, a constant right-hand side as
        // the double std::stod gives, AggregateActionxData.cpp) and printed again by RstAction::Condition::tokens()
        // (format_double).  (1) an integer-valued constant inside the int range comes back bit for bit, every other
        // finite constant within half a unit of the sixth decimal; (2) the re-read comparison evaluates like the original
        for (int rep = 0; rep < (thorough ? 40000 : 8000); ++rep) {
            const double x = restartConstant(rng);
            if (!fmtDefined(x)) { ++stats["restart_constant_undefined"]; continue; }
            const std::string txt = format_double(x);
            const std::string back = realNumval(txt);
            double ip; const bool integral = std::modf(x, &ip) == 0.0;
            if (back.substr(0, 7) != "number ") { log.fail("restart-constant", vh::hexF64(x) + " -> " + txt + " -> " + back); continue; }
            const double y = vh::f64FromBits(std::strtoull(back.substr(7).c_str(), nullptr, 16));
            const bool good = integral ? (y == x && std::signbit(y) == (std::signbit(x) && x != 0.0)) : std::fabs(y - x) <= 0.5e-6 + std::fabs(x) * 2.3e-16;     // half a unit of the sixth decimal + the rounding of the re-read decimal
            if (!good) log.fail("restart-constant", vh::hexF64(x) + " -> " + txt + " -> " + back);
            else { log.ok(); ++stats[integral ? "restart_constant_integer" : "restart_constant_fixed"]; }
        }
        for (int wi = 0; wi < (thorough ? 200 : 60); ++wi) {
            Env env(rng);
            for (int k = 0; k < 40; ++k) {
                Strs tk;
                const std::string f = rng.pick(Strs{ "FOPR", "FWCT", "WOPR", "WWCT", "GOPR", "WUX", "FUX" });
                tk.push_back(f);
                if (f[0] == 'W') tk.push_back(rng.pick(Strs{ "P1", "P2", "'P1'", "P*", "*", "OP_1", "?P*", "*L1" }));
                if (f[0] == 'G') tk.push_back(rng.pick(Strs{ "G1", "G2", "'G1'" }));
                tk.push_back(rng.pick(kOps));
                const int n = rng.range(-1, 3);
                const double q = rng.range(0, 8) * 0.25;
                char buf[64];
                switch (rng.range(0, 7)) {
                case 0: std::snprintf(buf, sizeof buf, "%d", n); break;
                case 1: std::snprintf(buf, sizeof buf, "%d.0", n); break;
                case 2: std::snprintf(buf, sizeof buf, "%dE0", n); break;
                case 3: std::snprintf(buf, sizeof buf, "%d0e-1", n); break;
                case 4: std::snprintf(buf, sizeof buf, "+%d.", std::abs(n)); break;
                case 5: std::snprintf(buf, sizeof buf, "%.2f", q); break;
                case 6: std::snprintf(buf, sizeof buf, "%g", q); break;
                default: { if (rng.coin()) { tk.push_back("FOPR"); } else { tk.push_back("GOPR"); tk.push_back("G2"); } buf[0] = 0; break; }
                }
                if (buf[0]) tk.push_back(buf);
                auto outcome = [&](const Strs& t) -> std::string {
                    try { Action::AST ast(t); try { return showResult(ast.eval(*env.ctx)); } catch (const std::exception&) { return "err"; } }
                    catch (const std::exception&) { return "noparse"; }
                };
                try {
                    const std::string r0 = outcome(tk);
                    // what the writer keeps of the comparison
                    Action::Condition cond(tk, KeywordLocation{});
                    RstSpec sp;
                    sp.lhs = cond.lhs.quantity; if (!cond.lhs.args.empty()) sp.lhsWg = cond.lhs.args[0];
                    sp.cmp = cond.comparator_as_int();
                    namespace QT = RestartIO::Helpers::VectorItems::IACN::Value;
                    if (cond.rhs.int_type() == QT::Const) { sp.rhsConst = true; sp.rhsVal = std::stod(cond.rhs.quantity); }
                    else { sp.rhsQ = cond.rhs.quantity; if (!cond.rhs.args.empty()) sp.rhsWg = cond.rhs.args[0]; }
                    sp.lp = cond.open_paren(); sp.rp = cond.close_paren(); sp.logic = cond.logic_as_int();
                    const Strs back = rstCondition(sp).tokens();
                    const std::string r1 = outcome(back);
                    if (r0 != r1) log.fail("restart-eval", joinStrs(tk) + "  ->  " + joinStrs(back) + " before=" + r0 + " after=" + r1);
                    else { log.ok(); ++stats[sp.rhsConst ? "restart_eval_constant" : "restart_eval_quantity"]; if (r0 == "err") ++stats["restart_eval_err"]; }
                } catch (const std::exception& e) { log.fail("restart-exception", joinStrs(tk) + " : " + e.what()); }
            }
        }
        // the whole condition: the token list evaluated directly and the same condition stored per comparison and read
        // back through ActionX(RstAction) agree (constants restricted to those format_double keeps exactly)
        for (int wi = 0; wi < (thorough ? 200 : 60); ++wi) {
            Env env(rng);
            for (int k = 0; k < 40; ++k) {
                const auto cs0 = genRstList(rng, true);
                Strs all; std::vector<RstSpec> stored; bool okk = true; std::string why;
                try {
                    for (const auto& c : cs0) {
                        Strs tk;
                        if (c.lp) tk.push_back("(");
                        tk.push_back(c.lhs); if (c.lhs[0] == 'W' || c.lhs[0] == 'G') tk.push_back(c.lhsWg);
                        tk.push_back(Action::comparator_as_string(Action::comparator_from_int(c.cmp)));
                        if (c.rhsConst) { char buf[64]; std::snprintf(buf, sizeof buf, rng.coin() ? "%g" : "%.3f", c.rhsVal); tk.push_back(buf); }
                        else { tk.push_back(c.rhsQ); if (c.rhsQ[0] == 'W' || c.rhsQ[0] == 'G') tk.push_back(c.rhsWg); }
                        if (c.rp) tk.push_back(")");
                        if (c.logic == 1) tk.push_back("AND"); if (c.logic == 2) tk.push_back("OR");
                        // the writer's view of this line of the ACTIONX keyword
                        Action::Condition cond(tk, KeywordLocation{});
                        RstSpec sp;
                        sp.lhs = cond.lhs.quantity; if (!cond.lhs.args.empty()) sp.lhsWg = cond.lhs.args[0];
                        sp.cmp = cond.comparator_as_int();
                        namespace QT = RestartIO::Helpers::VectorItems::IACN::Value;
                        if (cond.rhs.int_type() == QT::Const) { sp.rhsConst = true; sp.rhsVal = std::stod(cond.rhs.quantity); }
                        else { sp.rhsQ = cond.rhs.quantity; if (!cond.rhs.args.empty()) sp.rhsWg = cond.rhs.args[0]; }
                        sp.lp = cond.open_paren(); sp.rp = cond.close_paren(); sp.logic = cond.logic_as_int();
                        stored.push_back(sp);
                        for (auto& t : tk) all.push_back(stripQ(t));          // ActionX dequotes deck tokens too
                    }
                } catch (const std::exception& e) { okk = false; why = e.what(); }
                if (!okk) { log.fail("restart-exception", joinStrs(all) + " : " + why); continue; }
                // (a parenthesis on a DAY / MNTH / YEAR comparison used to be dropped by the reader, design.d/C18.restart-date-paren.*:
                // repaired by c33735bed, such lists are judged like all others and counted)
                for (const auto& sp : stored) if ((sp.lhs == "DAY" || sp.lhs == "MNTH" || sp.lhs == "YEAR") && (sp.lp || sp.rp)) { ++stats["restart_eval_list.date_paren"]; break; }
                std::string r0;
                try { Action::AST ast(all); try { r0 = showResult(ast.eval(*env.ctx)); } catch (const std::exception&) { r0 = "err"; } } catch (const std::exception&) { r0 = "noparse"; }
                const std::string r1 = realRstEval(stored, *env.ctx);
                if (r0 != r1) log.fail("restart-eval-list", joinStrs(all) + " before=" + r0 + " after=" + r1);
                else { log.ok(); ++stats["restart_eval_list"]; ++stats["restart_eval_list." + r0.substr(0, 4)]; if (cs0.size() > 1) ++stats["restart_eval_list.multi"]; }
            }
        }
        // run limits on the real ready/add_run alone
        sequences(thorough ? 8 : 6, [&](const RunCfg& c, const std::vector<std::pair<std::time_t, bool>>& evs) {
            size_t count = 0;
            auto runs = realDrive(c, evs, count);
            bool okk = runs.size() <= c.maxRun && count == runs.size();
            for (size_t i = 0; i < runs.size(); ++i) {
                if (runs[i] < c.start) okk = false;
                if (i && c.minWait > 0 && std::difftime(runs[i], runs[i - 1]) < c.minWait) okk = false;
            }
            // nothing is withheld either: replay with a reference of the documented rule
            std::vector<std::time_t> want; std::optional<std::time_t> last;
            for (auto& [t, cond] : evs) {
                bool allowed = want.size() < c.maxRun && t >= c.start && (!last || c.minWait <= 0 || std::difftime(t, *last) >= c.minWait);
                if (allowed && cond) { want.push_back(t); last = t; }
            }
            if (want != runs) okk = false;
            if (okk) { log.ok(); ++stats["run_sequences"]; }
            else {
                std::string d = "max_run=" + std::to_string(c.maxRun) + " min_wait=" + std::to_string(c.minWait) + " start=" + std::to_string(static_cast<long>(c.start)) + " events=";
                for (auto& e : evs) d += std::to_string(static_cast<long>(e.first)) + ":" + (e.second ? "1" : "0") + ",";
                log.fail("run-limits", d);
            }
        });
        std::ofstream f(outdir + "/prop_stats.json");
        f << "{\n  \"checked\": " << log.checked << ",\n  \"failed\": " << log.failed;
        for (auto& kv : stats) f << ",\n  \"" << kv.first << "\": " << kv.second;
        f << "\n}\n";
        return 0;
    }
    return 2;
}
