// C18 harness: real ACTIONX condition parser / evaluator and the ready/add_run state machine.
//   action corr <seed> <tier> <outdir>     action prop <seed> <tier> <outdir>
#include "common/vh.hpp"

#include <opm/common/utility/TimeService.hpp>
#include <opm/common/utility/shmatch.hpp>
#include <opm/input/eclipse/Schedule/Action/ActionAST.hpp>
#include <opm/input/eclipse/Schedule/Action/ActionContext.hpp>
#include <opm/input/eclipse/Schedule/Action/ActionParser.hpp>
#include <opm/input/eclipse/Schedule/Action/ActionResult.hpp>
#include <opm/input/eclipse/Schedule/Action/ActionValue.hpp>
#include <opm/input/eclipse/Schedule/Action/ActionX.hpp>
#include <opm/input/eclipse/Schedule/Action/ASTNode.hpp>
#include <opm/input/eclipse/Schedule/Action/State.hpp>
#include <opm/input/eclipse/Schedule/SummaryState.hpp>
#include <opm/input/eclipse/Schedule/Well/WListManager.hpp>

#include <algorithm>
#include <cmath>
#include <filesystem>
#include <iostream>
#include <map>
#include <memory>
#include <optional>
#include <set>

using namespace Opm;
namespace fs = std::filesystem;
using Strs = std::vector<std::string>;

// ---------------------------------------------------------------------------------------------
// reading the tree through the public serializeOp

struct NodeInfo {
    Action::TokenType type{};
    Action::FuncType func_type{};
    std::string func;
    Strs args;
    double number = 0;
    std::vector<Action::ASTNode> children;
};
struct NodeReader {
    NodeInfo i;
    void operator()(Action::TokenType& v) { i.type = v; }
    void operator()(Action::FuncType& v) { i.func_type = v; }
    void operator()(std::string& v) { i.func = v; }
    void operator()(Strs& v) { i.args = v; }
    void operator()(double& v) { i.number = v; }
    void operator()(std::vector<Action::ASTNode>& v) { i.children = v; }
};
static NodeInfo readNode(const Action::ASTNode& n) { NodeReader r; const_cast<Action::ASTNode&>(n).serializeOp(r); return r.i; }
struct AstReader {
    std::shared_ptr<Action::ASTNode> root;
    void operator()(std::shared_ptr<Action::ASTNode>& p) { root = p; }
};

static std::string listHex(const Strs& v) {
    if (v.empty()) return "-";
    std::string o;
    for (size_t i = 0; i < v.size(); ++i) { if (i) o += ","; o += vh::hex(v[i]); }
    return o;
}

static std::string showNode(const Action::ASTNode& n) {
    NodeInfo i = readNode(n);
    using T = Action::TokenType;
    if (i.type == T::number) return "#" + vh::hexF64(i.number);
    if (i.type == T::ecl_expr) return "x" + std::to_string(static_cast<int>(i.func_type)) + ";" + vh::hex(i.func) + ";" + listHex(i.args);
    std::string o = "(";
    if (i.type == T::op_and) o += "and"; else if (i.type == T::op_or) o += "or"; else o += std::to_string(static_cast<int>(i.type));
    for (auto& c : i.children) o += " " + showNode(c);
    return o + ")";
}

static std::string tokProto(const std::string& s) {
    using T = Action::TokenType;
    auto t = Action::Parser::get_type(s);
    switch (t) {
    case T::number: return "N:" + vh::hex(s) + ":" + vh::hexF64(std::strtod(s.c_str(), nullptr));
    case T::ecl_expr: {
        int code = 0;
        try { code = static_cast<int>(Action::Parser::get_func(s)); } catch (...) { code = 0; }
        return "E:" + vh::hex(s) + ":" + std::to_string(code);
    }
    case T::open_paren: return "L";
    case T::close_paren: return "R";
    case T::op_and: return "A";
    case T::op_or: return "O";
    case T::op_gt: return "C:gt";
    case T::op_ge: return "C:ge";
    case T::op_lt: return "C:lt";
    case T::op_le: return "C:le";
    case T::op_eq: return "C:eq";
    case T::op_ne: return "C:ne";
    default: return "?";
    }
}

// ---------------------------------------------------------------------------------------------

struct World {
    Strs wells;
    std::map<std::string, double> keys;    // everything Context::get knows: FOPR, WOPR:P1, GOPR:G1, MNTH, JAN ...
    std::map<std::string, Strs> wellsOf;   // func -> wells carrying it
};

static double gridVal(vh::Rng& rng) { return rng.range(0, 8) * 0.25; }

struct Env {
    SummaryState st;
    WListManager wlm;
    std::unique_ptr<Action::Context> ctx;
    World w;
    explicit Env(vh::Rng& rng) : st(TimeService::now(), 0.0) {
        static const Strs wn = { "P1", "P2", "P3", "I1", "PA", "OP_1" };
        int nw = rng.range(1, 6);
        for (int i = 0; i < nw; ++i) w.wells.push_back(wn[i]);
        for (size_t i = w.wells.size(); i > 1; --i) std::swap(w.wells[i - 1], w.wells[rng.below(i)]);
        for (const char* f : { "FOPR", "FWCT" }) { double v = gridVal(rng); st.update(f, v); w.keys[f] = v; }
        for (const char* f : { "WOPR", "WWCT" })
            for (auto& well : w.wells) {
                if (std::string(f) == "WWCT" && rng.coin(1, 4)) continue;      // some wells lack WWCT
                double v = gridVal(rng);
                st.update_well_var(well, f, v);
                w.keys[std::string(f) + ":" + well] = v;
            }
        for (const char* g : { "G1", "G2" }) { double v = gridVal(rng); st.update_group_var(g, "GOPR", v); w.keys[std::string("GOPR:") + g] = v; }
        ctx = std::make_unique<Action::Context>(st, wlm);
        for (const auto& [m, idx] : TimeService::eclipseMonthIndices()) w.keys[m] = idx;
        double mnth = rng.range(1, 12), day = rng.range(1, 28), year = rng.range(2020, 2024);
        ctx->add("MNTH", mnth); ctx->add("DAY", day); ctx->add("YEAR", year);
        w.keys["MNTH"] = mnth; w.keys["DAY"] = day; w.keys["YEAR"] = year;
        for (const char* f : { "WOPR", "WWCT" }) w.wellsOf[f] = st.wells(f);
    }
};

// generator's own tree (used by the reference evaluator of the property mode)
struct GNode {
    enum K { CMP, AND, OR } k = CMP;
    std::vector<GNode> ch;
    // comparison
    std::string func; Strs args; std::string op; Strs rhs;
    bool paren = false;
};

static const Strs kOps = { ">", "<", ">=", "<=", "=", "!=", ".GT.", ".lt.", ".GE.", ".Le.", ".EQ.", ".ne." };

struct Gen {
    vh::Rng& rng;
    const World& w;
    int ncmp = 0;
    std::set<std::pair<std::string, std::string>> patterns;
    Gen(vh::Rng& r, const World& wo) : rng(r), w(wo) {}

    GNode cmp() {
        GNode n; n.k = GNode::CMP; ++ncmp;
        switch (rng.below(9)) {
        case 0: n.func = rng.coin() ? "FOPR" : "FWCT"; break;
        case 1: n.func = "GOPR"; n.args = { rng.coin() ? "G1" : "G2" }; break;
        case 2: n.func = rng.coin() ? "WOPR" : "WWCT"; n.args = { rng.pick(w.wells) }; break;
        case 3: case 4: { n.func = rng.coin() ? "WOPR" : "WWCT"; std::string p = rng.pick(Strs{ "P*", "*", "'P*'", "I*", "X*", "*1", "\\*" }); n.args = { p }; break; }
        case 5: n.func = "MNTH"; break;
        case 6: n.func = rng.coin() ? "DAY" : "YEAR"; break;
        case 7: n.func = "WOPR"; n.args = { "*" }; break;
        default: n.func = "WWCT"; n.args = { "'" + rng.pick(w.wells) + "'" }; break;
        }
        n.op = rng.pick(kOps);
        if (n.func == "MNTH") n.rhs = { rng.coin() ? rng.pick(Strs{ "JUN", "JAN", "DEC", "OKT" }) : rng.pick(Strs{ "6", "6.3", "5.5", "11.5", "1" }) };
        else if (n.func == "YEAR") n.rhs = { rng.pick(Strs{ "2021", "2022.5", "2019" }) };
        else if (n.func == "DAY") n.rhs = { rng.pick(Strs{ "1", "14", "28" }) };
        else switch (rng.below(6)) {
            case 0: n.rhs = { "FOPR" }; break;
            case 1: n.rhs = { "WOPR", rng.pick(w.wells) }; break;
            case 2: if (rng.coin(1, 3)) n.rhs = { "WOPR", "P*" }; else n.rhs = { "FWCT" }; break;   // a list on the right: the code throws
            default: n.rhs = { rng.pick(Strs{ "0", "0.5", "1", "1.25", "2", "0.75", "1e0", "-1" }) }; break;
        }
        return n;
    }
    GNode node(int depth, int budget) {
        if (depth <= 0 || budget <= 1 || rng.coin(1, 3)) return cmp();
        GNode n; n.k = rng.coin() ? GNode::AND : GNode::OR;
        int nch = rng.range(2, 3);
        for (int i = 0; i < nch && ncmp < 8; ++i) { GNode c = node(depth - 1, budget / nch + 1); c.paren = (c.k != GNode::CMP) && ((n.k == GNode::AND && c.k == GNode::OR) || rng.coin(1, 2)); n.ch.push_back(c); }
        if (n.ch.size() == 1) return n.ch[0];
        return n;
    }
    void render(const GNode& n, Strs& out) {
        if (n.k == GNode::CMP) {
            out.push_back(n.func); for (auto& a : n.args) out.push_back(a);
            out.push_back(n.op); for (auto& a : n.rhs) out.push_back(a);
            if (n.args.size() == 1 && n.args[0].find('*') != std::string::npos) patterns.insert({ n.func, n.args[0] });
            if (n.rhs.size() == 2 && n.rhs[1].find('*') != std::string::npos) patterns.insert({ n.rhs[0], n.rhs[1] });
            return;
        }
        for (size_t i = 0; i < n.ch.size(); ++i) {
            if (i) out.push_back(n.k == GNode::AND ? (rng.coin() ? "AND" : "and") : (rng.coin() ? "OR" : "Or"));
            if (n.ch[i].paren) out.push_back("(");
            render(n.ch[i], out);
            if (n.ch[i].paren) out.push_back(")");
        }
    }
};

static std::string stripQ(const std::string& s) { return (!s.empty() && s.front() == '\'') ? s.substr(1, s.size() - 2) : s; }

static Strs matchWells(const World& w, const std::string& func, const std::string& quoted) {
    std::string p = stripQ(quoted);
    if (p.size() > 1 && p.front() == '*') return {};      // "*NAME" names a well list (WLIST); none is defined here
    if (!p.empty() && p.front() == '\\') p = p.substr(1);
    Strs out;
    auto it = w.wellsOf.find(func);
    if (it == w.wellsOf.end()) return out;
    for (auto& well : it->second) if (shmatch(p, well)) out.push_back(well);
    return out;
}

static std::string ctxProto(const World& w, const std::set<std::pair<std::string, std::string>>& pats) {
    std::string o = "WF=" + std::to_string(static_cast<int>(Action::FuncType::well)) + " MF=" + std::to_string(static_cast<int>(Action::FuncType::time_month));
    for (auto& kv : w.keys) o += " K:" + vh::hex(kv.first) + "=" + vh::hexF64(kv.second);
    for (auto& p : pats) o += " P:" + vh::hex(p.first) + ":" + vh::hex(stripQ(p.second)) + ":" + listHex(matchWells(w, p.first, p.second));
    return o;
}

static std::string showResult(const Action::Result& r) {
    Strs ws;
    for (const auto& x : r.matches().wells()) ws.push_back(x);
    return std::string("ok ") + (r.conditionSatisfied() ? "1 " : "0 ") + listHex(ws);
}

static std::string joinStrs(const Strs& v) { std::string s; for (size_t i = 0; i < v.size(); ++i) { if (i) s += " "; s += v[i]; } return s; }

// ---------------------------------------------------------------------------------------------
// reference evaluator (property mode): from the documented rule, on the generator's own tree

struct RefRes { bool ok = false; std::optional<std::set<std::string>> wells; bool bad = false; };

static bool holds(double a, const std::string& op0, double b) {
    std::string op; for (char c : op0) op += static_cast<char>(std::tolower(c));
    if (op == ">" || op == ".gt.") return a > b;
    if (op == ">=" || op == ".ge.") return a >= b;
    if (op == "<" || op == ".lt.") return a < b;
    if (op == "<=" || op == ".le.") return a <= b;
    if (op == "=" || op == ".eq.") return a == b;
    return a != b;
}

static RefRes refEval(const GNode& n, const World& w) {
    RefRes r;
    if (n.k == GNode::CMP) {
        double rhs = 0;
        if (n.rhs.size() == 1) {
            char* e = nullptr; double x = std::strtod(n.rhs[0].c_str(), &e);
            if (*e == 0) rhs = (n.func == "MNTH") ? std::round(x) : x;
            else { auto it = w.keys.find(n.rhs[0]); if (it == w.keys.end()) { r.bad = true; return r; } rhs = it->second; }
        } else {
            if (n.rhs[1].find('*') != std::string::npos) { r.bad = true; return r; }
            auto it = w.keys.find(n.rhs[0] + ":" + n.rhs[1]); if (it == w.keys.end()) { r.bad = true; return r; } rhs = it->second;
        }
        if (n.args.empty()) { auto it = w.keys.find(n.func); if (it == w.keys.end()) { r.bad = true; return r; } r.ok = holds(it->second, n.op, rhs); return r; }
        std::string a = stripQ(n.args[0]);
        bool wellLevel = n.func[0] == 'W';
        Strs ws = (a.find('*') != std::string::npos) ? matchWells(w, n.func, n.args[0]) : Strs{ a };
        if (!wellLevel) { auto it = w.keys.find(n.func + ":" + a); if (it == w.keys.end()) { r.bad = true; return r; } r.ok = holds(it->second, n.op, rhs); return r; }
        r.wells = std::set<std::string>{};
        for (auto& well : ws) { auto it = w.keys.find(n.func + ":" + well); if (it == w.keys.end()) { r.bad = true; return r; } if (holds(it->second, n.op, rhs)) r.wells->insert(well); }
        r.ok = !r.wells->empty();
        return r;
    }
    std::vector<RefRes> cs;
    for (auto& c : n.ch) { cs.push_back(refEval(c, w)); if (cs.back().bad) { r.bad = true; return r; } }
    if (n.k == GNode::AND) {
        r.ok = true; for (auto& c : cs) r.ok = r.ok && c.ok;
        if (!r.ok) return r;                                   // false: no wells
        for (auto& c : cs) if (c.wells) {
            if (!r.wells) r.wells = c.wells;
            else { std::set<std::string> i; for (auto& x : *r.wells) if (c.wells->count(x)) i.insert(x); r.wells = i; }
        }
    } else {
        for (auto& c : cs) r.ok = r.ok || c.ok;
        if (!r.ok) return r;
        for (auto& c : cs) if (c.ok && c.wells) { if (!r.wells) r.wells = std::set<std::string>{}; r.wells->insert(c.wells->begin(), c.wells->end()); }
    }
    return r;
}

// ---------------------------------------------------------------------------------------------

struct RunCfg { size_t maxRun; double minWait; std::time_t start; };

static std::vector<std::time_t> realDrive(const RunCfg& c, const std::vector<std::pair<std::time_t, bool>>& evs, size_t& count) {
    Action::ActionX action("A", c.maxRun, c.minWait, c.start);
    Action::State state;
    std::vector<std::time_t> runs;
    for (auto& [t, cond] : evs) {
        if (action.ready(state, t) && cond) { state.add_run(action, t, Action::Result{ true }); runs.push_back(t); }
    }
    count = state.run_count(action);
    return runs;
}

int main(int argc, char** argv) {
    if (argc < 5) { std::cerr << "usage: action corr|prop <seed> <tier> <outdir>\n"; return 2; }
    const std::string mode = argv[1];
    const uint64_t seed = std::strtoull(argv[2], nullptr, 10);
    const bool thorough = std::string(argv[3]) == "thorough";
    const std::string outdir = argv[4];
    fs::create_directories(outdir);
    vh::Rng rng(seed * 1000003ULL + 104729ULL);

    std::vector<RunCfg> cfgs;
    for (size_t mr : { 0u, 1u, 2u, 3u }) for (double mw : { 0.0, 1.0, 10.0 }) for (std::time_t st : { std::time_t(0), std::time_t(5) }) cfgs.push_back({ mr, mw, st });
    auto sequences = [&](int maxLen, auto&& f) {
        for (auto& c : cfgs) for (int L = 1; L <= maxLen; ++L) for (unsigned mask = 0; mask < (1u << L); ++mask) {
            std::vector<std::pair<std::time_t, bool>> evs;
            std::time_t t = rng.range(0, 6);
            for (int i = 0; i < L; ++i) { evs.push_back({ t, (mask >> i) & 1u }); t += rng.pick(std::vector<int>{ 0, 1, 1, 3, 9, 10, 11 }); }
            f(c, evs);
        }
    };

    if (mode == "corr") {
        vh::Sink sink(outdir);
        int nworlds = thorough ? 150 : 40, per = thorough ? 60 : 40;
        Strs alphabet = { "(", ")", "AND", "OR", ">", "<=", "1", "FOPR", "WOPR", "P*", "=", "and" };
        for (int wi = 0; wi < nworlds; ++wi) {
            Env env(rng);
            for (int k = 0; k < per; ++k) {
                Gen g(rng, env.w);
                GNode root = g.node(3, 8);
                Strs toks; g.render(root, toks);
                bool mutate = rng.coin(1, 5);
                if (mutate && !toks.empty()) {
                    size_t p = rng.below(toks.size());
                    switch (rng.below(3)) {
                    case 0: toks.erase(toks.begin() + static_cast<long>(p)); break;
                    case 1: toks.insert(toks.begin() + static_cast<long>(p), rng.pick(alphabet)); break;
                    default: toks[p] = rng.pick(alphabet); break;
                    }
                    for (size_t i = 0; i + 1 < toks.size(); ++i) if (toks[i + 1].find('*') != std::string::npos) g.patterns.insert({ toks[i], toks[i + 1] });
                }
                std::string tp; for (auto& t : toks) tp += " " + tokProto(t);
                std::string pans, eans;
                try {
                    Action::AST ast(toks);
                    AstReader ar; ast.serializeOp(ar);
                    NodeInfo top = readNode(*ar.root);
                    pans = (top.type == Action::TokenType::end) ? "empty" : "tree " + showNode(*ar.root);
                    try { eans = showResult(ast.eval(*env.ctx)); } catch (const std::exception&) { eans = "err"; }
                } catch (const std::exception&) { pans = "err"; eans = "noparse"; }
                sink.emit("action.parse" + tp, pans);
                sink.count(mutate ? "parse.mutated" : "parse.grammar");
                sink.count(pans == "err" ? "parse.answer.err" : "parse.answer.tree");
                sink.emit("action.eval " + ctxProto(env.w, g.patterns) + " |" + tp, eans);
                sink.count("eval"); sink.count("eval.answer." + eans.substr(0, eans.find(' ')));
                if (eans.size() > 5 && eans.substr(0, 4) == "ok 1" && eans.substr(5) != "-") sink.count("eval.true_with_wells");
            }
        }
        // ready / add_run: every outcome sequence up to length 8 (quick: 6) for each limit configuration
        sequences(thorough ? 8 : 6, [&](const RunCfg& c, const std::vector<std::pair<std::time_t, bool>>& evs) {
            size_t count = 0;
            auto runs = realDrive(c, evs, count);
            std::string op = "action.run " + std::to_string(c.maxRun) + " " + std::to_string(static_cast<long>(c.minWait)) + " " + std::to_string(static_cast<long>(c.start));
            for (auto& e : evs) op += " " + std::to_string(static_cast<long>(e.first)) + ":" + (e.second ? "1" : "0");
            std::string ans;
            for (size_t i = 0; i < runs.size(); ++i) ans += (i ? "," : "") + std::to_string(static_cast<long>(runs[i]));
            if (runs.empty()) ans = "-";
            sink.emit(op, ans + " " + std::to_string(count));
            sink.count("run");
        });
        sink.writeStats(outdir + "/stats.json");
        return 0;
    }

    if (mode == "prop") {
        vh::PropLog log(outdir + "/prop.txt");
        std::map<std::string, long> stats;
        int nworlds = thorough ? 300 : 60, per = thorough ? 80 : 50;
        for (int wi = 0; wi < nworlds; ++wi) {
            Env env(rng);
            for (int k = 0; k < per; ++k) {
                Gen g(rng, env.w);
                GNode root = g.node(3, 8);
                Strs toks; g.render(root, toks);
                RefRes ref = refEval(root, env.w);
                if (ref.bad) { ++stats["ref_out_of_domain"]; continue; }
                try {
                    Action::AST ast(toks);
                    auto res = ast.eval(*env.ctx);
                    std::set<std::string> got;
                    for (const auto& x : res.matches().wells()) got.insert(x);
                    std::set<std::string> want = ref.wells ? *ref.wells : std::set<std::string>{};
                    if (!ref.ok) want.clear();
                    if (res.conditionSatisfied() != ref.ok) log.fail("cond-truth", "cond=" + joinStrs(toks) + " impl=" + std::to_string(res.conditionSatisfied()) + " ref=" + std::to_string(ref.ok));
                    else if (got != want) log.fail("cond-wells", "cond=" + joinStrs(toks) + " impl=" + listHex(Strs(got.begin(), got.end())) + " ref=" + listHex(Strs(want.begin(), want.end())));
                    else { log.ok(); ++stats[ref.ok ? "cond.true" : "cond.false"]; if (!want.empty()) ++stats["cond.with_wells"]; }
                    // the reported range is sorted and duplicate free
                    Strs seq; for (const auto& x : res.matches().wells()) seq.push_back(x);
                    if (!std::is_sorted(seq.begin(), seq.end()) || std::adjacent_find(seq.begin(), seq.end()) != seq.end()) log.fail("wells-sorted", "cond=" + joinStrs(toks));
                } catch (const std::exception& e) {
                    log.fail("cond-exception", "cond=" + joinStrs(toks) + " what=" + std::string(e.what()).substr(0, 60));
                }
            }
        }
        // precedence: a OR b AND c == a OR (b AND c);  (a OR b) AND c differs structurally
        {
            Env env(rng);
            auto ev = [&](const Strs& t) { Action::AST a(t); return a.eval(*env.ctx).conditionSatisfied(); };
            for (int rep = 0; rep < (thorough ? 400 : 100); ++rep) {
                auto c = [&]() { return Strs{ "FOPR", rng.pick(Strs{ ">", "<", "=" }), rng.pick(Strs{ "0.5", "1", "1.5" }) }; };
                Strs a = c(), b = c(), d = c();
                auto cat = [](std::initializer_list<Strs> l) { Strs o; for (auto& x : l) o.insert(o.end(), x.begin(), x.end()); return o; };
                bool flat = ev(cat({ a, { "OR" }, b, { "AND" }, d }));
                bool want = ev(a) || (ev(b) && ev(d));
                bool flat2 = ev(cat({ a, { "AND" }, b, { "OR" }, d }));
                bool want2 = (ev(a) && ev(b)) || ev(d);
                bool par = ev(cat({ { "(" }, a, { "OR" }, b, { ")" }, { "AND" }, d }));
                bool want3 = (ev(a) || ev(b)) && ev(d);
                if (flat != want || flat2 != want2 || par != want3) log.fail("and-or-precedence", joinStrs(cat({ a, b, d })));
                else { log.ok(); ++stats["precedence"]; }
            }
        }
        // run limits on the real ready/add_run alone
        sequences(thorough ? 8 : 6, [&](const RunCfg& c, const std::vector<std::pair<std::time_t, bool>>& evs) {
            size_t count = 0;
            auto runs = realDrive(c, evs, count);
            bool okk = runs.size() <= c.maxRun && count == runs.size();
            for (size_t i = 0; i < runs.size(); ++i) {
                if (runs[i] < c.start) okk = false;
                if (i && c.minWait > 0 && std::difftime(runs[i], runs[i - 1]) < c.minWait) okk = false;
            }
            // nothing is withheld either: replay with a reference of the documented rule
            std::vector<std::time_t> want; std::optional<std::time_t> last;
            for (auto& [t, cond] : evs) {
                bool allowed = want.size() < c.maxRun && t >= c.start && (!last || c.minWait <= 0 || std::difftime(t, *last) >= c.minWait);
                if (allowed && cond) { want.push_back(t); last = t; }
            }
            if (want != runs) okk = false;
            if (okk) { log.ok(); ++stats["run_sequences"]; }
            else {
                std::string d = "max_run=" + std::to_string(c.maxRun) + " min_wait=" + std::to_string(c.minWait) + " start=" + std::to_string(static_cast<long>(c.start)) + " events=";
                for (auto& e : evs) d += std::to_string(static_cast<long>(e.first)) + ":" + (e.second ? "1" : "0") + ",";
                log.fail("run-limits", d);
            }
        });
        std::ofstream f(outdir + "/prop_stats.json");
        f << "{\n  \"checked\": " << log.checked << ",\n  \"failed\": " << log.failed;
        for (auto& kv : stats) f << ",\n  \"" << kv.first << "\": " << kv.second;
        f << "\n}\n";
        return 0;
    }
    return 2;
}
