// try-compile probe: does `createVariable(int nVars, value, varPos)` of a statically sized Evaluation
// instantiate?  -DPROBE_SIZE=3: unrolled specialisation, -DPROBE_SIZE=13: primary template.
#include <opm/material/densead/Evaluation.hpp>
#ifndef PROBE_SIZE
#define PROBE_SIZE 3
#endif
double probe()
{
    using E = Opm::DenseAd::Evaluation<double, PROBE_SIZE>;
    return E::createVariable(PROBE_SIZE, 1.0, 0).value();
}
