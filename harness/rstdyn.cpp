// C05 (third round) — the dynamic state round trip RestartIO::save -> RestartIO::load on the real code, on models the
// first two harnesses do not reach:
//
//   * multi-segment wells whose segment NUMBERS are not 1..N in storage order: gaps in the numbering, numbers permuted
//     over the segments, several lateral branches (WellSegments::orderSegments() reorders), junction segments without a
//     connection, WELSEGS records in random order, INC and ABS; every segment carries its own pressure and oil / water /
//     gas rate; the restored data::Well::segments is compared SEGMENT NUMBER BY SEGMENT NUMBER with what was saved;
//   * connections: SHUT connections, connections the simulator reports no result for (missing data::Connection),
//     COMPLUMP, COMPDAT records bottom-up, horizontal laterals; restored rates / pressure / cumulatives BY CELL;
//   * wells: SHUT / STOP wells, wells the simulator reports nothing for (no entry in data::Wells): restored as zero and,
//     above all, without shifting the windows of the other wells;
//   * groups: cumulative totals of every group and FIELD (groups created in an order that differs from the tree order);
//   * solution / extra arrays: auxiliary arrays nobody asks for, OPM-extended arrays, several extra vectors of different
//     length, a requested-but-optional key that is absent (skipped, nothing else disturbed), a required key that is
//     absent (load must refuse, not invent).
//
// Also the segment -> ISEG / RSEG window arithmetic as a correspondence (`corr`): for each segment of each generated well
// the flat position of the RSEG window the REAL writer stored the segment in (found by its marker pressure), against the
// Lean model's evaluation of the index expressions the translator (translate/rstsegwin.py) extracted from
// AggregateMSWData.cpp / LoadRestart.cpp / rst/well.cpp; and the segment-number set the real RstWell decodes.
//
//   rstdyn prop <seed> <tier> <outdir>      property mode
//   rstdyn corr <seed> <tier> <outdir>      correspondence (ops.txt / impl.txt)
//   rstdyn one  <seed> <case>               replays generated case <case> of `prop <seed>` verbosely (deck on stdout)

#include "common/vh.hpp"

#include <opm/io/eclipse/ERst.hpp>
#include <opm/io/eclipse/OutputStream.hpp>
#include <opm/io/eclipse/RestartFileView.hpp>
#include <opm/io/eclipse/rst/state.hpp>
#include <opm/io/eclipse/rst/well.hpp>
#include <opm/io/eclipse/rst/segment.hpp>

#include <opm/output/data/Cells.hpp>
#include <opm/output/data/Groups.hpp>
#include <opm/output/data/Solution.hpp>
#include <opm/output/data/Wells.hpp>
#include <opm/output/eclipse/AggregateAquiferData.hpp>
#include <opm/output/eclipse/RestartIO.hpp>
#include <opm/output/eclipse/RestartValue.hpp>
#include <opm/output/eclipse/VectorItems/intehead.hpp>
#include <opm/output/eclipse/VectorItems/msw.hpp>
#include <opm/output/eclipse/VectorItems/well.hpp>

#include <opm/input/eclipse/Deck/Deck.hpp>
#include <opm/input/eclipse/EclipseState/EclipseState.hpp>
#include <opm/input/eclipse/EclipseState/Grid/EclipseGrid.hpp>
#include <opm/input/eclipse/Parser/Parser.hpp>
#include <opm/input/eclipse/Parser/ParseContext.hpp>
#include <opm/input/eclipse/Parser/ErrorGuard.hpp>
#include <opm/input/eclipse/Python/Python.hpp>
#include <opm/input/eclipse/Schedule/Action/State.hpp>
#include <opm/input/eclipse/Schedule/MSW/WellSegments.hpp>
#include <opm/input/eclipse/Schedule/MSW/Segment.hpp>
#include <opm/input/eclipse/Schedule/Schedule.hpp>
#include <opm/input/eclipse/Schedule/SummaryState.hpp>
#include <opm/input/eclipse/Schedule/UDQ/UDQState.hpp>
#include <opm/input/eclipse/Schedule/Well/Connection.hpp>
#include <opm/input/eclipse/Schedule/Well/Well.hpp>
#include <opm/input/eclipse/Schedule/Well/WellConnections.hpp>
#include <opm/input/eclipse/Schedule/Well/WellTestState.hpp>
#include <opm/input/eclipse/Schedule/Group/Group.hpp>
#include <opm/input/eclipse/Units/UnitSystem.hpp>
#include <opm/common/utility/TimeService.hpp>

#include <algorithm>
#include <array>
#include <cmath>
#include <filesystem>
#include <fstream>
#include <iostream>
#include <map>
#include <memory>
#include <optional>
#include <set>
#include <sstream>
#include <string>
#include <vector>

namespace VI = Opm::RestartIO::Helpers::VectorItems;
using M = Opm::UnitSystem::measure;
using RO = Opm::data::Rates::opt;

namespace {

std::string num(double x) { std::ostringstream o; o.precision(10); o << x; return o.str(); }

// ---------------------------------------------------------------------------------------------
// generator

struct GConn { int i, j, k; bool open; char dir; int seg; };                       // seg: index into GWell::segs (-1: none)
struct GSeg  { int number, branch, outlet_idx; double len, ddepth; double totlen, depth; int conn; };   // outlet_idx: index into segs (-1: top)
struct GWell {
    std::string name, group;
    int i0, j;
    bool producer; char injphase;      // 'W' 'G'
    int status;                        // 0 OPEN, 1 SHUT, 2 STOP
    bool msw, inc, bottom_up, complump;
    int numbering;                     // 0 contiguous in creation order, 1 permuted 2..N, 2 gapped at random, 3 gapped increasing
    std::vector<GConn> conns;
    std::vector<GSeg> segs;            // segs[0] = top segment (number 1)
    double orat, wrat, grat, bhp;
};
struct GModel {
    std::string units; int nx, ny, nz, nsegmx; int nsteps;
    std::vector<std::string> groups; std::vector<std::string> parents;
    std::vector<GWell> wells;
    std::string deck;
    int msw_wells = 0, gapped = 0, permuted = 0, branches = 0, segments = 0;
};

GModel make_model(vh::Rng& rng, int c)
{
    GModel m;
    static const std::vector<std::string> U = {"METRIC", "FIELD", "LAB", "PVT-M"};
    m.units = U[c % 4];
    const int nw = rng.range(2, 5);
    m.nx = rng.range(5, 7); m.ny = nw + rng.range(0, 2); m.nz = rng.range(5, 8);
    m.nsegmx = rng.range(16, 40);
    m.nsteps = 2;
    const int n = m.nx * m.ny * m.nz;
    const int ng = rng.range(1, 3);
    for (int g = 0; g < ng; ++g) m.groups.push_back("G" + std::to_string(g + 1));
    const bool node = rng.coin();
    for (int g = 0; g < ng; ++g) m.parents.push_back((node && rng.coin(2, 3)) ? "PLAT" : "FIELD");

    std::vector<int> rows(m.ny); for (int r = 0; r < m.ny; ++r) rows[r] = r;
    for (int r = m.ny - 1; r > 0; --r) std::swap(rows[r], rows[rng.below(r + 1)]);
    for (int w = 0; w < nw; ++w) {
        GWell ws;
        ws.producer = (w == 0) ? true : (w == 1 ? false : rng.coin(2, 3));
        ws.name = std::string(ws.producer ? "P" : "I") + std::to_string(w + 1);
        ws.group = m.groups[rng.below(m.groups.size())];
        ws.j = rows[w]; ws.i0 = rng.range(1, m.nx - 2);
        ws.injphase = rng.coin(2, 3) ? 'W' : 'G';
        ws.status = rng.coin(1, 6) ? 1 : (rng.coin(1, 8) ? 2 : 0);
        if (w == 0) ws.status = 0;
        ws.msw = (w == 0) ? true : rng.coin(2, 3);
        ws.inc = rng.coin();
        ws.bottom_up = rng.coin(1, 3);
        ws.complump = rng.coin(1, 3);
        ws.numbering = (w == 0) ? 2 + static_cast<int>(rng.below(2)) : static_cast<int>(rng.below(4));
        ws.orat = 100.0 * rng.range(1, 50); ws.wrat = 50.0 * rng.range(1, 40); ws.grat = 1000.0 * rng.range(1, 90); ws.bhp = 50.0 + rng.range(0, 300);
        // main bore: vertical
        const int nv = rng.range(2, std::min(4, m.nz));
        const int k0 = rng.range(0, m.nz - nv);
        GSeg top{1, 1, -1, 0.0, 0.0, 0.0, 0.0, -1};
        ws.segs.push_back(top);
        for (int v = 0; v < nv; ++v) {
            ws.conns.push_back(GConn{ws.i0, ws.j, k0 + v, rng.coin(5, 6) || v == 0, 'Z', -1});
            if (ws.msw) {
                GSeg s{0, 1, static_cast<int>(ws.segs.size()) - 1, 10.0 + rng.range(0, 5), 10.0, 0.0, 0.0, static_cast<int>(ws.conns.size()) - 1};
                ws.conns.back().seg = static_cast<int>(ws.segs.size());
                ws.segs.push_back(s);
            }
        }
        if (ws.msw) {
            // laterals: horizontal along +x or -x from a main-bore cell, each at its own (layer, direction)
            const int nlat = rng.range(0, 3);
            std::set<std::pair<int, int>> taken;
            int branch = 1;
            for (int l = 0; l < nlat; ++l) {
                const int v = rng.range(0, nv - 1), dirx = rng.coin() ? 1 : -1;
                if (!taken.insert({v, dirx}).second) continue;
                const int room = dirx > 0 ? m.nx - 1 - ws.i0 : ws.i0;
                if (room < 1) continue;
                const int len = rng.range(1, std::min(3, room));
                ++branch;
                int outlet = 1 + v;           // segs index of the main-bore segment of cell v
                if (rng.coin(1, 3)) {         // junction segment without a connection
                    GSeg js{0, branch, outlet, 2.0 + rng.range(0, 3), 0.0, 0.0, 0.0, -1};
                    outlet = static_cast<int>(ws.segs.size());
                    ws.segs.push_back(js);
                }
                for (int x = 1; x <= len; ++x) {
                    ws.conns.push_back(GConn{ws.i0 + dirx * x, ws.j, k0 + v, rng.coin(5, 6), 'X', static_cast<int>(ws.segs.size())});
                    GSeg s{0, branch, outlet, 20.0 + rng.range(0, 10), 0.5 * rng.range(0, 2), 0.0, 0.0, static_cast<int>(ws.conns.size()) - 1};
                    outlet = static_cast<int>(ws.segs.size());
                    ws.segs.push_back(s);
                }
            }
            m.branches += branch;
            // numbering
            const int ns = static_cast<int>(ws.segs.size()) - 1;
            std::vector<int> numbers;
            if (ws.numbering <= 1) { for (int q = 0; q < ns; ++q) numbers.push_back(q + 2); }
            else {
                std::set<int> pick;
                while (static_cast<int>(pick.size()) < ns) pick.insert(rng.range(2, m.nsegmx));
                numbers.assign(pick.begin(), pick.end());
                bool gap = false; for (int q = 0; q < ns; ++q) gap = gap || numbers[q] != q + 2;
                if (!gap) numbers.back() = m.nsegmx;          // make sure there is a gap
            }
            if (ws.numbering == 1 || ws.numbering == 2)
                for (int q = ns - 1; q > 0; --q) std::swap(numbers[q], numbers[rng.below(q + 1)]);
            for (int q = 0; q < ns; ++q) ws.segs[q + 1].number = numbers[q];
            for (std::size_t q = 1; q < ws.segs.size(); ++q) {
                auto& s = ws.segs[q]; const auto& o = ws.segs[s.outlet_idx];
                s.totlen = o.totlen + s.len; s.depth = o.depth + s.ddepth;
            }
            m.msw_wells++; m.segments += ns + 1;
            if (ws.numbering >= 2) m.gapped++; else if (ws.numbering == 1) m.permuted++;
        }
        m.wells.push_back(ws);
    }
    std::vector<char> conn_cell(n, 0);
    for (auto& w : m.wells) for (auto& cn : w.conns) conn_cell[cn.i + m.nx * (cn.j + m.ny * cn.k)] = 1;

    std::ostringstream d;
    d << "RUNSPEC\nTITLE\n C05DYN\nDIMENS\n " << m.nx << " " << m.ny << " " << m.nz << " /\nOIL\nGAS\nWATER\n" << m.units << "\n"
      << "START\n 1 'JAN' 2020 /\nWELLDIMS\n 10 30 6 10 /\nWSEGDIMS\n 6 " << m.nsegmx << " 8 /\nTABDIMS\n/\nGRID\n"
      << "DXV\n " << m.nx << "*100 /\nDYV\n " << m.ny << "*100 /\nDZV\n " << m.nz << "*10 /\n"
      << "DEPTHZ\n " << (m.nx + 1) * (m.ny + 1) << "*2000 /\n"
      << "PORO\n " << n << "*0.2 /\nPERMX\n " << n << "*100 /\nPERMY\n " << n << "*100 /\nPERMZ\n " << n << "*10 /\nACTNUM\n";
    for (int q = 0; q < n; ++q) d << " " << ((!conn_cell[q] && rng.coin(1, 5)) ? 0 : 1);
    d << " /\nSCHEDULE\n";
    const bool late_tree = rng.coin();
    auto gruptree = [&]() {
        d << "GRUPTREE\n";
        bool plat = false; for (auto& p : m.parents) plat = plat || p == "PLAT";
        for (std::size_t g = 0; g < m.groups.size(); ++g) d << " '" << m.groups[g] << "' '" << m.parents[g] << "' /\n";
        if (plat) d << " 'PLAT' 'FIELD' /\n";
        d << "/\n";
    };
    if (!late_tree) gruptree();
    d << "WELSPECS\n";
    for (auto& w : m.wells)
        d << " '" << w.name << "' '" << w.group << "' " << w.i0 + 1 << " " << w.j + 1 << " " << num(2000.0 + 10.0 * w.conns[0].k) << " '"
          << (w.producer ? "OIL" : (w.injphase == 'W' ? "WATER" : "GAS")) << "' 0 'STD' 'SHUT' 'YES' /\n";
    d << "/\n";
    if (late_tree) gruptree();
    d << "COMPDAT\n";
    for (auto& w : m.wells) {
        const int nc = static_cast<int>(w.conns.size());
        for (int q = 0; q < nc; ++q) {
            const auto& cn = w.conns[w.bottom_up ? nc - 1 - q : q];
            d << " '" << w.name << "' " << cn.i + 1 << " " << cn.j + 1 << " " << cn.k + 1 << " " << cn.k + 1 << " '" << (cn.open ? "OPEN" : "SHUT")
              << "' 1* 1* " << num(0.1 + 0.05 * rng.range(1, 6)) << " 1* " << num(0.5 * rng.range(0, 4)) << " 1* '" << cn.dir << "' /\n";
        }
    }
    d << "/\n";
    for (auto& w : m.wells) if (w.msw) {
        const double top_depth = 2000.0 + 10.0 * w.conns[0].k;
        d << "WELSEGS\n '" << w.name << "' " << num(top_depth) << " 0 1* '" << (w.inc ? "INC" : "ABS") << "' '" << (rng.coin() ? "HFA" : "HF-") << "' /\n";
        std::vector<int> order; for (std::size_t q = 1; q < w.segs.size(); ++q) order.push_back(static_cast<int>(q));
        if (rng.coin()) for (int q = static_cast<int>(order.size()) - 1; q > 0; --q) std::swap(order[q], order[rng.below(q + 1)]);
        for (int q : order) {
            const auto& s = w.segs[q];
            d << " " << s.number << " " << s.number << " " << s.branch << " " << w.segs[s.outlet_idx].number << " "
              << (w.inc ? num(s.len) : num(s.totlen)) << " " << (w.inc ? num(s.ddepth) : num(top_depth + s.depth)) << " " << num(0.15 + 0.01 * (q % 5)) << " 0.0001 /\n";
        }
        d << "/\nCOMPSEGS\n '" << w.name << "' /\n";
        for (const auto& cn : w.conns) {
            const auto& s = w.segs[cn.seg];
            d << " " << cn.i + 1 << " " << cn.j + 1 << " " << cn.k + 1 << " " << s.branch << " " << num(s.totlen - 0.4 * s.len) << " " << num(s.totlen + 0.4 * s.len);
            if (rng.coin()) d << " 4* " << s.number;
            d << " /\n";
        }
        d << "/\n";
    }
    {
        bool any = false; for (auto& w : m.wells) any = any || w.complump;
        if (any) {
            d << "COMPLUMP\n";
            for (auto& w : m.wells) if (w.complump) {
                // completions: the first two connections lumped into completion 2 (when there are two), the rest into 1
                const auto& a = w.conns[0];
                d << " '" << w.name << "' " << a.i + 1 << " " << a.j + 1 << " " << a.k + 1 << " " << a.k + 1 << " 2 /\n";
                for (std::size_t q = 1; q < w.conns.size(); ++q) {
                    const auto& b = w.conns[q];
                    d << " '" << w.name << "' " << b.i + 1 << " " << b.j + 1 << " " << b.k + 1 << " " << b.k + 1 << " " << (q == 1 ? 2 : 1) << " /\n";
                }
            }
            d << "/\n";
        }
    }
    static const char* stat[] = {"OPEN", "SHUT", "STOP"};
    {
        bool any = false; for (auto& w : m.wells) any = any || w.producer;
        if (any) {
            d << "WCONPROD\n";
            for (auto& w : m.wells) if (w.producer)
                d << " '" << w.name << "' '" << stat[w.status] << "' 'ORAT' " << num(w.orat) << " " << num(w.wrat) << " " << num(w.grat) << " 2* " << num(w.bhp) << " /\n";
            d << "/\n";
        }
        any = false; for (auto& w : m.wells) any = any || !w.producer;
        if (any) {
            d << "WCONINJE\n";
            for (auto& w : m.wells) if (!w.producer)
                d << " '" << w.name << "' '" << (w.injphase == 'W' ? "WATER" : "GAS") << "' '" << stat[w.status] << "' 'RATE' " << num(w.injphase == 'W' ? w.wrat : w.grat) << " 1* " << num(w.bhp + 200) << " /\n";
            d << "/\n";
        }
    }
    if (rng.coin()) {
        d << "GCONPROD\n";
        for (auto& g : m.groups) if (rng.coin(2, 3)) d << " '" << g << "' 'ORAT' " << num(4000.0 + 100.0 * rng.range(0, 20)) << " 3* 'RATE' /\n";
        d << "/\n";
    }
    d << "DATES\n 1 'FEB' 2020 /\n/\n";
    {
        // second block: a connection shut by WELOPEN (the well's connection set keeps it)
        const auto& w = m.wells[rng.below(m.wells.size())];
        const auto& cn = w.conns[rng.below(w.conns.size())];
        if (rng.coin() && w.conns.size() > 1) d << "WELOPEN\n '" << w.name << "' 'SHUT' " << cn.i + 1 << " " << cn.j + 1 << " " << cn.k + 1 << " /\n/\n";
    }
    d << "DATES\n 1 'MAR' 2020 /\n/\nEND\n";
    m.deck = d.str();
    return m;
}

struct Case {
    Opm::Deck deck;
    Opm::EclipseState es;
    Opm::EclipseGrid grid;
    Opm::Schedule sched;
    explicit Case(const std::string& text)
        : deck(Opm::Parser{}.parseString(text)), es(deck), grid(es.getInputGrid()),
          sched(deck, es, std::make_shared<Opm::Python>())
    {}
};

// ---------------------------------------------------------------------------------------------
// dynamic state: data::Wells in SI + the SummaryState image in output units the writer reads

struct SegVal { double o, w, g, p; };
struct Dyn {
    Opm::data::Wells xw;
    Opm::SummaryState st { Opm::TimeService::now(), 0.0 };
    std::set<std::string> no_results;                                       // wells the simulator reports nothing for
    std::map<std::pair<std::string, int>, SegVal> seg;                      // (well, segment number) -> saved values (SI, flow sign)
    std::map<std::pair<std::string, std::size_t>, std::array<double, 4>> conn;   // (well, global cell) -> oil, wat, gas, pressure (SI); absent = no result reported
    std::map<std::pair<std::string, std::size_t>, std::map<std::string, double>> conn_cum;
    std::map<std::string, std::map<std::string, double>> group_cum;         // group -> vector suffix -> value (output units)
};

void make_dyn(vh::Rng& rng, const Case& cs, std::size_t sim_step, Dyn& dyn)
{
    const auto& us = cs.es.getUnits();
    for (const auto& wname : cs.sched.wellNames(sim_step)) {
        const auto& well = cs.sched.getWell(wname, sim_step);
        const bool prod = well.isProducer();
        const bool shut = well.getStatus() == Opm::Well::Status::SHUT;
        const bool stop = well.getStatus() == Opm::Well::Status::STOP;
        const bool flowing = !shut && !stop;
        // a simulator may leave a shut well out of its report altogether
        const bool report = !(shut && rng.coin());
        if (!report) { dyn.no_results.insert(wname); }
        Opm::data::Well w;
        const double sgn = prod ? -1.0 : 1.0;
        const bool inj_w = !prod && well.injectorType() == Opm::InjectorType::WATER;
        const bool inj_g = !prod && well.injectorType() == Opm::InjectorType::GAS;
        const double qo = (flowing && prod) ? (0.2 + rng.unit()) * 1e-2 : 0.0;
        const double qw = (flowing && (prod || inj_w)) ? (0.2 + rng.unit()) * 1e-2 : 0.0;
        const double qg = (flowing && (prod || inj_g)) ? (0.2 + rng.unit()) * 5.0 : 0.0;
        w.rates.set(RO::oil, sgn * qo); w.rates.set(RO::wat, sgn * qw); w.rates.set(RO::gas, sgn * qg);
        w.bhp = report ? 1.0e5 * (100.0 + 300.0 * rng.unit()) : 0.0;
        w.thp = report ? 1.0e5 * (10.0 + 50.0 * rng.unit()) : 0.0;
        w.temperature = 0.0;
        w.dynamicStatus = well.getStatus();
        w.current_control.isProducer = prod;
        if (prod) w.current_control.prod = rng.coin() ? Opm::Well::ProducerCMode::ORAT : Opm::Well::ProducerCMode::BHP;
        else      w.current_control.inj  = rng.coin() ? Opm::Well::InjectorCMode::RATE : Opm::Well::InjectorCMode::BHP;
        const auto& conns = well.getConnections();
        const std::size_t nc = conns.size();
        // weights so that no two connections carry the same numbers
        std::vector<double> wt(nc, 0.0); double wsum = 0.0;
        for (std::size_t q = 0; q < nc; ++q) if (flowing && conns.get(q).state() == Opm::Connection::State::OPEN) { wt[q] = 1.0 + rng.unit() + 0.01 * q; wsum += wt[q]; }
        // the simulator reports open connections; shut ones sometimes not at all
        const bool drop_shut = rng.coin();
        for (std::size_t q = 0; q < nc && report; ++q) {
            const auto& conn = conns.get(q);
            const bool copen = conn.state() == Opm::Connection::State::OPEN;
            if (!copen && drop_shut) continue;
            Opm::data::Connection xc;
            xc.index = conn.global_index();
            const double f = wsum > 0.0 ? wt[q] / wsum : 0.0;
            xc.rates.set(RO::oil, sgn * qo * f); xc.rates.set(RO::wat, sgn * qw * f); xc.rates.set(RO::gas, sgn * qg * f);
            xc.pressure = w.bhp + 1.0e4 * (1.0 + static_cast<double>(q)) + 1.0e3 * rng.unit();
            xc.reservoir_rate = sgn * (qo + qw) * f;
            xc.trans_factor = conn.CF();
            xc.compact_mult = 1.0;
            w.connections.push_back(xc);
            dyn.conn[{wname, xc.index}] = { xc.rates.get(RO::oil), xc.rates.get(RO::wat), xc.rates.get(RO::gas), xc.pressure };
            auto cset = [&](const std::string& key, M mm, double si) { dyn.st.update_conn_var(wname, key, xc.index + 1, us.from_si(mm, si)); };
            const char dch = prod ? 'P' : 'I';
            cset(std::string("CO") + dch + "R", M::liquid_surface_rate, std::abs(xc.rates.get(RO::oil)));
            cset(std::string("CW") + dch + "R", M::liquid_surface_rate, std::abs(xc.rates.get(RO::wat)));
            cset(std::string("CG") + dch + "R", M::gas_surface_rate,    std::abs(xc.rates.get(RO::gas)));
            cset(std::string("CV") + dch + "R", M::rate,                std::abs(xc.reservoir_rate));
            cset("CPR", M::pressure, xc.pressure);
            auto& cum = dyn.conn_cum[{wname, xc.index}];
            for (const char* k : {"COPT", "CWPT", "CGPT", "CVPT", "COIT", "CWIT", "CGIT", "CVIT"}) {
                const double v = 1.0 + 1.0e3 * rng.unit();
                dyn.st.update_conn_var(wname, k, xc.index + 1, v); cum[k] = v;
            }
        }
        if (well.isMultiSegment() && report && !shut) {
            const auto& segs = well.getSegments();
            for (std::size_t sidx = 0; sidx < segs.size(); ++sidx) {
                const int segno = segs[sidx].segmentNumber();
                // every segment its own values (a stopped well: no flow, but its own pressures)
                SegVal v;
                v.o = (prod && flowing) ? sgn * (0.2 + rng.unit()) * 1e-2 : 0.0;
                v.w = ((prod || inj_w) && flowing) ? sgn * (0.2 + rng.unit()) * 1e-2 : 0.0;
                v.g = ((prod || inj_g) && flowing) ? sgn * (0.2 + rng.unit()) * 5.0 : 0.0;
                v.p = w.bhp + 1.0e4 * segno + 1.0e3 * rng.unit();
                dyn.seg[{wname, segno}] = v;
                auto& sg = w.segments[segno];
                sg.segNumber = segno;
                sg.rates.set(RO::oil, v.o); sg.rates.set(RO::wat, v.w); sg.rates.set(RO::gas, v.g);
                sg.pressures[Opm::data::SegmentPressures::Value::Pressure] = v.p;
                dyn.st.update_segment_var(wname, "SOFR", segno, -us.from_si(M::liquid_surface_rate, v.o));
                dyn.st.update_segment_var(wname, "SWFR", segno, -us.from_si(M::liquid_surface_rate, v.w));
                dyn.st.update_segment_var(wname, "SGFR", segno, -us.from_si(M::gas_surface_rate, v.g));
                dyn.st.update_segment_var(wname, "SPR", segno, us.from_si(M::pressure, v.p));
            }
        }
        if (report) dyn.xw[wname] = w;
        auto wset = [&](const std::string& key, M mm, double si) { dyn.st.update_well_var(wname, key, us.from_si(mm, si)); };
        wset("WOPR", M::liquid_surface_rate, prod ? qo : 0.0); wset("WWPR", M::liquid_surface_rate, prod ? qw : 0.0); wset("WGPR", M::gas_surface_rate, prod ? qg : 0.0);
        wset("WWIR", M::liquid_surface_rate, inj_w ? qw : 0.0); wset("WGIR", M::gas_surface_rate, inj_g ? qg : 0.0);
        wset("WBHP", M::pressure, w.bhp); wset("WTHP", M::pressure, w.thp);
        for (const char* k : {"WOPT", "WWPT", "WWIT", "WOPTH", "WWPTH", "WWITH"}) wset(k, M::liquid_surface_volume, 1.0e4 * rng.unit());
        for (const char* k : {"WGPT", "WGIT", "WGPTH", "WGITH"}) wset(k, M::gas_surface_volume, 1.0e6 * rng.unit());
        for (const char* k : {"WVPT", "WVIT"}) wset(k, M::volume, 1.0e4 * rng.unit());
    }
    static const char* gk[] = {"OPT", "WPT", "GPT", "VPT", "WIT", "GIT", "VIT", "OPTS", "GPTS", "OPTH", "WPTH", "GPTH", "WITH", "GITH"};
    for (const auto& gname : cs.sched.groupNames(sim_step)) {
        const bool field = gname == "FIELD";
        for (const char* k : gk) {
            const double v = 1.0 + 1.0e4 * rng.unit();
            dyn.group_cum[gname][k] = v;
            if (field) dyn.st.update(std::string("F") + k, v); else dyn.st.update_group_var(gname, std::string("G") + k, v);
        }
        if (field) { dyn.st.update("FMCTP", 0); dyn.st.update("FMCTW", 0); dyn.st.update("FMCTG", 0); dyn.st.update("FMWPR", 1); dyn.st.update("FMWIN", 1); }
        else { dyn.st.update_group_var(gname, "GMCTP", 0); dyn.st.update_group_var(gname, "GMCTW", 0); dyn.st.update_group_var(gname, "GMCTG", 0);
               dyn.st.update_group_var(gname, "GMWPR", 1); dyn.st.update_group_var(gname, "GMWIN", 0); }
    }
}

bool close(double a, double b, double rel, double abs_tol = 0.0)
{
    if (a == b) return true;
    if (std::isnan(a) || std::isnan(b)) return false;
    return std::abs(a - b) <= rel * std::max(std::abs(a), std::abs(b)) + abs_tol;
}

struct Stats {
    long cases = 0, rejected = 0, msw_wells = 0, gapped_wells = 0, permuted_wells = 0, wells_storage_order_differs = 0, branches = 0, segments_compared = 0,
         connections_compared = 0, connections_without_result = 0, shut_wells = 0, wells_without_results = 0, groups_compared = 0, rst_segment_sets = 0;
};

std::string rst_file_name(const std::string& dir, const std::string& base, int rs, bool formatted, bool unified)
{
    namespace OS = Opm::EclIO::OutputStream;
    char b[8]; std::snprintf(b, sizeof b, "%04d", rs);
    return OS::outputFileName(OS::ResultSet{ dir, base }, unified ? (formatted ? "FUNRST" : "UNRST") : ((formatted ? "F" : "X") + std::string(b)));
}

struct SavedFile {
    std::string fname;
    Opm::data::Solution sol;
    std::vector<std::pair<std::string, std::vector<double>>> extra;
};

// save report step rs of the case; returns false when save throws (reported)
bool save_case(vh::Rng& rng, Case& cs, const Dyn& dyn, int rs, const std::string& workdir, bool formatted, bool unified, bool write_double,
               SavedFile& out, vh::PropLog* log, const std::string& at)
{
    namespace OS = Opm::EclIO::OutputStream;
    const int nact = static_cast<int>(cs.grid.getNumActive());
    auto mk = [&](const char* key, M mm, double lo, double hi, Opm::data::TargetType tt) {
        std::vector<double> v(nact);
        for (auto& x : v) x = lo + (hi - lo) * rng.unit();
        out.sol.insert(key, mm, v, tt);
    };
    using TT = Opm::data::TargetType;
    mk("PRESSURE", M::pressure, 1.0e7, 4.0e7, TT::RESTART_SOLUTION); mk("SWAT", M::identity, 0.0, 1.0, TT::RESTART_SOLUTION); mk("SGAS", M::identity, 0.0, 1.0, TT::RESTART_SOLUTION);
    mk("RS", M::gas_oil_ratio, 0.0, 300.0, TT::RESTART_SOLUTION);
    mk("AUXONE", M::pressure, 1.0e5, 2.0e5, TT::RESTART_AUXILIARY);          // nobody asks for these on load
    mk("XTENDED", M::identity, 0.0, 1.0, TT::RESTART_OPM_EXTENDED);
    mk("SUMONLY", M::identity, 0.0, 1.0, TT::SUMMARY);                       // never written to a restart file
    out.extra = { {"EXTRA", { 1.0e5 * rng.unit(), 2.0e5 * rng.unit(), 3.0e5 }}, {"EXLONG", std::vector<double>(7)}, {"EXONE", { 42.0 * rng.unit() }} };
    for (auto& x : out.extra[1].second) x = 10.0 * rng.unit();
    Opm::data::GroupAndNetworkValues gnv;
    Opm::RestartValue value(out.sol, dyn.xw, gnv, {});
    value.addExtra("EXTRA", M::pressure, out.extra[0].second);
    value.addExtra("EXLONG", M::identity, out.extra[1].second);
    value.addExtra("EXONE", M::length, out.extra[2].second);
    std::optional<Opm::RestartIO::Helpers::AggregateAquiferData> aq { std::nullopt };
    try {
        OS::Restart rst { OS::ResultSet{ workdir, "DYN" }, rs, OS::Formatted{ formatted }, OS::Unified{ unified } };
        const Opm::Action::State action_state; const Opm::WellTestState wtest; const Opm::UDQState udq(0.0);
        Opm::RestartIO::save(rst, rs, 86400.0 * 31 * rs, value, cs.es, cs.grid, cs.sched, action_state, wtest, dyn.st, udq, aq, write_double);
    } catch (const std::exception& e) {
        if (log) log->fail("dyn.save-throws", at + " " + e.what());
        return false;
    }
    out.fname = rst_file_name(workdir, "DYN", rs, formatted, unified);
    return true;
}

void prop_case(uint64_t seed, int c, vh::PropLog& log, Stats& stats, const std::string& workdir, bool verbose)
{
    vh::Rng rng(seed * 1000003ull + 7919ull * static_cast<uint64_t>(c) + 23);
    const auto gm = make_model(rng, c);
    if (verbose) std::cout << gm.deck << "\n";
    std::unique_ptr<Case> csp;
    try { csp = std::make_unique<Case>(gm.deck); }
    catch (const std::exception& e) { stats.rejected++; std::cerr << "rstdyn: deck rejected (case " << c << "): " << e.what() << "\n"; return; }
    Case& cs = *csp;
    cs.es.getIOConfig().setEclCompatibleRST(false);
    const auto& us = cs.es.getUnits();
    const int rs = rng.range(1, gm.nsteps);
    const std::size_t sim_step = static_cast<std::size_t>(rs - 1);
    const int variant = static_cast<int>(rng.below(8));
    const bool formatted = variant & 1, unified = variant & 2, write_double = variant & 4;
    const std::string at = "case=" + std::to_string(c) + " seed=" + std::to_string(seed) + " units=" + gm.units + " step=" + std::to_string(rs)
                         + (formatted ? " fmt" : " unf") + (unified ? " unif" : " sep") + (write_double ? " dbl" : " sgl") + " (replay: rstdyn one " + std::to_string(seed) + " " + std::to_string(c) + ")";
    std::filesystem::remove_all(workdir);
    std::filesystem::create_directories(workdir);
    stats.cases++;

    Dyn dyn;
    make_dyn(rng, cs, sim_step, dyn);
    SavedFile sf;
    if (!save_case(rng, cs, dyn, rs, workdir, formatted, unified, write_double, sf, &log, at)) return;

    const std::vector<Opm::RestartKey> sol_keys = { Opm::RestartKey("PRESSURE", M::pressure), Opm::RestartKey("SWAT", M::identity), Opm::RestartKey("SGAS", M::identity),
                                                    Opm::RestartKey("RS", M::gas_oil_ratio), Opm::RestartKey("XTENDED", M::identity),
                                                    Opm::RestartKey("NOSUCH", M::identity, false) };      // optional and absent
    const std::vector<Opm::RestartKey> extra_keys = { Opm::RestartKey("EXTRA", M::pressure, true), Opm::RestartKey("EXLONG", M::identity, true),
                                                      Opm::RestartKey("EXONE", M::length, true), Opm::RestartKey("EXNONE", M::identity, false) };
    Opm::SummaryState st2 { Opm::TimeService::now(), 0.0 };
    Opm::Action::State as2;
    std::optional<Opm::RestartValue> lv;
    try { lv = Opm::RestartIO::load(sf.fname, rs, as2, st2, sol_keys, cs.es, cs.grid, cs.sched, extra_keys); }
    catch (const std::exception& e) { log.fail("dyn.load-throws", at + " " + e.what()); return; }

    // ---- solution and extra arrays
    const double relsol = write_double ? 1e-13 : 4e-7;
    for (const char* key : {"PRESSURE", "SWAT", "SGAS", "RS", "XTENDED"}) {
        const auto& a = sf.sol.data<double>(key);
        if (!lv->solution.has(key)) { log.fail(std::string("dyn.solution-missing.") + key, at); continue; }
        const auto& b = lv->solution.data<double>(key);
        bool ok = a.size() == b.size();
        for (std::size_t i = 0; ok && i < a.size(); ++i) ok = close(a[i], b[i], relsol, 1e-300);
        if (ok) log.ok(); else log.fail(std::string("dyn.solution-value.") + key, at);
    }
    for (const char* key : {"NOSUCH", "SUMONLY", "AUXONE"})       // not in the file / not asked for: must not appear
        if (lv->solution.has(key)) log.fail(std::string("dyn.solution-invented.") + key, at); else log.ok();
    for (const auto& [key, vals] : sf.extra) {
        bool found = false;
        for (const auto& ex : lv->extra) if (ex.first.key == key) {
            found = true;
            bool ok = ex.second.size() == vals.size();
            for (std::size_t i = 0; ok && i < vals.size(); ++i) ok = close(vals[i], ex.second[i], 1e-13);
            if (ok) log.ok(); else log.fail("dyn.extra-value." + key, at);
        }
        if (!found) log.fail("dyn.extra-missing." + key, at);
    }
    for (const auto& ex : lv->extra) if (ex.first.key == "EXNONE") log.fail("dyn.extra-invented", at);
    // a required key the file does not have: the reader must refuse
    if (c % 4 == 0) {
        for (int which = 0; which < 2; ++which) {
            bool threw = false;
            try {
                Opm::SummaryState st3 { Opm::TimeService::now(), 0.0 }; Opm::Action::State as3;
                auto sk = sol_keys; auto ek = extra_keys;
                if (which == 0) sk.push_back(Opm::RestartKey("MISSING", M::identity, true)); else ek.push_back(Opm::RestartKey("EXMISS", M::identity, true));
                Opm::RestartIO::load(sf.fname, rs, as3, st3, sk, cs.es, cs.grid, cs.sched, ek);
            } catch (const std::exception&) { threw = true; }
            if (threw) log.ok(); else log.fail(which == 0 ? "dyn.required-solution-key-absent-accepted" : "dyn.required-extra-key-absent-accepted", at);
        }
    }

    // ---- wells, connections, segments
    for (const auto& wname : cs.sched.wellNames(sim_step)) {
        const auto& well = cs.sched.getWell(wname, sim_step);
        const std::string aw = at + " well=" + wname;
        const auto li = lv->wells.find(wname);
        if (li == lv->wells.end()) { log.fail("dyn.well-missing", aw); continue; }
        const auto& lw = li->second;
        const bool reported = !dyn.no_results.count(wname);
        const bool shut = well.getStatus() == Opm::Well::Status::SHUT;
        if (shut) stats.shut_wells++;
        if (!reported) stats.wells_without_results++;
        const Opm::data::Well none;
        const Opm::data::Well& xw = reported ? dyn.xw.at(wname) : none;
        for (auto [p, nm] : { std::pair<RO, const char*>{RO::oil, "oil"}, {RO::wat, "wat"}, {RO::gas, "gas"} }) {
            if (close(xw.rates.get(p, 0.0), lw.rates.get(p, 0.0), 1e-12, 1e-300)) log.ok();
            else log.fail(std::string("dyn.well-rate.") + nm, aw + (reported ? "" : " (no results reported)") + " saved=" + vh::hexF64(xw.rates.get(p, 0.0)) + " loaded=" + vh::hexF64(lw.rates.get(p, 0.0)));
        }
        if (close(xw.bhp, lw.bhp, 1e-12)) log.ok(); else log.fail("dyn.well-bhp", aw + " saved=" + num(xw.bhp) + " loaded=" + num(lw.bhp));
        if (close(xw.thp, lw.thp, 1e-12)) log.ok(); else log.fail("dyn.well-thp", aw);
        if (reported && well.getStatus() == Opm::Well::Status::OPEN && std::any_of(xw.connections.begin(), xw.connections.end(), [](const Opm::data::Connection& x) { return x.rates.flowing(); })) {
            const bool same = xw.current_control.isProducer == lw.current_control.isProducer &&
                (xw.current_control.isProducer ? xw.current_control.prod == lw.current_control.prod : xw.current_control.inj == lw.current_control.inj);
            if (same) log.ok(); else log.fail("dyn.well-control", aw);
        }
        for (const char* k : {"WOPT", "WWPT", "WGPT", "WVPT", "WWIT", "WGIT", "WVIT", "WOPTH", "WWPTH", "WGPTH", "WWITH", "WGITH"}) {
            const double a = dyn.st.get_well_var(wname, k, 0.0), b = st2.get_well_var(wname, k, 0.0);
            if (close(a, b, 1e-13)) log.ok(); else log.fail(std::string("dyn.well-cumulative.") + k, aw + " saved=" + vh::hexF64(a) + " loaded=" + vh::hexF64(b));
        }
        // connections, cell by cell: every connection of the schedule comes back; with its saved result, or zero when none was reported
        for (const auto& conn : well.getConnections()) {
            const std::size_t cell = conn.global_index();
            const auto* lc = lw.find_connection(cell);
            const std::string ac = aw + " cell=" + std::to_string(cell) + " ijk=" + std::to_string(conn.getI() + 1) + "," + std::to_string(conn.getJ() + 1) + "," + std::to_string(conn.getK() + 1);
            if (lc == nullptr) { log.fail("dyn.conn.missing", ac); continue; }
            const auto it = dyn.conn.find({wname, cell});
            const std::array<double, 4> want = it == dyn.conn.end() ? std::array<double, 4>{0.0, 0.0, 0.0, 0.0} : it->second;
            if (it == dyn.conn.end()) stats.connections_without_result++;
            stats.connections_compared++;
            const bool okr = close(want[0], lc->rates.get(RO::oil, 0.0), 1e-12, 1e-300) && close(want[1], lc->rates.get(RO::wat, 0.0), 1e-12, 1e-300) && close(want[2], lc->rates.get(RO::gas, 0.0), 1e-12, 1e-300);
            if (okr) log.ok(); else log.fail("dyn.conn.rate", ac + (it == dyn.conn.end() ? " (no result reported)" : "") + " saved oil=" + num(want[0]) + " loaded=" + num(lc->rates.get(RO::oil, 0.0)));
            if (close(want[3], lc->pressure, 1e-12)) log.ok(); else log.fail("dyn.conn.pressure", ac + " saved=" + num(want[3]) + " loaded=" + num(lc->pressure));
            const auto cc = dyn.conn_cum.find({wname, cell});
            for (const char* k : {"COPT", "CWPT", "CGPT", "CVPT", "COIT", "CWIT", "CGIT", "CVIT"}) {
                const double a = cc == dyn.conn_cum.end() ? 0.0 : cc->second.at(k), b = st2.get_conn_var(wname, k, cell + 1, 0.0);
                if (close(a, b, 1e-13)) log.ok(); else log.fail(std::string("dyn.conn.cumulative.") + k, ac + " saved=" + num(a) + " loaded=" + num(b));
            }
        }
        if (lw.connections.size() != well.getConnections().size()) log.fail("dyn.conn.count", aw + " schedule " + std::to_string(well.getConnections().size()) + " loaded " + std::to_string(lw.connections.size()));
        else log.ok();
        // segments, number by number
        if (!well.isMultiSegment()) {
            if (lw.segments.empty()) log.ok(); else log.fail("dyn.segment.invented", aw);
            continue;
        }
        const auto& segs = well.getSegments();
        {
            bool differs = false;
            for (std::size_t sidx = 0; sidx < segs.size(); ++sidx) differs = differs || segs[sidx].segmentNumber() != static_cast<int>(sidx) + 1;
            if (differs) stats.wells_storage_order_differs++;
        }
        std::set<int> numbers;
        for (std::size_t sidx = 0; sidx < segs.size(); ++sidx) {
            const int segno = segs[sidx].segmentNumber();
            numbers.insert(segno);
            const std::string as = aw + (well.isProducer() ? " (producer)" : " (injector)") + " segment=" + std::to_string(segno) + " storage_index=" + std::to_string(sidx) + " of " + std::to_string(segs.size());
            const auto sit = lw.segments.find(segno);
            if (sit == lw.segments.end()) { log.fail("dyn.segment.missing", as); continue; }
            const auto want_it = dyn.seg.find({wname, segno});
            const SegVal want = want_it == dyn.seg.end() ? SegVal{0.0, 0.0, 0.0, 0.0} : want_it->second;
            stats.segments_compared++;
            if (sit->second.segNumber != static_cast<std::size_t>(segno)) log.fail("dyn.segment.number", as + " loaded segNumber=" + std::to_string(sit->second.segNumber)); else log.ok();
            // the three rates are recovered from (total, water fraction, gas fraction) in output units: equal up to rounding of the total
            const double so = std::abs(us.from_si(M::liquid_surface_rate, want.o)), sw = std::abs(us.from_si(M::liquid_surface_rate, want.w)), sg = std::abs(us.from_si(M::gas_surface_rate, want.g));
            const double tot = so + sw + sg + 1e-300;
            const char* nm[] = {"oil", "water", "gas"};
            const RO ph[] = {RO::oil, RO::wat, RO::gas};
            const M mm[] = {M::liquid_surface_rate, M::liquid_surface_rate, M::gas_surface_rate};
            const double q[] = {want.o, want.w, want.g};
            for (int k = 0; k < 3; ++k) {
                const double got = sit->second.rates.get(ph[k], 0.0);
                const double tol = std::abs(us.to_si(mm[k], 1e-9 * tot * (k == 2 ? 1000.0 : k == 1 ? 10.0 : 1.0)));
                if (std::abs(got - q[k]) <= tol + 1e-9 * std::abs(q[k])) log.ok();
                else log.fail(std::string("dyn.segment.") + nm[k] + "_rate", as + " saved=" + num(q[k]) + " loaded=" + num(got));
            }
            const double pr = sit->second.pressures[Opm::data::SegmentPressures::Value::Pressure];
            if (close(pr, want.p, 1e-10, 0.0)) log.ok(); else log.fail("dyn.segment.pressure", as + " saved=" + num(want.p) + " loaded=" + num(pr));
        }
        for (const auto& kv : lw.segments) if (!numbers.count(static_cast<int>(kv.first))) { log.fail("dyn.segment.invented", aw + " segment=" + std::to_string(kv.first)); break; }
    }
    // wells in the loaded state that the schedule does not have
    for (const auto& kv : lv->wells) if (!cs.sched.hasWell(kv.first, sim_step)) log.fail("dyn.well-invented", at + " well=" + kv.first);

    // ---- groups: cumulative totals restored into the summary state
    for (const auto& [gname, cum] : dyn.group_cum) {
        stats.groups_compared++;
        for (const auto& [k, v] : cum) {
            const double b = gname == "FIELD" ? st2.get("F" + k, 0.0) : st2.get_group_var(gname, "G" + k, 0.0);
            if (close(v, b, 1e-13)) log.ok(); else log.fail("dyn.group-cumulative." + k, at + " group=" + gname + " saved=" + num(v) + " loaded=" + num(b));
        }
    }

    // ---- what the restarted Schedule is built from: the segment NUMBER set (and outlet / branch) RstWell decodes from ISEG
    try {
        auto erst = std::make_shared<Opm::EclIO::ERst>(sf.fname);
        auto view = std::make_shared<Opm::EclIO::RestartFileView>(erst, rs);
        const auto state = Opm::RestartIO::RstState::load(view, cs.es.runspec(), Opm::Parser{}, &cs.grid);
        for (const auto& wname : cs.sched.wellNames(sim_step)) {
            const auto& well = cs.sched.getWell(wname, sim_step);
            if (!well.isMultiSegment()) continue;
            const auto& rw = state.get_well(wname);
            stats.rst_segment_sets++;
            std::map<int, std::pair<int, int>> a, b;
            for (const auto& s : well.getSegments()) a[s.segmentNumber()] = { s.outletSegment(), s.branchNumber() };
            for (const auto& s : rw.segments) b[s.segment] = { s.outlet_segment, s.branch };
            if (a == b) log.ok();
            else {
                std::string sa, sb; for (auto& kv : a) sa += " " + std::to_string(kv.first); for (auto& kv : b) sb += " " + std::to_string(kv.first);
                log.fail("dyn.rststate.segment-set", at + " well=" + wname + " schedule segments:" + sa + " RstWell segments:" + sb);
            }
        }
    } catch (const std::exception& e) {
        log.fail("dyn.rststate-throws", at + " " + e.what());
    }
    stats.msw_wells += gm.msw_wells; stats.gapped_wells += gm.gapped; stats.permuted_wells += gm.permuted; stats.branches += gm.branches;
    if (!std::getenv("RSTDYN_KEEP")) std::filesystem::remove_all(workdir);
}

int run_prop(uint64_t seed, const std::string& tier, const std::string& outdir)
{
    vh::PropLog log(outdir + "/prop.txt");
    Stats s;
    const int ncases = tier == "thorough" ? 600 : 64;
    for (int c = 0; c < ncases; ++c) prop_case(seed, c, log, s, outdir + "/dyn_work", false);
    std::ofstream f(outdir + "/prop_stats.json");
    f << "{\n  \"checked\": " << log.checked << ",\n  \"failed\": " << log.failed << ",\n  \"cases\": " << s.cases << ",\n  \"decks_rejected\": " << s.rejected
      << ",\n  \"msw_wells\": " << s.msw_wells << ",\n  \"msw_wells_gapped_numbering\": " << s.gapped_wells << ",\n  \"msw_wells_permuted_numbering\": " << s.permuted_wells
      << ",\n  \"msw_wells_storage_order_differs_from_numbering\": " << s.wells_storage_order_differs << ",\n  \"branches\": " << s.branches
      << ",\n  \"segments_compared\": " << s.segments_compared << ",\n  \"connections_compared\": " << s.connections_compared
      << ",\n  \"connections_without_result\": " << s.connections_without_result << ",\n  \"shut_wells\": " << s.shut_wells
      << ",\n  \"wells_without_results\": " << s.wells_without_results << ",\n  \"groups_compared\": " << s.groups_compared
      << ",\n  \"rst_segment_sets\": " << s.rst_segment_sets << "\n}\n";
    return 0;
}

// ---------------------------------------------------------------------------------------------
// correspondence: segment -> RSEG / ISEG window.  For every segment of every multi-segment well of a generated model:
//   rstsegwin.win <nsegmx> <nisegz> <nrsegz> <msw index (1-based)> <storage index> <segment number>
// answered by the model with "<writer ISEG start> <writer RSEG start> <LoadRestart RSEG start> <RstWell ISEG start> <RstWell RSEG start>"
// (flat positions in the whole array, evaluated from the index expressions the translator extracted), and by the harness
// with the flat positions at which the REAL arrays hold the segment (RSEG: the segment's own marker pressure; ISEG: the
// window whose BranchNo / OutSeg are the segment's), five times the same number pair.
int run_corr(uint64_t seed, const std::string& tier, const std::string& outdir)
{
    vh::Sink sink(outdir);
    const int ncases = tier == "thorough" ? 200 : 24;
    const std::string workdir = outdir + "/dyn_corr_work";
    for (int c = 0; c < ncases; ++c) {
        vh::Rng rng(seed * 1000003ull + 7919ull * static_cast<uint64_t>(c) + 29);
        const auto gm = make_model(rng, c);
        std::unique_ptr<Case> csp;
        try { csp = std::make_unique<Case>(gm.deck); } catch (const std::exception&) { sink.count("decks_rejected"); continue; }
        Case& cs = *csp;
        cs.es.getIOConfig().setEclCompatibleRST(false);
        std::filesystem::remove_all(workdir); std::filesystem::create_directories(workdir);
        Dyn dyn;
        make_dyn(rng, cs, 0, dyn);
        SavedFile sf;
        if (!save_case(rng, cs, dyn, 1, workdir, false, true, true, sf, nullptr, "")) { sink.count("save_failed"); continue; }
        Opm::EclIO::ERst erst(sf.fname);
        auto ih = erst.getRestartData<int>("INTEHEAD", 1, 0);
        const auto& iseg = erst.getRestartData<int>("ISEG", 1, 0);
        const auto& rseg = erst.getRestartData<double>("RSEG", 1, 0);
        const auto& iwel = erst.getRestartData<int>("IWEL", 1, 0);
        const int nsegmx = ih[VI::intehead::NSEGMX], nisegz = ih[VI::intehead::NISEGZ], nrsegz = ih[VI::intehead::NRSEGZ], niwelz = ih[VI::intehead::NIWELZ];
        const auto& us = cs.es.getUnits();
        const auto wells = cs.sched.getWells(0);
        for (std::size_t wi = 0; wi < wells.size(); ++wi) {
            const auto& well = wells[wi];
            if (!well.isMultiSegment()) continue;
            const int msw = iwel[wi * niwelz + VI::IWell::index::MsWID];
            const auto& segs = well.getSegments();
            sink.count("msw_wells");
            for (std::size_t sidx = 0; sidx < segs.size(); ++sidx) {
                const int segno = segs[sidx].segmentNumber();
                const auto it = dyn.seg.find({well.name(), segno});
                if (it == dyn.seg.end()) continue;           // shut / unreported well: no marker
                const double marker = us.from_si(M::pressure, it->second.p);
                long rpos = -1, ipos = -1; int rhits = 0, ihits = 0;
                for (int w = 0; w < nsegmx; ++w) {
                    const std::size_t ro = static_cast<std::size_t>(nrsegz) * (w + static_cast<std::size_t>(msw - 1) * nsegmx);
                    if (rseg[ro + VI::RSeg::index::Pressure] == marker) { rpos = static_cast<long>(ro); ++rhits; }
                    const std::size_t io = static_cast<std::size_t>(nisegz) * (w + static_cast<std::size_t>(msw - 1) * nsegmx);
                    // (outlet, branch) identifies a segment: a branch is a chain, one inlet per outlet on the same branch
                    if (iseg[io + VI::ISeg::index::BranchNo] == segs[sidx].branchNumber() && iseg[io + VI::ISeg::index::OutSeg] == segs[sidx].outletSegment()) { ipos = static_cast<long>(io); ++ihits; }
                }
                if (rhits != 1 || ihits != 1) { sink.count("ambiguous_marker"); continue; }
                sink.count("segments");
                if (segno != static_cast<int>(sidx) + 1) sink.count("segments_number_differs_from_position");
                std::ostringstream op, an;
                op << "rstsegwin.win " << nsegmx << " " << nisegz << " " << nrsegz << " " << msw << " " << sidx << " " << segno;
                an << ipos << " " << rpos << " " << rpos << " " << ipos << " " << rpos;
                sink.emit(op.str(), an.str());
            }
        }
        std::filesystem::remove_all(workdir);
    }
    sink.writeStats(outdir + "/stats.json");
    return 0;
}

} // namespace

int main(int argc, char** argv)
{
    if (argc < 4) { std::cerr << "usage: rstdyn corr|prop <seed> <tier> <outdir> | rstdyn one <seed> <case>\n"; return 2; }
    const std::string mode = argv[1];
    const uint64_t seed = std::strtoull(argv[2], nullptr, 10);
    try {
        if (mode == "one") {
            const std::string outdir = std::filesystem::temp_directory_path().string() + "/rstdyn_one_" + std::to_string(seed) + "_" + argv[3];
            std::filesystem::create_directories(outdir);
            { vh::PropLog log(outdir + "/prop.txt"); Stats s; prop_case(seed, std::atoi(argv[3]), log, s, outdir + "/dyn_work", true);
              std::cout << "checked " << log.checked << " failed " << log.failed << "\n"; }
            std::cout << vh::slurp(outdir + "/prop.txt");
            std::filesystem::remove_all(outdir);
            return 0;
        }
        if (argc < 5) return 2;
        const std::string tier = argv[3], outdir = argv[4];
        std::filesystem::create_directories(outdir);
        if (mode == "corr") return run_corr(seed, tier, outdir);
        if (mode == "prop") return run_prop(seed, tier, outdir);
    } catch (const std::exception& e) {
        std::cerr << "harness error: " << e.what() << "\n";
        return 3;
    }
    return 2;
}
