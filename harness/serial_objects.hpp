// C11 harness, object level (property mode on the real code alone).
//
// For Schedule / EclipseState / SummaryConfig built from shipped decks (tests/*.DATA of the
// working tree) and from generated decks, and for random dynamic states (SummaryState, UDQState,
// Action::State, WellTestState, RestartValue):
//     pack -> unpack into a fresh default-constructed object ->
//        position()==buffer size, operator== (where it exists), identical answers to a sweep of
//        public queries, re-pack: same length and (modulo the addresses written for shared_ptr,
//        and modulo the order of unordered containers) the same bytes.
#pragma once
#include "common/vh.hpp"
#include "serial_codec.hpp"

#include <opm/common/OpmLog/KeywordLocation.hpp>
#include <opm/common/utility/MemPacker.hpp>
#include <opm/common/utility/OpmInputError.hpp>
#include <opm/common/utility/Serializer.hpp>
#include <opm/common/utility/TimeService.hpp>
#include <opm/input/eclipse/Deck/Deck.hpp>
#include <opm/input/eclipse/Deck/DeckItem.hpp>
#include <opm/input/eclipse/Deck/DeckKeyword.hpp>
#include <opm/input/eclipse/Deck/DeckRecord.hpp>
#include <opm/input/eclipse/EclipseState/Aquifer/Aquancon.hpp>
#include <opm/input/eclipse/EclipseState/Aquifer/AquiferCT.hpp>
#include <opm/input/eclipse/EclipseState/Aquifer/AquiferConfig.hpp>
#include <opm/input/eclipse/EclipseState/Aquifer/Aquifetp.hpp>
#include <opm/input/eclipse/EclipseState/Aquifer/NumericalAquifer/NumericalAquiferCell.hpp>
#include <opm/input/eclipse/EclipseState/EclipseConfig.hpp>
#include <opm/input/eclipse/EclipseState/EclipseState.hpp>
#include <opm/input/eclipse/EclipseState/Grid/EclipseGrid.hpp>
#include <opm/input/eclipse/EclipseState/Grid/FIPRegionStatistics.hpp>
#include <opm/input/eclipse/EclipseState/Grid/FaceDir.hpp>
#include <opm/input/eclipse/EclipseState/Grid/Fault.hpp>
#include <opm/input/eclipse/EclipseState/Grid/FaultCollection.hpp>
#include <opm/input/eclipse/EclipseState/Grid/FaultFace.hpp>
#include <opm/input/eclipse/EclipseState/Grid/FieldPropsManager.hpp>
#include <opm/input/eclipse/EclipseState/Grid/MULTREGTScanner.hpp>
#include <opm/input/eclipse/EclipseState/Grid/NNC.hpp>
#include <opm/input/eclipse/EclipseState/Grid/TranCalculator.hpp>
#include <opm/input/eclipse/EclipseState/Grid/TransMult.hpp>
#include <opm/input/eclipse/EclipseState/IOConfig/IOConfig.hpp>
#include <opm/input/eclipse/EclipseState/InitConfig/Equil.hpp>
#include <opm/input/eclipse/EclipseState/InitConfig/FoamConfig.hpp>
#include <opm/input/eclipse/EclipseState/InitConfig/InitConfig.hpp>
#include <opm/input/eclipse/EclipseState/Runspec.hpp>
#include <opm/input/eclipse/EclipseState/SimulationConfig/BCConfig.hpp>
#include <opm/input/eclipse/EclipseState/SimulationConfig/DatumDepth.hpp>
#include <opm/input/eclipse/EclipseState/SimulationConfig/RockConfig.hpp>
#include <opm/input/eclipse/EclipseState/SimulationConfig/SimulationConfig.hpp>
#include <opm/input/eclipse/EclipseState/SimulationConfig/ThresholdPressure.hpp>
#include <opm/input/eclipse/EclipseState/SummaryConfig/SummaryConfig.hpp>
#include <opm/input/eclipse/EclipseState/Tables/Aqudims.hpp>
#include <opm/input/eclipse/EclipseState/Tables/ColumnSchema.hpp>
#include <opm/input/eclipse/EclipseState/Tables/DenT.hpp>
#include <opm/input/eclipse/EclipseState/Tables/Eqldims.hpp>
#include <opm/input/eclipse/EclipseState/Tables/EzrokhiTable.hpp>
#include <opm/input/eclipse/EclipseState/Tables/FlatTable.hpp>
#include <opm/input/eclipse/EclipseState/Tables/JFunc.hpp>
#include <opm/input/eclipse/EclipseState/Tables/PlymwinjTable.hpp>
#include <opm/input/eclipse/EclipseState/Tables/PlyshlogTable.hpp>
#include <opm/input/eclipse/EclipseState/Tables/PvtgTable.hpp>
#include <opm/input/eclipse/EclipseState/Tables/PvtoTable.hpp>
#include <opm/input/eclipse/EclipseState/Tables/Regdims.hpp>
#include <opm/input/eclipse/EclipseState/Tables/Rock2dTable.hpp>
#include <opm/input/eclipse/EclipseState/Tables/Rock2dtrTable.hpp>
#include <opm/input/eclipse/EclipseState/Tables/RocktabTable.hpp>
#include <opm/input/eclipse/EclipseState/Tables/SimpleTable.hpp>
#include <opm/input/eclipse/EclipseState/Tables/SkprpolyTable.hpp>
#include <opm/input/eclipse/EclipseState/Tables/SkprwatTable.hpp>
#include <opm/input/eclipse/EclipseState/Tables/Tabdims.hpp>
#include <opm/input/eclipse/EclipseState/Tables/TableColumn.hpp>
#include <opm/input/eclipse/EclipseState/Tables/TableContainer.hpp>
#include <opm/input/eclipse/EclipseState/Tables/TableManager.hpp>
#include <opm/input/eclipse/EclipseState/Tables/TableSchema.hpp>
#include <opm/input/eclipse/EclipseState/TracerConfig.hpp>
#include <opm/input/eclipse/Parser/ErrorGuard.hpp>
#include <opm/input/eclipse/Parser/InputErrorAction.hpp>
#include <opm/input/eclipse/Parser/ParseContext.hpp>
#include <opm/input/eclipse/Parser/Parser.hpp>
#include <opm/input/eclipse/Python/Python.hpp>
#include <opm/input/eclipse/Schedule/Action/ASTNode.hpp>
#include <opm/input/eclipse/Schedule/Action/ActionAST.hpp>
#include <opm/input/eclipse/Schedule/Action/ActionResult.hpp>
#include <opm/input/eclipse/Schedule/Action/ActionX.hpp>
#include <opm/input/eclipse/Schedule/Action/Actions.hpp>
#include <opm/input/eclipse/Schedule/Action/Condition.hpp>
#include <opm/input/eclipse/Schedule/Action/PyAction.hpp>
#include <opm/input/eclipse/Schedule/Action/State.hpp>
#include <opm/input/eclipse/Schedule/Events.hpp>
#include <opm/input/eclipse/Schedule/GasLiftOpt.hpp>
#include <opm/input/eclipse/Schedule/Group/GConSale.hpp>
#include <opm/input/eclipse/Schedule/Group/GConSump.hpp>
#include <opm/input/eclipse/Schedule/Group/Group.hpp>
#include <opm/input/eclipse/Schedule/Group/GroupEconProductionLimits.hpp>
#include <opm/input/eclipse/Schedule/Group/GuideRate.hpp>
#include <opm/input/eclipse/Schedule/Group/GuideRateConfig.hpp>
#include <opm/input/eclipse/Schedule/Group/GuideRateModel.hpp>
#include <opm/input/eclipse/Schedule/MSW/AICD.hpp>
#include <opm/input/eclipse/Schedule/MSW/SICD.hpp>
#include <opm/input/eclipse/Schedule/MSW/Valve.hpp>
#include <opm/input/eclipse/Schedule/MSW/WellSegments.hpp>
#include <opm/input/eclipse/Schedule/MSW/icd.hpp>
#include <opm/input/eclipse/Schedule/MessageLimits.hpp>
#include <opm/input/eclipse/Schedule/Network/Balance.hpp>
#include <opm/input/eclipse/Schedule/Network/ExtNetwork.hpp>
#include <opm/input/eclipse/Schedule/Network/Node.hpp>
#include <opm/input/eclipse/Schedule/OilVaporizationProperties.hpp>
#include <opm/input/eclipse/Schedule/RFTConfig.hpp>
#include <opm/input/eclipse/Schedule/RPTConfig.hpp>
#include <opm/input/eclipse/Schedule/RSTConfig.hpp>
#include <opm/input/eclipse/Schedule/ResCoup/ReservoirCouplingInfo.hpp>
#include <opm/input/eclipse/Schedule/Schedule.hpp>
#include <opm/input/eclipse/Schedule/ScheduleState.hpp>
#include <opm/input/eclipse/Schedule/ScheduleTypes.hpp>
#include <opm/input/eclipse/Schedule/SummaryState.hpp>
#include <opm/input/eclipse/Schedule/Tuning.hpp>
#include <opm/input/eclipse/Schedule/UDQ/UDQASTNode.hpp>
#include <opm/input/eclipse/Schedule/UDQ/UDQActive.hpp>
#include <opm/input/eclipse/Schedule/UDQ/UDQAssign.hpp>
#include <opm/input/eclipse/Schedule/UDQ/UDQConfig.hpp>
#include <opm/input/eclipse/Schedule/UDQ/UDQDefine.hpp>
#include <opm/input/eclipse/Schedule/UDQ/UDQFunction.hpp>
#include <opm/input/eclipse/Schedule/UDQ/UDQFunctionTable.hpp>
#include <opm/input/eclipse/Schedule/UDQ/UDQInput.hpp>
#include <opm/input/eclipse/Schedule/UDQ/UDQSet.hpp>
#include <opm/input/eclipse/Schedule/UDQ/UDQState.hpp>
#include <opm/input/eclipse/Schedule/VFPInjTable.hpp>
#include <opm/input/eclipse/Schedule/VFPProdTable.hpp>
#include <opm/input/eclipse/Schedule/Well/Connection.hpp>
#include <opm/input/eclipse/Schedule/Well/FilterCake.hpp>
#include <opm/input/eclipse/Schedule/Well/NameOrder.hpp>
#include <opm/input/eclipse/Schedule/Well/PAvg.hpp>
#include <opm/input/eclipse/Schedule/Well/WDFAC.hpp>
#include <opm/input/eclipse/Schedule/Well/WList.hpp>
#include <opm/input/eclipse/Schedule/Well/WListManager.hpp>
#include <opm/input/eclipse/Schedule/Well/WVFPDP.hpp>
#include <opm/input/eclipse/Schedule/Well/WVFPEXP.hpp>
#include <opm/input/eclipse/Schedule/Well/Well.hpp>
#include <opm/input/eclipse/Schedule/Well/WellBrineProperties.hpp>
#include <opm/input/eclipse/Schedule/Well/WellConnections.hpp>
#include <opm/input/eclipse/Schedule/Well/WellEconProductionLimits.hpp>
#include <opm/input/eclipse/Schedule/Well/WellFoamProperties.hpp>
#include <opm/input/eclipse/Schedule/Well/WellMICPProperties.hpp>
#include <opm/input/eclipse/Schedule/Well/WellMatcher.hpp>
#include <opm/input/eclipse/Schedule/Well/WellPolymerProperties.hpp>
#include <opm/input/eclipse/Schedule/Well/WellTestConfig.hpp>
#include <opm/input/eclipse/Schedule/Well/WellTestState.hpp>
#include <opm/input/eclipse/Schedule/Well/WellTracerProperties.hpp>
#include <opm/input/eclipse/Schedule/WriteRestartFileEvents.hpp>
#include <opm/input/eclipse/Units/Dimension.hpp>
#include <opm/input/eclipse/Units/UnitSystem.hpp>
#include <opm/output/data/Aquifer.hpp>
#include <opm/output/data/Groups.hpp>
#include <opm/output/data/Solution.hpp>
#include <opm/output/data/Wells.hpp>
#include <opm/output/eclipse/RestartValue.hpp>

#include <cmath>
#include <filesystem>
#include <regex>
#include <iostream>
#include <sstream>

namespace so {

using sc::Packer;
using sc::Ser;
namespace fs = std::filesystem;

struct Dump {
    std::ostringstream o;
    void kv(const std::string& k, const std::string& v) { o << k << '=' << v << '\n'; }
    void kv(const std::string& k, double v) { o << k << '=' << vh::hexF64(v) << '\n'; }
    void kv(const std::string& k, long long v) { o << k << '=' << v << '\n'; }
    void kv(const std::string& k, int v) { o << k << '=' << v << '\n'; }
    void kv(const std::string& k, std::size_t v) { o << k << '=' << v << '\n'; }
    void kv(const std::string& k, bool v) { o << k << '=' << (v ? 1 : 0) << '\n'; }
    template <class F> void guarded(const std::string& k, F&& f) {
        try { f(); } catch (const std::exception&) { o << k << "=throws\n"; }
    }
    std::string str() const { return o.str(); }
};

inline std::string join(const std::vector<std::string>& v) { std::string s; for (auto& x : v) { s += x; s += ','; } return s; }
inline std::string joinSorted(std::vector<std::string> v) { std::sort(v.begin(), v.end()); return join(v); }

// first differing line of two dumps
inline std::string firstDiff(const std::string& a, const std::string& b) {
    std::istringstream ia(a), ib(b);
    std::string la, lb; size_t n = 0;
    while (true) {
        bool ha = static_cast<bool>(std::getline(ia, la)), hb = static_cast<bool>(std::getline(ib, lb));
        ++n;
        if (!ha && !hb) return "";
        if (!ha || !hb || la != lb)
            return "line " + std::to_string(n) + ": original `" + (ha ? la : "<end>") + "` copy `" + (hb ? lb : "<end>") + "`";
    }
}

inline std::string udaStr(const Opm::UDAValue& u) {
    if (u.is_numeric()) return vh::hexF64(u.get<double>()) + "/" + vh::hexF64(u.get_dim().getSIScaling());
    if (u.is<std::string>()) return u.get<std::string>();
    return "undefined";
}

// distinct (normalised) query names whose answers differ, each with its first example
inline std::string normKey(const std::string& k) {
    static const std::vector<std::pair<std::regex, std::string>> rules{
        { std::regex("^t[0-9]+\\."), "" }, { std::regex("(^|\\.)w\\.[^.]+\\."), "$1w." }, { std::regex("(^|\\.)g\\.[^.]+\\."), "$1g." },
        { std::regex("(^|\\.)gecon\\.[^.]+\\."), "$1gecon." }, { std::regex("(^|\\.)[WGN][0-9]+\\."), "$1X." }, { std::regex("\\.[0-9]+$"), ".n" }, { std::regex("(^|\\.)[cs][0-9]+\\."), "$1c." } };
    std::string r = k;
    for (const auto& [re, to] : rules) r = std::regex_replace(r, re, to);
    return r;
}
inline std::map<std::string, std::string> diffKeys(const std::string& a, const std::string& b) {
    std::map<std::string, std::string> out;
    std::istringstream ia(a), ib(b);
    std::string la, lb; size_t n = 0;
    while (true) {
        const bool ha = static_cast<bool>(std::getline(ia, la)), hb = static_cast<bool>(std::getline(ib, lb));
        ++n;
        if (!ha && !hb) break;
        if (!ha || !hb) { out.emplace("linecount", "line " + std::to_string(n) + ": one sweep is shorter"); break; }
        if (la != lb) {
            const std::string ka = la.substr(0, la.find('=')), kb = lb.substr(0, lb.find('='));
            if (ka != kb) { out.emplace("structure", "line " + std::to_string(n) + ": original `" + la + "` copy `" + lb + "`"); break; }
            out.emplace(normKey(ka), "line " + std::to_string(n) + ": original `" + la + "` copy `" + lb + "`");
        }
    }
    return out;
}

// ---- query sweeps ------------------------------------------------------------------------------

inline void dumpWell(Dump& d, const std::string& p, const Opm::Well& w) {
    d.kv(p + "name", w.name());
    d.kv(p + "group", w.groupName());
    d.kv(p + "status", static_cast<int>(w.getStatus()));
    d.kv(p + "producer", w.isProducer());
    d.kv(p + "injector", w.isInjector());
    d.kv(p + "headI", w.getHeadI());
    d.kv(p + "headJ", w.getHeadJ());
    d.guarded(p + "refdepth", [&] { d.kv(p + "refdepth", w.getRefDepth()); });
    d.kv(p + "efac", w.getEfficiencyFactor());
    d.kv(p + "seqIndex", w.seqIndex());
    d.kv(p + "msw", w.isMultiSegment());
    d.kv(p + "predmode", w.predictionMode());
    d.kv(p + "crossflow", w.getAllowCrossFlow());
    d.kv(p + "autoshut", w.getAutomaticShutIn());
    d.kv(p + "drainage", w.getDrainageRadius());
    d.kv(p + "pvt", w.pvt_table_number());
    d.kv(p + "fip", w.fip_region_number());
    d.kv(p + "vfp", w.vfp_table_number());
    if (w.isProducer()) d.guarded(p + "alq", [&] { d.kv(p + "alq", w.alq_value(Opm::SummaryState{})); });
    const auto& pp = w.getProductionProperties();
    d.kv(p + "prod.cmode", static_cast<int>(pp.controlMode));
    d.kv(p + "prod.whistctl", static_cast<int>(pp.whistctl_cmode));
    d.kv(p + "prod.controls", pp.productionControls());
    d.kv(p + "prod.bhphist", pp.bhp_hist_limit);
    d.kv(p + "prod.bhphist_defaulted", pp.bhp_hist_limit_defaulted);
    d.kv(p + "prod.vfp", pp.VFPTableNumber);
    d.kv(p + "prod.alq", udaStr(pp.ALQValue));
    for (const auto* u : { &pp.OilRate, &pp.WaterRate, &pp.GasRate, &pp.LiquidRate, &pp.ResVRate, &pp.BHPTarget, &pp.THPTarget })
        d.kv(p + "prod.uda", udaStr(*u));
    const auto& ip = w.getInjectionProperties();
    d.kv(p + "inj.cmode", static_cast<int>(ip.controlMode));
    d.kv(p + "inj.type", static_cast<int>(ip.injectorType));
    d.kv(p + "inj.controls", ip.injectionControls);
    d.kv(p + "inj.bhphist", ip.bhp_hist_limit);
    for (const auto* u : { &ip.surfaceInjectionRate, &ip.reservoirInjectionRate, &ip.BHPTarget, &ip.THPTarget })
        d.kv(p + "inj.uda", udaStr(*u));
    const auto& cs = w.getConnections();
    d.kv(p + "nconn", cs.size());
    for (std::size_t i = 0; i < cs.size(); ++i) {
        const auto& c = cs.get(i);
        const std::string q = p + "c" + std::to_string(i) + ".";
        d.kv(q + "ijk", std::to_string(c.getI()) + "," + std::to_string(c.getJ()) + "," + std::to_string(c.getK()));
        d.kv(q + "gi", c.global_index());
        d.kv(q + "state", static_cast<int>(c.state()));
        d.kv(q + "dir", static_cast<int>(c.dir()));
        d.kv(q + "depth", c.depth());
        d.kv(q + "sat", c.satTableId());
        d.kv(q + "complnum", c.complnum());
        d.kv(q + "segment", c.segment());
        d.kv(q + "wpimult", c.wpimult());
        d.kv(q + "CF", c.CF());
        d.kv(q + "Kh", c.Kh());
        d.kv(q + "rw", c.rw());
        d.kv(q + "r0", c.r0());
        d.kv(q + "skin", c.skinFactor());
        d.kv(q + "dfac", c.dFactor());
        d.kv(q + "kind", static_cast<int>(c.kind()));
        d.kv(q + "sort", c.sort_value());
        d.kv(q + "defsat", c.getDefaultSatTabId());
    }
    if (w.isMultiSegment()) {
        const auto& segs = w.getSegments();
        d.kv(p + "nseg", segs.size());
        for (std::size_t i = 0; i < segs.size(); ++i) {
            const auto& s = segs[i];
            const std::string q = p + "s" + std::to_string(i) + ".";
            d.kv(q + "num", s.segmentNumber());
            d.kv(q + "branch", s.branchNumber());
            d.kv(q + "outlet", s.outletSegment());
            d.kv(q + "len", s.totalLength());
            d.kv(q + "depth", s.depth());
            d.kv(q + "diam", s.internalDiameter());
            d.kv(q + "rough", s.roughness());
            d.kv(q + "area", s.crossArea());
            d.kv(q + "vol", s.volume());
            d.kv(q + "type", static_cast<int>(s.segmentType()));
            d.kv(q + "ninlet", s.inletSegments().size());
        }
    }
}

inline void dumpGroup(Dump& d, const std::string& p, const Opm::Group& g) {
    d.kv(p + "name", g.name());
    d.kv(p + "insert", g.insert_index());
    d.kv(p + "parent", g.parent());
    d.kv(p + "wells", join(g.wells()));
    d.kv(p + "groups", join(g.groups()));
    d.kv(p + "efac", g.getGroupEfficiencyFactor());
    d.kv(p + "tefac", g.getTransferGroupEfficiencyFactor());
    d.kv(p + "isprod", g.isProductionGroup());
    d.kv(p + "isinj", g.isInjectionGroup());
    d.kv(p + "type", static_cast<int>(g.getGroupType()));
    d.kv(p + "prod_cmode", static_cast<int>(g.prod_cmode()));
    d.kv(p + "gcontrol", g.productionGroupControlAvailable());
    const auto& pp = g.productionProperties();
    d.kv(p + "prod.controls", pp.production_controls);
    d.kv(p + "prod.guide", pp.guide_rate);
    d.kv(p + "prod.guidedef", static_cast<int>(pp.guide_rate_def));
    d.kv(p + "prod.avail", pp.available_group_control);
    for (const auto* u : { &pp.oil_target, &pp.water_target, &pp.gas_target, &pp.liquid_target })
        d.kv(p + "prod.uda", udaStr(*u));
    for (const auto& [phase, ip] : g.injectionProperties()) {
        const std::string q = p + "inj" + std::to_string(static_cast<int>(phase)) + ".";
        d.kv(q + "cmode", static_cast<int>(ip.cmode));
        d.kv(q + "controls", ip.injection_controls);
        d.kv(q + "avail", ip.available_group_control);
        for (const auto* u : { &ip.surface_max_rate, &ip.resv_max_rate, &ip.target_reinj_fraction, &ip.target_void_fraction })
            d.kv(q + "uda", udaStr(*u));
    }
    d.kv(p + "gpmaint", g.gpmaint().has_value());
}

inline std::string dumpSchedule(const Opm::Schedule& s) {
    Dump d;
    d.kv("size", s.size());
    d.kv("start", static_cast<long long>(s.getStartTime()));
    d.guarded("end", [&] { d.kv("end", static_cast<long long>(s.posixEndTime())); });
    d.kv("exit", s.exitStatus().has_value() ? std::to_string(*s.exitStatus()) : std::string("none"));
    d.kv("allwells", join(s.wellNames()));
    d.kv("allgroups", join(s.groupNames()));
    {
        std::vector<std::string> pf;
        for (const auto& [w, cells] : s.getPossibleFutureConnections()) {
            std::string e = w + ":";
            for (int c : cells) e += std::to_string(c) + "/";
            pf.push_back(e);
        }
        d.kv("possibleFutureConnections", joinSorted(pf));
    }
    for (std::size_t step = 0; step < s.size(); ++step) {
        const std::string p = "t" + std::to_string(step) + ".";
        const auto& st = s[step];
        d.kv(p + "simtime", static_cast<long long>(s.simTime(step)));
        d.kv(p + "seconds", s.seconds(step));
        d.kv(p + "start_ms", static_cast<long long>(st.start_time().time_since_epoch().count()));
        if (step + 1 < s.size()) {
            d.kv(p + "steplen", s.stepLength(step));
            d.kv(p + "end_ms", static_cast<long long>(st.end_time().time_since_epoch().count()));
        }
        d.kv(p + "simstep", st.sim_step());
        d.kv(p + "month", st.month_num());
        d.kv(p + "year", st.year_num());
        d.kv(p + "firstinmonth", st.first_in_month());
        d.kv(p + "firstinyear", st.first_in_year());
        d.kv(p + "rst", s.write_rst_file(step));
        d.kv(p + "nupcol", st.nupcol());
        d.kv(p + "events", static_cast<long long>(0));
        for (uint64_t bit = 1; bit != 0 && bit <= (1ull << 40); bit <<= 1)
            if (st.events().hasEvent(bit)) d.kv(p + "event", static_cast<long long>(bit));
        d.kv(p + "whistctl", static_cast<int>(s.getGlobalWhistctlMmode(step)));
        d.kv(p + "sumthin", st.sumthin().has_value() ? vh::hexF64(*st.sumthin()) : std::string("none"));
        d.kv(p + "rptonly", st.rptonly());
        d.kv(p + "tuning.tsinit", st.tuning().TSINIT.has_value() ? vh::hexF64(*st.tuning().TSINIT) : std::string("none"));
        d.kv(p + "tuning.tsmaxz", st.tuning().TSMAXZ);
        d.kv(p + "tuning.newtmx", st.tuning().NEWTMX);
        d.kv(p + "oilvap.type", static_cast<int>(st.oilvap().getType()));
        d.kv(p + "wtest.empty", st.wtest_config().empty());
        d.kv(p + "glo.active", st.glo().active());
        d.kv(p + "network.active", st.network().active());
        d.kv(p + "rft.active", st.rft_config().active());
        d.kv(p + "gecon.size", st.gecon().size());
        for (const auto& gname : s.groupNames(step)) {
            if (st.gecon().has_group(gname)) {
                const auto& gp = st.gecon().get_group(gname);
                d.kv(p + "gecon." + gname + ".reportStep", gp.reportStep());
                d.kv(p + "gecon." + gname + ".endRun", gp.endRun());
            }
        }
        d.kv(p + "wells", join(s.wellNames(step)));
        d.kv(p + "groups", join(s.groupNames(step)));
        d.kv(p + "wlist.well_order", join(st.well_order().names()));
        for (const auto& wname : s.wellNames(step))
            dumpWell(d, p + "w." + wname + ".", s.getWell(wname, step));
        for (const auto& gname : s.groupNames(step))
            dumpGroup(d, p + "g." + gname + ".", s.getGroup(gname, step));
        // UDQ
        const auto& udq = st.udq();
        d.kv(p + "udq.size", udq.size());
        for (const auto& def : udq.definitions()) {
            d.kv(p + "udq.def", def.keyword() + " := " + def.input_string());
            d.kv(p + "udq.def.type", static_cast<int>(def.var_type()));
        }
        for (const auto& asg : udq.assignments()) d.kv(p + "udq.assign", asg.keyword());
        for (const char* k : { "FU1", "FU2", "WU1" }) d.kv(p + "udq.has_unit." + k, udq.has_unit(k));
        d.kv(p + "udq.undef", udq.params().undefinedValue());
        // actions
        const auto& acts = st.actions();
        d.kv(p + "actions.size", acts.ecl_size());
        for (const auto& a : acts) {
            d.kv(p + "action", a.name());
            d.kv(p + "action.max_run", a.max_run());
            d.kv(p + "action.min_wait", a.min_wait());
            d.kv(p + "action.start", static_cast<long long>(a.start_time()));
            d.kv(p + "action.id", a.id());
            d.kv(p + "action.nkw", static_cast<std::size_t>(std::distance(a.begin(), a.end())));
            std::string conds;
            for (const auto& c : a.conditions()) conds += c.cmp_string + "|" + c.lhs.quantity + "|" + c.rhs.quantity + ";";
            d.kv(p + "action.conditions", conds);
            { std::unordered_set<std::string> req; a.required_summary(req); d.kv(p + "action.required", joinSorted(std::vector<std::string>(req.begin(), req.end()))); }
        }
    }
    return d.str();
}

inline std::string dumpEclipseState(const Opm::EclipseState& es) {
    Dump d;
    const auto& rs = es.runspec();
    d.kv("title", es.getTitle());
    d.kv("units", es.getUnits().getName());
    d.kv("deckunits", es.getDeckUnitSystem().getName());
    d.kv("phases", static_cast<int>(rs.phases().size()));
    d.kv("start", static_cast<long long>(rs.start_time()));
    d.kv("ntpvt", rs.tabdims().getNumPVTTables());
    d.kv("ntsfun", rs.tabdims().getNumSatTables());
    d.kv("wellmax", rs.wellDimensions().maxWellsInField());
    d.kv("conmax", rs.wellDimensions().maxConnPerWell());
    d.kv("netw.active", rs.networkDimensions().active());
    d.kv("netw.extended", rs.networkDimensions().extendedNetwork());
    d.kv("netw.standard", rs.networkDimensions().standardNetwork());
    d.kv("netw.maxnodes", rs.networkDimensions().maxNONodes());
    d.kv("netw.maxbranch", rs.networkDimensions().maxNoBranches());
    d.kv("udq.undef", rs.udqParams().undefinedValue());
    d.kv("hyst", rs.hysterPar().active());
    d.kv("actdims", rs.actdims().max_keywords());
    d.kv("co2", rs.co2Storage());
    d.kv("micp", rs.micp());
    d.kv("restart_net_pressures", es.getRestartNetworkPressures().has_value());
    const auto& tm = es.getTableManager();
    d.kv("tab.swof", tm.getSwofTables().size());
    d.kv("tab.sgof", tm.getSgofTables().size());
    d.kv("tab.pvdo", tm.getPvdoTables().size());
    d.kv("tab.pvdg", tm.getPvdgTables().size());
    d.kv("tab.pvto", tm.getPvtoTables().size());
    d.kv("tab.pvtg", tm.getPvtgTables().size());
    d.kv("tab.pvtw", tm.getPvtwTable().size());
    d.kv("tab.density", tm.getDensityTable().size());
    d.kv("tab.rock", tm.getRockTable().size());
    if (tm.getDensityTable().size() > 0) {
        d.kv("tab.density.oil", tm.getDensityTable()[0].oil);
        d.kv("tab.density.water", tm.getDensityTable()[0].water);
        d.kv("tab.density.gas", tm.getDensityTable()[0].gas);
    }
    for (std::size_t i = 0; i < tm.getSwofTables().size(); ++i) {
        const auto& t = tm.getSwofTables()[i];
        d.kv("tab.swof.rows", t.numRows());
        for (std::size_t c = 0; c < t.numColumns(); ++c)
            for (std::size_t r = 0; r < t.numRows(); ++r) d.kv("tab.swof.v", t.get(c, r));
    }
    d.kv("tab.eqldims", tm.getEqldims().getNumEquilRegions());
    d.kv("tab.regdims", tm.getRegdims().getNTFIP());
    d.kv("tab.stcond.T", tm.stCond().temperature);
    d.kv("tab.stcond.p", tm.stCond().pressure);
    d.kv("tab.gas_comp", tm.gas_comp_index());
    const auto& sim = es.getSimulationConfig();
    d.kv("sim.thermal", sim.isThermal());
    d.kv("sim.disgas", sim.hasDISGAS());
    d.kv("sim.vapoil", sim.hasVAPOIL());
    d.kv("sim.cpr", sim.useCPR());
    d.kv("sim.thpres", sim.useThresholdPressure());
    d.kv("sim.thpres.size", sim.getThresholdPressure().size());
    const auto& io = es.getIOConfig();
    d.kv("io.fmtout", io.getFMTOUT());
    d.kv("io.unifout", io.getUNIFOUT());
    d.kv("io.base", io.getBaseName());
    d.kv("io.nosim", io.initOnly());
    d.kv("io.egrid", io.getWriteEGRIDFile());
    d.kv("io.init", io.getWriteINITFile());
    const auto& ic = es.getInitConfig();
    d.kv("init.equil", ic.hasEquil());
    if (ic.hasEquil()) {
        d.kv("init.equil.size", ic.getEquil().size());
        for (std::size_t i = 0; i < ic.getEquil().size(); ++i) {
            const auto& r = ic.getEquil().getRecord(i);
            d.kv("init.equil.datum", r.datumDepth());
            d.kv("init.equil.p", r.datumDepthPressure());
            d.kv("init.equil.woc", r.waterOilContactDepth());
            d.kv("init.equil.goc", r.gasOilContactDepth());
        }
    }
    d.kv("init.restart", ic.restartRequested());
    d.kv("init.filleps", ic.filleps());
    d.kv("nnc.input", es.getInputNNC().input().size());
    d.kv("faults", es.getFaults().size());
    d.kv("aquifer.active", es.aquifer().active());
    d.kv("aquifer.ct", es.aquifer().ct().size());
    d.kv("aquifer.fetp", es.aquifer().fetp().size());
    d.kv("tracer", es.tracer().size());
    d.kv("lgrs", es.getLgrs().size());
    return d.str();
}

inline std::string dumpSummaryConfig(const Opm::SummaryConfig& sc) {
    Dump d;
    d.kv("size", sc.size());
    d.kv("runsum", sc.createRunSummary());
    d.kv("keywords*", sc.keywords("*").size());
    d.kv("keywordsW*", sc.keywords("W*").size());
    for (const auto& n : sc) {
        d.kv("node", n.uniqueNodeKey());
        d.kv("node.kw", n.keyword());
        d.kv("node.cat", static_cast<int>(n.category()));
        d.kv("node.type", static_cast<int>(n.type()));
        d.kv("node.name", n.namedEntity());
        d.kv("node.num", n.number());
        d.kv("node.ud", n.isUserDefined());
    }
    for (const char* k : { "WOPR", "FOPT", "GOPR", "BPR", "WBHP", "RPR" }) {
        d.kv(std::string("has.") + k, sc.hasKeyword(k));
        d.kv(std::string("match.") + k, sc.match(std::string(k) + "*"));
    }
    d.kv("require3d.PRESSURE", sc.require3DField("PRESSURE"));
    d.kv("require3d.SWAT", sc.require3DField("SWAT"));
    return d.str();
}

// Byte comparison modes.  EXACT: pointer-free, ordered content.  MODULO_PTR: the buffers may differ
// only in the 8-byte addresses that the shared_ptr handler writes, and the renaming original ->
// copy must be a bijection (same aliasing graph).  LENGTH: the class holds unordered containers
// whose iteration order legitimately changes; only the length is compared.
enum { EXACT = 0, MODULO_PTR = 1, LENGTH = 2 };

inline bool looksLikeHeapPtr(const std::vector<char>& b, std::size_t s) {
    if (s + 8 > b.size()) return false;
    const unsigned char b5 = static_cast<unsigned char>(b[s + 5]);
    return b[s + 6] == 0 && b[s + 7] == 0 && (b5 == 0x55 || b5 == 0x56 || b5 == 0x7f || b5 == 0x7e) && (static_cast<unsigned char>(b[s]) & 0x7) == 0;
}
inline bool equalModuloPointers(const std::vector<char>& a, const std::vector<char>& b, std::string& why, std::map<std::string, long>& stats) {
    if (a.size() != b.size()) { why = "length"; return false; }
    std::map<uint64_t, uint64_t> fwd, bwd;
    std::size_t i = 0;
    while (i < a.size()) {
        if (a[i] == b[i]) { ++i; continue; }
        bool found = false;
        for (std::size_t back = 0; back < 6 && back <= i; ++back) {
            const std::size_t s = i - back;
            if (looksLikeHeapPtr(a, s) && looksLikeHeapPtr(b, s)) {
                uint64_t pa, pb; std::memcpy(&pa, a.data() + s, 8); std::memcpy(&pb, b.data() + s, 8);
                auto f = fwd.find(pa); auto g = bwd.find(pb);
                if ((f != fwd.end() && f->second != pb) || (g != bwd.end() && g->second != pa)) {
                    why = "aliasing differs at offset " + std::to_string(s); return false;
                }
                fwd[pa] = pb; bwd[pb] = pa;
                i = s + 8; found = true; stats["pointer_fields_renamed"]++;
                break;
            }
        }
        if (!found) {
            const std::size_t lo = i >= 24 ? i - 24 : 0, hi = std::min(a.size(), i + 16);
            why = "offset " + std::to_string(i) + " of " + std::to_string(a.size()) + " original[" + std::to_string(lo) + "..]=" +
                  vh::hex(reinterpret_cast<const unsigned char*>(a.data()) + lo, hi - lo) + " repacked=" +
                  vh::hex(reinterpret_cast<const unsigned char*>(b.data()) + lo, hi - lo);
            return false;
        }
    }
    return true;
}

// ---- the round-trip predicate --------------------------------------------------------------------

struct Stats { std::map<std::string, long>& m; };

// Bytes are compared after the unpacked copy has itself been packed twice: the addresses that
// shared_ptr handling writes into the buffer differ between two objects, so "same bytes" is
// decided on   pack(copy)  vs  pack(unpack(pack(copy)))   only for length, and structurally through
// == and the query sweep.  `exactBytes` is set for pointer-free classes.
template <class T, class DumpF, class EqF>
void roundTrip(const std::string& key, const std::string& tag, const T& orig, vh::PropLog& plog, std::map<std::string, long>& stats,
               DumpF&& dump, EqF&& equal, int byteMode) {
    const std::string in = " [" + tag + "]";
    // one FAIL line per distinct key (first instance); further instances are only counted
    struct Once { vh::PropLog& p; std::map<std::string, long>& st; void fail(const std::string& k, const std::string& d) {
        static std::set<std::string> seen; if (seen.insert(k).second) p.fail(k, d); else { ++p.failed; st["repeat." + k]++; } } void ok() { p.ok(); } };
    Once once{plog, stats};
    Packer packer; Ser ser(packer);
    ser.pack(orig);
    const std::vector<char> buf = ser.buffer();
    const std::size_t posPack = ser.position();
    T copy{};
    try {
        ser.unpack(copy);
    } catch (const std::exception& e) {
        once.fail(key + ".unpack_throws", std::string("unpack throws: ") + typeid(e).name() + in);
        return;
    }
    const std::size_t posUnpack = ser.position();
    stats["objects"]++;
    stats["object_bytes"] += static_cast<long>(buf.size());
    bool bad = false;
    // re-pack first, before any query touches the lazily filled caches some classes serialize
    Packer p2; Ser ser2(p2);
    ser2.pack(copy);
    if (posPack != buf.size()) { once.fail(key + ".packsize", "PACK ended at " + std::to_string(posPack) + " in a buffer of " + std::to_string(buf.size()) + in); bad = true; }
    if (posUnpack != buf.size()) { once.fail(key + ".consumed", "UNPACK consumed " + std::to_string(posUnpack) + " of " + std::to_string(buf.size()) + " bytes" + in); bad = true; }
    if (ser2.buffer().size() != buf.size()) { once.fail(key + ".repack_length", "re-packed length " + std::to_string(ser2.buffer().size()) + " != " + std::to_string(buf.size()) + in); bad = true; }
    else if (byteMode == MODULO_PTR) {
        std::string why;
        if (!equalModuloPointers(buf, ser2.buffer(), why, stats)) { once.fail(key + ".repack_bytes", "re-packed bytes differ (beyond a consistent renaming of shared_ptr addresses): " + why + in); bad = true; }
    }
    else if (byteMode == EXACT && ser2.buffer() != buf) {
        std::size_t i = 0; while (i < buf.size() && buf[i] == ser2.buffer()[i]) ++i;
        const std::size_t lo = i >= 24 ? i - 24 : 0, hi = std::min(buf.size(), i + 16);
        once.fail(key + ".repack_bytes", "re-packed bytes differ first at offset " + std::to_string(i) + " of " + std::to_string(buf.size()) +
                  " original[" + std::to_string(lo) + "..]=" + vh::hex(reinterpret_cast<const unsigned char*>(buf.data()) + lo, hi - lo) +
                  " repacked=" + vh::hex(reinterpret_cast<const unsigned char*>(ser2.buffer().data()) + lo, hi - lo) + in); bad = true;
    }
    std::string eqDetail;
    if (!equal(orig, copy, eqDetail)) {
        // eqDetail may start with "@suffix " to refine the key (a recognised cause)
        std::string suffix;
        if (!eqDetail.empty() && eqDetail[0] == '@') { const auto sp = eqDetail.find(' '); suffix = "." + eqDetail.substr(1, sp == std::string::npos ? std::string::npos : sp - 1); eqDetail = sp == std::string::npos ? std::string() : eqDetail.substr(sp); }
        once.fail(key + ".equal" + suffix, "copy != original under operator==" + eqDetail + in); bad = true;
    }
    std::string d1, d2;
    try { d1 = dump(orig); } catch (const std::exception& e) { d1 = std::string("QUERY-SWEEP-THROWS ") + e.what() + "\n"; }
    try { d2 = dump(copy); } catch (const std::exception& e) { d2 = std::string("QUERY-SWEEP-THROWS ") + e.what() + "\n"; }
    if (d1.rfind("QUERY-SWEEP-THROWS", 0) == 0) { stats["sweep_throws_on_original"]++; if (std::getenv("SERIAL_DEBUG")) std::cerr << key << " " << d1; }
    stats["query_lines"] += static_cast<long>(std::count(d1.begin(), d1.end(), '\n'));
    if (d1 != d2) {
        bad = true;
        for (const auto& [nk, example] : diffKeys(d1, d2))
            once.fail(key + ".query." + nk, "public query answers differently: " + example + in);
    }
    if (!bad) once.ok();
}

// ---- decks ------------------------------------------------------------------------------------

struct Loaded {
    std::unique_ptr<Opm::Deck> deck;
    std::unique_ptr<Opm::EclipseState> es;
    std::unique_ptr<Opm::Schedule> sched;
    std::unique_ptr<Opm::SummaryConfig> smry;
};

inline bool load(const std::string& pathOrText, bool isFile, Loaded& out, std::string& why) {
    try {
        Opm::ParseContext pc(Opm::InputErrorAction::IGNORE);
        Opm::ErrorGuard eg;
        Opm::Parser parser;
        out.deck = std::make_unique<Opm::Deck>(isFile ? parser.parseFile(pathOrText, pc, eg) : parser.parseString(pathOrText, pc, eg));
        out.es = std::make_unique<Opm::EclipseState>(*out.deck);
        auto python = std::make_shared<Opm::Python>();
        out.sched = std::make_unique<Opm::Schedule>(*out.deck, *out.es, pc, eg, python);
        out.smry = std::make_unique<Opm::SummaryConfig>(*out.deck, *out.sched, out.es->fieldProps(), out.es->aquifer(), pc, eg);
        eg.clear();
        return true;
    } catch (const std::exception& e) {
        why = typeid(e).name();
        return false;
    } catch (...) {
        why = "unknown";
        return false;
    }
}

inline void checkLoaded(const std::string& tag, const Loaded& L, vh::PropLog& plog, std::map<std::string, long>& stats) {
    // does the deck advance time by an amount that is not a whole number of seconds?
    bool deckSubsecond = false;
    for (const auto& kw : *L.deck) {
        if (kw.name() != "TSTEP" || kw.size() == 0) continue;
        for (double sec : kw.getRecord(0).getItem(0).getSIDoubleData()) if (std::fmod(sec, 1.0) != 0.0) deckSubsecond = true;
    }
    roundTrip<Opm::Schedule>("schedule", tag, *L.sched, plog, stats, dumpSchedule,
        [deckSubsecond](const Opm::Schedule& a, const Opm::Schedule& b, std::string& detail) {
            if (a == b) return true;
            bool subsecond = deckSubsecond;
            for (std::size_t i = 0; i < a.size(); ++i)
                if (a[i].start_time().time_since_epoch().count() % 1000 != 0 || (i + 1 < a.size() && a[i].end_time().time_since_epoch().count() % 1000 != 0)) subsecond = true;
            if (subsecond) detail = "@subsecond_time";
            // locate: which snapshot
            for (std::size_t i = 0; i < std::min(a.size(), b.size()); ++i)
                if (!(a[i] == b[i])) { detail += " (first differing ScheduleState: " + std::to_string(i) + ")"; break; }
            return false;
        }, LENGTH);
    roundTrip<Opm::EclipseState>("eclipsestate", tag, *L.es, plog, stats, dumpEclipseState,
        [](const Opm::EclipseState&, const Opm::EclipseState&, std::string&) { return true; /* no operator== */ }, LENGTH);
    roundTrip<Opm::SummaryConfig>("summaryconfig", tag, *L.smry, plog, stats, dumpSummaryConfig,
        [](const Opm::SummaryConfig& a, const Opm::SummaryConfig& b, std::string&) { return a == b; }, EXACT);
    // parts of the schedule on their own (pointer-free: exact bytes)
    const auto& sched = *L.sched;
    const std::size_t last = sched.size() - 1;
    for (std::size_t step : { std::size_t{0}, last / 2, last }) {
        for (const auto& wname : sched.wellNames(step)) {
            const auto& w = sched.getWell(wname, step);
            roundTrip<Opm::Well>("well", tag, w, plog, stats,
                [](const Opm::Well& x) { Dump d; dumpWell(d, "", x); return d.str(); },
                [](const Opm::Well&, const Opm::Well&, std::string&) { return true; /* a lone Well has no unit-system back-pointer */ }, MODULO_PTR);
        }
        for (const auto& gname : sched.groupNames(step)) {
            const auto& g = sched.getGroup(gname, step);
            roundTrip<Opm::Group>("group", tag, g, plog, stats,
                [](const Opm::Group& x) { Dump d; dumpGroup(d, "", x); return d.str(); },
                [](const Opm::Group& a, const Opm::Group& b, std::string&) { return a == b; }, LENGTH);
        }
        roundTrip<Opm::UDQConfig>("udqconfig", tag, sched[step].udq(), plog, stats,
            [](const Opm::UDQConfig& u) { Dump d; d.kv("size", u.size()); for (const auto& def : u.definitions()) d.kv("def", def.keyword() + ":=" + def.input_string()); for (const auto& a : u.assignments()) d.kv("assign", a.keyword()); return d.str(); },
            [](const Opm::UDQConfig& a, const Opm::UDQConfig& b, std::string&) { return a == b; }, LENGTH);
        roundTrip<Opm::Action::Actions>("actions", tag, sched[step].actions(), plog, stats,
            [](const Opm::Action::Actions& x) { Dump d; d.kv("size", x.ecl_size()); for (const auto& a : x) { d.kv("name", a.name()); d.kv("max_run", a.max_run()); d.kv("min_wait", a.min_wait()); } return d.str(); },
            [](const Opm::Action::Actions& a, const Opm::Action::Actions& b, std::string&) { return a == b; }, LENGTH);
    }
}

// ---- generated decks -------------------------------------------------------------------------

inline std::string fmtD(double v) { char b[64]; std::snprintf(b, sizeof b, "%.6g", v); return b; }

inline std::string genDeck(vh::Rng& r, std::map<std::string, long>& stats) {
    std::ostringstream o;
    const int nx = r.range(3, 6), ny = r.range(3, 6), nz = r.range(2, 4);
    const int nwells = r.range(1, 5), ngroups = r.range(1, 3);
    const bool network = r.coin(1, 3), extnet = r.coin();
    const bool field = r.coin(1, 3);
    o << "RUNSPEC\nTITLE\n gen " << r.below(1000) << "\n\nDIMENS\n " << nx << ' ' << ny << ' ' << nz << " /\n";
    o << "OIL\nWATER\nGAS\n" << (r.coin() ? "DISGAS\n" : "") << (r.coin(1, 4) ? "VAPOIL\n" : "");
    o << (field ? "FIELD\n" : "METRIC\n");
    o << "START\n " << r.range(1, 28) << " '" << r.pick(std::vector<std::string>{"JAN", "MAR", "JUN", "OCT", "DEC"}) << "' " << r.range(1990, 2030) << " /\n";
    o << "WELLDIMS\n " << nwells + 2 << " " << nz + 3 << " " << ngroups + 2 << " " << nwells + 2 << " /\n";
    o << "TABDIMS\n 1 1 20 20 " << r.range(1, 3) << " /\nEQLDIMS\n 1 /\n";
    o << "UDQDIMS\n 10 10 4 4 4 4 4 4 4 / \nACTDIMS\n 4 10 80 3 /\n";
    if (network) {
        if (extnet) o << "NETWORK\n " << r.range(3, 9) << " " << r.range(2, 8) << " /\n";
        stats["gen.network"]++;
    }
    if (r.coin(1, 4)) { o << "UNIFOUT\n"; }
    if (r.coin(1, 4)) { o << "FMTOUT\n"; }
    o << "\nGRID\nDX\n " << nx * ny * nz << "*" << fmtD(50 + r.below(100)) << " /\nDY\n " << nx * ny * nz << "*" << fmtD(50 + r.below(100)) << " /\nDZ\n " << nx * ny * nz << "*" << fmtD(5 + r.below(20)) << " /\n";
    o << "TOPS\n " << nx * ny << "*" << fmtD(2000 + r.below(500)) << " /\nPORO\n " << nx * ny * nz << "*0." << r.range(10, 35) << " /\n";
    o << "PERMX\n " << nx * ny * nz << "*" << r.range(10, 900) << " /\nPERMY\n " << nx * ny * nz << "*" << r.range(10, 900) << " /\nPERMZ\n " << nx * ny * nz << "*" << r.range(1, 90) << " /\n";
    o << "\nPROPS\nSWOF\n 0.2 0 1 0\n 0.5 0." << r.range(1, 5) << " 0.3 0\n 1.0 1 0 0 /\nSGOF\n 0 0 1 0\n 0.4 0." << r.range(1, 6) << " 0.2 0\n 0.8 1 0 0 /\n";
    o << "DENSITY\n " << fmtD(800 + r.below(100)) << " " << fmtD(1000 + r.below(50)) << " " << fmtD(0.8 + r.unit()) << " /\n";
    o << "PVTW\n 270 1.03 4.6E-5 0.3 0 /\nROCK\n 270 " << fmtD(1e-5 * (1 + r.below(9))) << " /\n";
    o << "PVDG\n 50 0.02 0.01\n 100 0.01 0.015\n 300 0.004 0.02 /\nPVDO\n 50 1.1 1.0\n 300 1.0 1.2 /\n";
    o << "\nSOLUTION\nEQUIL\n " << fmtD(2050 + r.below(100)) << " " << fmtD(200 + r.below(100)) << " " << fmtD(2200 + r.below(100)) << " 0 " << fmtD(2000 + r.below(40)) << " 0 1 0 0 /\n";
    // SUMMARY
    o << "\nSUMMARY\n";
    const std::vector<std::string> fvec{"FOPR", "FOPT", "FWPR", "FGPR", "FWIR", "FPR", "FWCT", "FGOR"};
    const std::vector<std::string> wvec{"WOPR", "WWPR", "WGPR", "WBHP", "WTHP", "WWCT", "WOPT", "WWIR"};
    const std::vector<std::string> gvec{"GOPR", "GWPR", "GGPR", "GOPT"};
    for (int i = r.range(1, 5); i > 0; --i) o << r.pick(fvec) << "\n";
    for (int i = r.range(0, 4); i > 0; --i) o << r.pick(wvec) << "\n" << (r.coin() ? " /\n" : " 'W1' /\n");
    for (int i = r.range(0, 3); i > 0; --i) o << r.pick(gvec) << "\n /\n";
    if (r.coin(1, 3)) o << "BPR\n 1 1 1 /\n " << nx << " " << ny << " " << nz << " /\n/\n";
    if (r.coin(1, 3)) { o << "RUNSUM\n"; stats["gen.runsum"]++; }
    if (r.coin(1, 4)) o << "NARROW\n";
    if (r.coin(1, 4)) o << "SEPARATE\n";
    if (r.coin(1, 5)) o << "FU1\n";
    // SCHEDULE
    o << "\nSCHEDULE\n";
    std::vector<std::string> groups, wells;
    for (int g = 0; g < ngroups; ++g) groups.push_back("G" + std::to_string(g + 1));
    for (int w = 0; w < nwells; ++w) wells.push_back("W" + std::to_string(w + 1));
    if (r.coin()) { o << "RPTRST\n BASIC=" << r.range(1, 4) << " /\n"; }
    std::set<std::string> parents;
    if (r.coin(1, 3)) { o << "GRUPTREE\n"; for (size_t g = 1; g < groups.size(); ++g) { const auto& par = groups[r.below(g)]; parents.insert(par); o << " '" << groups[g] << "' '" << par << "' /\n"; } o << "/\n"; }
    std::vector<std::string> leaves;
    for (const auto& g : groups) if (!parents.count(g)) leaves.push_back(g);
    std::vector<bool> producer(nwells);
    auto welspecs = [&](int w) {
        o << "WELSPECS\n '" << wells[w] << "' '" << r.pick(leaves) << "' " << r.range(1, nx) << " " << r.range(1, ny) << " " << (r.coin() ? "1*" : fmtD(2000 + r.below(200)))
          << " '" << (producer[w] ? "OIL" : "WATER") << "' " << (r.coin(1, 4) ? fmtD(100 + r.below(100)) : std::string("1*")) << " /\n/\n";
    };
    auto compdat = [&](int w) {
        const int k1 = r.range(1, nz), k2 = r.range(k1, nz);
        o << "COMPDAT\n '" << wells[w] << "' " << (r.coin() ? "2*" : std::to_string(r.range(1, nx)) + " " + std::to_string(r.range(1, ny))) << " " << k1 << " " << k2 << " '"
          << (r.coin(3, 4) ? "OPEN" : "SHUT") << "' " << (r.coin() ? "1*" : "1") << " " << (r.coin() ? "1*" : fmtD(1 + r.below(50))) << " " << fmtD(0.1 + 0.05 * r.below(6))
          << " " << (r.coin(3, 4) ? "1*" : fmtD(100 + r.below(1000))) << " " << (r.coin() ? "1*" : fmtD(r.range(-2, 5))) << " /\n/\n";
    };
    auto control = [&](int w) {
        if (producer[w]) {
            if (r.coin(1, 3)) o << "WCONHIST\n '" << wells[w] << "' 'OPEN' '" << r.pick(std::vector<std::string>{"ORAT", "LRAT", "RESV"}) << "' " << fmtD(r.below(5000)) << " " << fmtD(r.below(500)) << " " << fmtD(r.below(90000)) << (r.coin() ? " 3* " + fmtD(50 + r.below(100)) : "") << " /\n/\n";
            else o << "WCONPROD\n '" << wells[w] << "' '" << (r.coin(4, 5) ? "OPEN" : "SHUT") << "' '" << r.pick(std::vector<std::string>{"ORAT", "LRAT", "BHP", "GRUP"}) << "' " << fmtD(100 + r.below(5000)) << " " << (r.coin() ? "1*" : fmtD(r.below(900))) << " 1* " << fmtD(200 + r.below(7000)) << " 1* " << fmtD(20 + r.below(100)) << " /\n/\n";
        } else {
            o << "WCONINJE\n '" << wells[w] << "' '" << r.pick(std::vector<std::string>{"WATER", "GAS"}) << "' 'OPEN' '" << r.pick(std::vector<std::string>{"RATE", "BHP", "GRUP"}) << "' " << fmtD(100 + r.below(9000)) << " 1* " << fmtD(300 + r.below(300)) << " /\n/\n";
        }
    };
    for (int w = 0; w < nwells; ++w) { producer[w] = (w == 0) || r.coin(2, 3); welspecs(w); compdat(w); control(w); }
    bool haveUdq = false, haveAction = false;
    std::set<int> wlists;
    const int nsteps = r.range(1, 6);
    for (int step = 0; step < nsteps; ++step) {
        // a few random keywords, then advance
        for (int k = r.range(0, 4); k > 0; --k) {
            const int w = static_cast<int>(r.below(nwells));
            switch (r.below(16)) {
            case 0: o << "WELOPEN\n '" << wells[w] << "' '" << r.pick(std::vector<std::string>{"OPEN", "SHUT", "STOP"}) << "' /\n/\n"; break;
            case 1: control(w); break;
            case 2: compdat(w); break;
            case 3: o << "GCONPROD\n '" << r.pick(groups) << "' '" << r.pick(std::vector<std::string>{"ORAT", "LRAT", "NONE", "FLD"}) << "' " << fmtD(1000 + r.below(20000)) << " 2* " << fmtD(2000 + r.below(30000)) << " '" << r.pick(std::vector<std::string>{"RATE", "NONE", "WELL"}) << "' /\n/\n"; break;
            case 4: o << "GCONINJE\n '" << r.pick(groups) << "' 'WATER' '" << r.pick(std::vector<std::string>{"RATE", "VREP", "NONE"}) << "' " << fmtD(1000 + r.below(20000)) << " 1* 1* " << fmtD(0.5 + r.unit()) << " /\n/\n"; break;
            case 5: o << "GECON\n '" << r.pick(groups) << "' " << fmtD(r.below(100)) << " " << fmtD(r.below(1000)) << " " << fmtD(0.5 + 0.4 * r.unit()) << " 2* '" << r.pick(std::vector<std::string>{"NONE", "CON", "WELL"}) << "' '" << (r.coin() ? "YES" : "NO") << "' /\n/\n"; stats["gen.gecon"]++; break;
            case 6: o << "WTEST\n '" << wells[w] << "' " << fmtD(1 + r.below(30)) << " '" << r.pick(std::vector<std::string>{"P", "E", "PE", "G"}) << "' " << r.range(0, 5) << " /\n/\n"; break;
            case 7: o << "WECON\n '" << wells[w] << "' " << fmtD(r.below(50)) << " 1* " << fmtD(0.8 + 0.19 * r.unit()) << " 2* '" << r.pick(std::vector<std::string>{"NONE", "CON", "WELL"}) << "' '" << (r.coin() ? "YES" : "NO") << "' /\n/\n"; break;
            case 8: o << "WEFAC\n '" << wells[w] << "' " << fmtD(0.5 + 0.5 * r.unit()) << " /\n/\n"; break;
            case 9: o << "GEFAC\n '" << r.pick(groups) << "' " << fmtD(0.5 + 0.5 * r.unit()) << " /\n/\n"; break;
            case 10: {
                // every item of the three TUNING records independently entered or defaulted: the
                // optional ones (TMAXWC, TRGSFT, …) carry a has_value flag that must travel on its own
                auto rec = [&](const std::string& types) {
                    std::string out; int last = -1; const int n = (int) types.size();
                    std::vector<std::string> it(n);
                    for (int i = 0; i < n; ++i) if (r.coin(1, 3)) { it[i] = types[i] == 'I' ? std::to_string(r.range(1, 40)) : fmtD(0.01 + r.unit() * (i == 0 ? 1.0 : 20.0)); last = i; }
                    for (int i = 0; i <= last; ++i) out += " " + (it[i].empty() ? std::string("1*") : it[i]);
                    return out + " /\n";
                };
                o << "TUNING\n" << rec("DDDDDDDDDD") << rec("DDDDDDDDDDDDI") << rec("IIIIIIDDDD");
                stats["gen.tuning"]++;
                break;
            }
            case 11: o << "NUPCOL\n " << r.range(1, 12) << " /\n"; break;
            case 12: if (producer[w]) o << "WELTARG\n '" << wells[w] << "' '" << r.pick(std::vector<std::string>{"ORAT", "BHP", "LRAT"}) << "' " << fmtD(50 + r.below(4000)) << " /\n/\n"; break;
            case 13: o << "UDQ\n ASSIGN FU" << r.range(1, 3) << " " << fmtD(r.below(100)) << " /\n " << (r.coin() ? "DEFINE WU" + std::to_string(r.range(1, 2)) + " WOPR * " + fmtD(1 + r.below(5)) + " /\n" : std::string("UNITS FU1 SM3 /\n")) << "/\n"; haveUdq = true; stats["gen.udq"]++; break;
            case 14: {
                o << "ACTIONX\n 'A" << r.range(1, 3) << "' " << r.range(1, 5) << " " << fmtD(r.below(50)) << " /\n " << r.pick(std::vector<std::string>{"FOPR", "WWCT 'W1'", "FWCT", "GOPR 'G1'"}) << " " << r.pick(std::vector<std::string>{">", "<", ">="}) << " " << fmtD(r.unit() * 100) << " /\n/\n";
                if (r.coin()) o << "WELOPEN\n '" << (r.coin() ? "?" : wells[w]) << "' 'SHUT' /\n/\n";
                if (r.coin()) { const int k1 = r.range(1, nz); o << "COMPDAT\n '" << wells[w] << "' " << r.range(1, nx) << " " << r.range(1, ny) << " " << k1 << " " << r.range(k1, nz) << " 'OPEN' 1* 1* 0.2 /\n/\n"; stats["gen.actionx_compdat"]++; }
                o << "ENDACTIO\n"; haveAction = true; stats["gen.actionx"]++; break;
            }
            default: { const int l = r.range(1, 2); const bool isNew = !wlists.count(l); wlists.insert(l);
                       o << "WLIST\n '*L" << l << "' '" << (isNew ? "NEW" : "ADD") << "' '" << wells[w] << "' /\n/\n"; break; }
            }
        }
        if (r.coin(1, 6) && step > 0) { // a new well later on
            // (names stay within the WELLDIMS reserve)
        }
        if (r.coin()) {
            o << "TSTEP\n";
            for (int i = r.range(1, 3); i > 0; --i) {
                switch (r.below(4)) { case 0: o << " " << r.range(1, 31); break; case 1: o << " " << fmtD(0.5 * (1 + r.below(20))); break;
                case 2: o << " " << fmtD(r.unit() * 10); stats["gen.fractional_tstep"]++; break; default: o << " " << fmtD(1e-3 * (1 + r.below(900))); stats["gen.subday_tstep"]++; break; }
            }
            o << " /\n";
        } else {
            o << "TSTEP\n " << r.range(1, 300) << " /\n";
        }
    }
    (void) haveUdq; (void) haveAction;
    o << "END\n";
    return o.str();
}

// ---- random dynamic states -------------------------------------------------------------------

inline double rndVal(vh::Rng& r) {
    switch (r.below(5)) { case 0: return 0.0; case 1: return static_cast<double>(r.range(-1000, 1000)); case 2: return r.unit() * 1e6; case 3: return -r.unit(); default: return vh::f64FromBits(r.next() & 0x7fefffffffffffffull); }
}
inline std::string rndName(vh::Rng& r, const char* prefix, int n) { return std::string(prefix) + std::to_string(r.range(1, n)); }

inline Opm::SummaryState genSummaryState(vh::Rng& r, std::vector<std::string>& queries) {
    Opm::SummaryState st(Opm::TimeService::from_time_t(static_cast<std::time_t>(r.below(2000000000ull))), r.coin() ? 0.0 : -1e20);
    const std::vector<std::string> wv{"WOPR", "WWCT", "WBHP", "WOPT", "WUX"}, gv{"GOPR", "GWPR", "GUY"}, fv{"FOPR", "FOPT", "FWCT", "FUZ", "TIME", "YEARS"};
    const std::vector<std::string> cv{"COPR", "CWIR"}, sv{"SOFR", "SPR"}, rv{"RPR", "ROIP"};
    for (int i = r.range(0, 25); i > 0; --i) {
        switch (r.below(7)) {
        case 0: st.update(r.pick(fv), rndVal(r)); break;
        case 1: st.update_well_var(rndName(r, "W", 6), r.pick(wv), rndVal(r)); break;
        case 2: st.update_group_var(rndName(r, "G", 4), r.pick(gv), rndVal(r)); break;
        case 3: st.update_conn_var(rndName(r, "W", 6), r.pick(cv), r.below(200), rndVal(r)); break;
        case 4: st.update_segment_var(rndName(r, "W", 6), r.pick(sv), r.range(1, 9), rndVal(r)); break;
        case 5: st.update_region_var(r.coin() ? "FIPNUM" : "FIPABC", r.pick(rv), r.range(1, 5), rndVal(r)); break;
        default: st.update_elapsed(r.unit() * 86400 * 30); break;
        }
    }
    for (const auto& k : fv) queries.push_back(k);
    return st;
}

inline std::string dumpSummaryState(const Opm::SummaryState& st) {
    Dump d;
    d.kv("elapsed", st.get_elapsed());
    d.kv("size", st.size());
    d.kv("num_wells", st.num_wells());
    std::vector<std::string> keys;
    for (const auto& kv : st) keys.push_back(kv.first);
    std::sort(keys.begin(), keys.end());
    for (const auto& k : keys) { d.kv("has." + k, st.has(k)); d.kv("get." + k, st.get(k)); }
    for (const char* k : { "FOPR", "FNOSUCH", "WOPR:W1", "TIME" }) { d.kv(std::string("has?") + k, st.has(k)); d.kv(std::string("get?") + k, st.get(k, -7.0)); }
    d.kv("wells", joinSorted(st.wells()));
    d.kv("groups", joinSorted(st.groups()));
    for (const char* v : { "WOPR", "WWCT", "WBHP", "WOPT", "WUX" }) {
        d.kv(std::string("wells.") + v, joinSorted(st.wells(v)));
        for (int w = 1; w <= 6; ++w) { const std::string wn = "W" + std::to_string(w); d.kv(wn + "." + v + ".has", st.has_well_var(wn, v)); d.kv(wn + "." + v, st.get_well_var(wn, v, -1.0)); }
    }
    for (const char* v : { "GOPR", "GWPR", "GUY" }) {
        d.kv(std::string("groups.") + v, joinSorted(st.groups(v)));
        for (int g = 1; g <= 4; ++g) { const std::string gn = "G" + std::to_string(g); d.kv(gn + "." + v + ".has", st.has_group_var(gn, v)); d.kv(gn + "." + v, st.get_group_var(gn, v, -1.0)); }
    }
    for (const char* v : { "COPR", "CWIR" }) for (int w = 1; w <= 6; ++w) for (std::size_t gi : { std::size_t{0}, std::size_t{7}, std::size_t{100} }) {
        const std::string wn = "W" + std::to_string(w); d.kv(wn + "." + v + "." + std::to_string(gi), st.get_conn_var(wn, v, gi, -1.0)); }
    for (const char* v : { "SOFR", "SPR" }) for (int w = 1; w <= 6; ++w) for (std::size_t s = 1; s <= 9; ++s) {
        const std::string wn = "W" + std::to_string(w); d.kv(wn + "." + v + "." + std::to_string(s), st.get_segment_var(wn, v, s, -1.0)); }
    for (const char* v : { "RPR", "ROIP" }) for (const char* rs : { "FIPNUM", "FIPABC" }) for (std::size_t reg = 1; reg <= 5; ++reg)
        d.kv(std::string(rs) + "." + v + "." + std::to_string(reg), st.has_region_var(rs, v, reg) ? st.get_region_var(rs, v, reg) : -1.0);
    return d.str();
}

inline Opm::UDQSet genUDQSet(vh::Rng& r, const std::string& key) {
    if (key[0] == 'W') {
        std::vector<std::string> ws; for (int i = 1; i <= 6; ++i) ws.push_back("W" + std::to_string(i));
        auto s = Opm::UDQSet::wells(key, ws);
        for (const auto& w : ws) if (r.coin(2, 3)) s.assign(w, rndVal(r));
        return s;
    }
    if (key[0] == 'G') {
        std::vector<std::string> gs; for (int i = 1; i <= 4; ++i) gs.push_back("G" + std::to_string(i));
        auto s = Opm::UDQSet::groups(key, gs);
        for (const auto& g : gs) if (r.coin(2, 3)) s.assign(g, rndVal(r));
        return s;
    }
    if (r.coin(1, 4)) return Opm::UDQSet::scalar(key, std::nullopt);
    return Opm::UDQSet::scalar(key, rndVal(r));
}

inline Opm::UDQState genUDQState(vh::Rng& r) {
    Opm::UDQState st(r.coin() ? -99.0 : 0.25);
    const std::vector<std::string> keys{"FUA", "FUB", "WUA", "WUB", "GUA", "GUB"};
    for (int i = r.range(0, 10); i > 0; --i) {
        const auto& k = r.pick(keys);
        if (r.coin()) st.add_define(r.below(20), k, genUDQSet(r, k)); else st.add_assign(k, genUDQSet(r, k));
    }
    return st;
}

inline std::string dumpUDQState(const Opm::UDQState& st) {
    Dump d;
    d.kv("undef", st.undefined_value());
    for (const char* k : { "FUA", "FUB", "FUC" }) { d.kv(std::string("has.") + k, st.has(k)); d.guarded(k, [&] { d.kv(k, st.get(k)); }); }
    for (const char* k : { "WUA", "WUB" }) for (int w = 1; w <= 6; ++w) { const std::string wn = "W" + std::to_string(w);
        d.kv(wn + "." + k + ".has", st.has_well_var(wn, k)); d.guarded(wn + k, [&] { d.kv(wn + "." + k, st.get_well_var(wn, k)); }); }
    for (const char* k : { "GUA", "GUB" }) for (int g = 1; g <= 4; ++g) { const std::string gn = "G" + std::to_string(g);
        d.kv(gn + "." + k + ".has", st.has_group_var(gn, k)); d.guarded(gn + k, [&] { d.kv(gn + "." + k, st.get_group_var(gn, k)); }); }
    for (std::size_t rs = 0; rs < 20; rs += 3) d.kv("define." + std::to_string(rs), st.define(std::make_pair(Opm::UDQUpdate::ON, rs)));
    return d.str();
}

inline std::string dumpActionState(const Opm::Action::State& st, const std::vector<Opm::Action::ActionX>& acts) {
    Dump d;
    for (const auto& a : acts) {
        d.kv(a.name() + ".count", st.run_count(a));
        d.guarded(a.name() + ".time", [&] { d.kv(a.name() + ".time", static_cast<long long>(st.run_time(a))); });
        const auto* ms = st.result(a.name());
        d.kv(a.name() + ".result", ms != nullptr);
        if (ms) { for (int w = 1; w <= 6; ++w) d.kv(a.name() + ".hasW" + std::to_string(w), ms->hasWell("W" + std::to_string(w))); }
        auto pr = st.python_result(a.name());
        d.kv(a.name() + ".py", pr.has_value() ? (*pr ? "1" : "0") : "none");
    }
    return d.str();
}

inline std::string dumpWellTestState(const Opm::WellTestState& st) {
    Dump d;
    d.kv("closed_wells", st.num_closed_wells());
    d.kv("closed_completions", st.num_closed_completions());
    for (int w = 1; w <= 6; ++w) {
        const std::string wn = "W" + std::to_string(w);
        d.kv(wn + ".closed", st.well_is_closed(wn));
        d.guarded(wn + ".last", [&] { d.kv(wn + ".last", st.lastTestTime(wn)); });
        for (int c = 1; c <= 5; ++c) d.kv(wn + ".c" + std::to_string(c), st.completion_is_closed(wn, c));
    }
    return d.str();
}

inline void runDynamic(vh::Rng& r, vh::PropLog& plog, std::map<std::string, long>& stats, int reps) {
    for (int i = 0; i < reps; ++i) {
        {
            std::vector<std::string> q;
            auto st = genSummaryState(r, q);
            roundTrip<Opm::SummaryState>("summarystate", "random", st, plog, stats, dumpSummaryState,
                [](const Opm::SummaryState& a, const Opm::SummaryState& b, std::string&) { return a == b; }, LENGTH);
        }
        {
            auto st = genUDQState(r);
            roundTrip<Opm::UDQState>("udqstate", "random", st, plog, stats, dumpUDQState,
                [](const Opm::UDQState& a, const Opm::UDQState& b, std::string&) { return a == b; }, LENGTH);
        }
        {
            std::vector<Opm::Action::ActionX> acts;
            for (int a = 1; a <= 4; ++a) acts.emplace_back("ACT" + std::to_string(a), r.range(1, 5), r.unit() * 10, static_cast<std::time_t>(r.below(100000)));
            Opm::Action::State st;
            for (int k = r.range(0, 8); k > 0; --k) {
                const auto& a = r.pick(acts);
                Opm::Action::Result res(r.coin(3, 4));
                if (r.coin()) { std::vector<std::string> ws; for (int w = r.range(1, 3); w > 0; --w) ws.push_back(rndName(r, "W", 6)); res.wells(ws); }
                st.add_run(a, static_cast<std::time_t>(r.below(2000000000ull)), res);
            }
            roundTrip<Opm::Action::State>("actionstate", "random", st, plog, stats,
                [&acts](const Opm::Action::State& s) { return dumpActionState(s, acts); },
                [](const Opm::Action::State& a, const Opm::Action::State& b, std::string&) { return a == b; }, LENGTH);
        }
        {
            Opm::WellTestState st;
            for (int k = r.range(0, 8); k > 0; --k) {
                const std::string wn = rndName(r, "W", 6);
                switch (r.below(4)) {
                case 0: st.close_well(wn, r.pick(std::vector<Opm::WellTestConfig::Reason>{Opm::WellTestConfig::Reason::PHYSICAL, Opm::WellTestConfig::Reason::ECONOMIC, Opm::WellTestConfig::Reason::GROUP}), r.unit() * 1e6); break;
                case 1: st.close_completion(wn, r.range(1, 5), r.unit() * 1e6); break;
                case 2: if (st.well_is_closed(wn)) st.open_well(wn); break;
                default: { const int c = r.range(1, 5); if (st.completion_is_closed(wn, c)) st.open_completion(wn, c); break; }
                }
            }
            roundTrip<Opm::WellTestState>("wellteststate", "random", st, plog, stats, dumpWellTestState,
                [](const Opm::WellTestState& a, const Opm::WellTestState& b, std::string&) { return a == b; }, LENGTH);
        }
        {
            Opm::data::Solution sol;
            const std::size_t ncell = r.range(1, 30);
            for (const char* k : { "PRESSURE", "SWAT", "SGAS", "RS", "TEMP" }) if (r.coin(2, 3)) {
                std::vector<double> v(ncell); for (auto& x : v) x = rndVal(r);
                sol.insert(k, Opm::UnitSystem::measure::identity, v, r.coin() ? Opm::data::TargetType::RESTART_SOLUTION : Opm::data::TargetType::RESTART_AUXILIARY);
            }
            Opm::data::Wells wells;
            for (int w = r.range(0, 4); w > 0; --w) {
                Opm::data::Well dw;
                dw.rates.set(Opm::data::Rates::opt::oil, rndVal(r)); if (r.coin()) dw.rates.set(Opm::data::Rates::opt::wat, rndVal(r)); if (r.coin()) dw.rates.set(Opm::data::Rates::opt::gas, rndVal(r));
                dw.bhp = rndVal(r); dw.thp = rndVal(r); dw.temperature = rndVal(r); dw.control = r.range(0, 9); dw.dynamicStatus = r.coin() ? Opm::Well::Status::OPEN : Opm::Well::Status::SHUT;
                for (int c = r.range(0, 3); c > 0; --c) { Opm::data::Connection dc; dc.index = r.below(1000); dc.pressure = rndVal(r); dc.reservoir_rate = rndVal(r); dc.cell_pressure = rndVal(r); dc.trans_factor = rndVal(r); dc.rates.set(Opm::data::Rates::opt::oil, rndVal(r)); dw.connections.push_back(dc); }
                for (int s = r.range(0, 2); s > 0; --s) { Opm::data::Segment sg; sg.segNumber = r.range(1, 20); sg.rates.set(Opm::data::Rates::opt::wat, rndVal(r)); sg.pressures[Opm::data::SegmentPressures::Value::Pressure] = rndVal(r); dw.segments[sg.segNumber] = sg; }
                dw.current_control.isProducer = r.coin(); dw.current_control.prod = Opm::Well::ProducerCMode::ORAT; dw.current_control.inj = Opm::Well::InjectorCMode::RATE;
                dw.guide_rates.set(Opm::data::GuideRateValue::Item::Oil, rndVal(r));
                wells[rndName(r, "W", 6)] = dw;
            }
            Opm::data::GroupAndNetworkValues gnv;
            for (int g = r.range(0, 3); g > 0; --g) {
                auto& gd = gnv.groupData[rndName(r, "G", 4)];
                gd.currentControl.set(Opm::Group::ProductionCMode::ORAT, Opm::Group::InjectionCMode::RATE, Opm::Group::InjectionCMode::VREP);
                gd.guideRates.production.set(Opm::data::GuideRateValue::Item::Oil, rndVal(r));
            }
            for (int n = r.range(0, 3); n > 0; --n) gnv.nodeData[rndName(r, "N", 4)].pressure = rndVal(r);
            Opm::data::Aquifers aq;
            for (int a = r.range(0, 2); a > 0; --a) {
                Opm::data::AquiferData ad; ad.aquiferID = r.range(1, 9); ad.pressure = rndVal(r); ad.fluxRate = rndVal(r); ad.volume = rndVal(r); ad.initPressure = rndVal(r); ad.datumDepth = rndVal(r);
                if (r.coin()) { auto* f = ad.typeData.create<Opm::data::AquiferType::Fetkovich>(); f->initVolume = rndVal(r); f->prodIndex = rndVal(r); f->timeConstant = rndVal(r); }
                aq[ad.aquiferID] = ad;
            }
            Opm::RestartValue rv(sol, wells, gnv, aq);
            for (int e = r.range(0, 3); e > 0; --e) {
                const std::string key = "EXTRA" + std::to_string(e);
                std::vector<double> v(r.range(1, 8)); for (auto& x : v) x = rndVal(r);
                rv.addExtra(key, Opm::UnitSystem::measure::pressure, v);
            }
            roundTrip<Opm::RestartValue>("restartvalue", "random", rv, plog, stats,
                [](const Opm::RestartValue& x) {
                    Dump d; d.kv("solution", x.solution.size()); d.kv("wells", x.wells.size()); d.kv("extra", x.extra.size());
                    for (const auto& [k, v] : x.solution) { d.kv("sol." + k, static_cast<int>(v.target)); d.kv("sol." + k + ".dim", static_cast<int>(v.dim)); for (double y : v.data<double>()) d.kv("sol." + k + ".v", y); }
                    for (const auto& [k, w] : x.wells) { d.kv("w." + k + ".bhp", w.bhp); d.kv("w." + k + ".oil", w.rates.get(Opm::data::Rates::opt::oil, -1.0)); d.kv("w." + k + ".nconn", w.connections.size()); d.kv("w." + k + ".nseg", w.segments.size()); d.kv("w." + k + ".status", static_cast<int>(w.dynamicStatus)); }
                    for (const auto& [k, g] : x.grp_nwrk.groupData) d.kv("g." + k, g.guideRates.production.get(Opm::data::GuideRateValue::Item::Oil));
                    for (const auto& [k, n] : x.grp_nwrk.nodeData) d.kv("n." + k, n.pressure);
                    for (const auto& [k, a] : x.aquifer) { d.kv("aq." + std::to_string(k), a.pressure); d.kv("aq.fet." + std::to_string(k), a.typeData.is<Opm::data::AquiferType::Fetkovich>()); }
                    for (const auto& [k, v] : x.extra) { d.kv("extra." + k.key, static_cast<int>(k.dim)); for (double y : v) d.kv("extra." + k.key + ".v", y); }
                    return d.str();
                },
                [](const Opm::RestartValue& a, const Opm::RestartValue& b, std::string&) { return a == b; }, LENGTH);
        }
    }
}

inline void runObjects(vh::Rng& rng, vh::PropLog& plog, std::map<std::string, long>& stats, bool thorough, const std::string& outdir) {
    // (a) random dynamic states
    runDynamic(rng, plog, stats, thorough ? 2000 : 60);
    // (b) shipped decks of the working tree
    const char* repoEnv = std::getenv("VERIF_REPO");
    const std::string repo = repoEnv ? repoEnv : "/repo";
    std::vector<std::string> shipped;
    const std::vector<std::string> quickSet{"SPE1CASE1.DATA", "SPE1CASE2.DATA", "ACTIONX_M1.DATA", "UDQ_ACTIONX.DATA", "MSW.DATA", "5_NETWORK_MODEL5_STDW_NETBAL_PACK.DATA", "SPE1CASE1_SUMTHIN.DATA", "TEST_WLIST.DATA"};
    if (thorough) {
        for (const auto& e : fs::directory_iterator(repo + "/tests")) if (e.path().extension() == ".DATA") shipped.push_back(e.path().string());
        std::sort(shipped.begin(), shipped.end());
    } else {
        for (const auto& n : quickSet) shipped.push_back(repo + "/tests/" + n);
    }
    std::ofstream decklog(outdir + "/decks.txt");
    for (const auto& path : shipped) {
        Loaded L; std::string why;
        if (!fs::exists(path) || !load(path, true, L, why)) { stats["shipped.skipped"]++; decklog << "skip " << path << " " << why << "\n"; continue; }
        stats["shipped.loaded"]++;
        decklog << "ok " << path << " steps=" << L.sched->size() << "\n";
        checkLoaded(fs::path(path).filename().string(), L, plog, stats);
    }
    // (c) generated decks
    const int ngen = thorough ? 600 : 25;
    for (int i = 0; i < ngen; ++i) {
        const std::string text = genDeck(rng, stats);
        Loaded L; std::string why;
        if (!load(text, false, L, why)) { stats["gen.rejected"]++; decklog << "gen-reject " << i << " " << why << "\n"; if (stats["gen.rejected"] <= 3) vh::spit(outdir + "/rejected" + std::to_string(i) + ".DATA", text); continue; }
        stats["gen.loaded"]++;
        const long before = plog.failed;
        checkLoaded("gen", L, plog, stats);
        if (plog.failed != before && stats["gen.saved"] < (std::getenv("SERIAL_DEBUG") ? 100 : 5)) { stats["gen.saved"]++; vh::spit(outdir + "/failing" + std::to_string(i) + ".DATA", text); }
    }
}

} // namespace so
